"""C33 — Value binary encoding round-trips and matches the engine layout.

(a) t._from_encoding(t._to_encoding(v)) ≡ v with every byte consumed, result well typed.
(b) layout differential: Python's bytes are decoded by an INDEPENDENT reference decoder written from the EType layout
    semantics (EBaseStruct / EArray / EBinary / ENDArrayColumnMajor / EDictAsUnsortedArrayOfPairs / EUnsortedSet /
    EInt32.. in <repo>/hail/hail/src/is/hail/types/encoded/), parameterised by the EType descriptor that the engine
    declares for Python-encoded values: the body of `EType.fromPythonTypeEncoding` in EType.scala is parsed at run
    time and *interpreted* for the generated type.  An edit to that Scala function changes what the reference decoder
    expects.  If the function can no longer be parsed/interpreted -> DescriptorError -> harness error (exit 2).
"""
from __future__ import annotations

import json
import math
import re
import struct
import traceback

from vlib import hailenv, hailgen, hostenv
from vlib.runner import Result

PROPERTY = 'C33'
LEVEL = 'exploration'
RULE = ('(type, value) pairs from vlib.hailgen (as C32; top-level value non-missing because the wire form has no '
        'top-level missing bit; ndarrays in C, Fortran and strided memory order, zero-length axes; structs/tuples with '
        '9-18 fields and arrays with 7-20 elements so several missing-bit bytes occur) plus a deterministic grid. '
        'Oracle (a): _from_encoding(_to_encoding(v)) == v, all bytes consumed, result typechecks. Oracle (b): an '
        'independent decoder driven by the EType descriptor obtained by interpreting the parsed body of '
        'EType.fromPythonTypeEncoding (EType.scala) consumes exactly Python\'s bytes and yields v. Non-trivial: value '
        'has >=1 missing field/element AND >=1 nested container; distinct by canonical (type, value) descriptor.')
ASSUMPTIONS = [
    'top-level value is non-missing (the engine asserts this; hl.literal sends missing as NA IR)',
    'a Hail str is a UTF-8 sequence; float32 values are float32-representable; call alleles <= 1000 (limits are C34)',
    'layout semantics of each EType constructor are a trusted transcription of the Scala sources (the generated '
    'decoders are not executed); default `required` of every EType constructor is false',
    'booleans are encoded as the bytes 0/1 (the engine reads byte != 0)',
]
TRUSTED = ['reference decoder + Scala-subset parser/interpreter in checks/c33.py', 'vlib/hailgen.py builder and canon()',
           'vlib/hailenv.py']


class DescriptorError(Exception):
    """EType.fromPythonTypeEncoding could not be parsed / interpreted: harness error (exit 2), never a violation."""


# ---------------------------------------------------------------------------------------------------------------
# 1. parse `def fromPythonTypeEncoding(t: Type): EType = t match { case ... => expr ... }`
# ---------------------------------------------------------------------------------------------------------------

_TOK = re.compile(r'''
    (?P<ws>\s+|//[^\n]*|/\*.*?\*/)
  | (?P<str>"(?:[^"\\]|\\.)*")
  | (?P<num>\d+)
  | (?P<arrow>=>)
  | (?P<id>[A-Za-z_][A-Za-z_0-9]*)
  | (?P<p>[(){}\[\],.=:;!<>&|+\-*/$])
''', re.X | re.S)


def _tokenize(src):
    out = []
    pos = 0
    while pos < len(src):
        m = _TOK.match(src, pos)
        if not m:
            raise DescriptorError(f'cannot tokenise Scala at {src[pos:pos + 40]!r}')
        pos = m.end()
        if m.lastgroup == 'ws':
            continue
        out.append((m.lastgroup, m.group(m.lastgroup)))
    return out


def _function_body(src, name='fromPythonTypeEncoding'):
    m = re.search(r'def\s+' + name + r'\s*\(\s*(\w+)\s*:\s*Type\s*\)\s*:\s*EType\s*=\s*(\w+)\s+match\s*\{', src)
    if not m:
        raise DescriptorError(f'`def {name}(t: Type): EType = t match {{` not found in EType.scala')
    if m.group(1) != m.group(2):
        raise DescriptorError('scrutinee of the match is not the parameter')
    i = m.end()
    depth = 1
    j = i
    in_str = False
    while j < len(src) and depth:
        c = src[j]
        if in_str:
            if c == '\\':
                j += 1
            elif c == '"':
                in_str = False
        elif c == '"':
            in_str = True
        elif c == '/' and src[j:j + 2] == '//':
            j = src.index('\n', j)
        elif c == '{':
            depth += 1
        elif c == '}':
            depth -= 1
        j += 1
    if depth:
        raise DescriptorError('unbalanced braces in fromPythonTypeEncoding')
    return m.group(1), src[i:j - 1]


class _P:
    """Parser for the expression subset used on the right-hand sides."""

    def __init__(self, toks):
        self.t = toks
        self.i = 0

    def peek(self, k=0):
        return self.t[self.i + k] if self.i + k < len(self.t) else ('eof', '')

    def eat(self, val=None, kind=None):
        k, v = self.peek()
        if (val is not None and v != val) or (kind is not None and k != kind):
            raise DescriptorError(f'Scala parse: expected {val or kind}, found {v!r} (token {self.i})')
        self.i += 1
        return v

    def at(self, val):
        return self.peek()[1] == val and self.peek()[0] != 'str'

    # cases ------------------------------------------------------------------------------------------------
    def cases(self):
        out = []
        while self.peek()[0] != 'eof':
            self.eat('case')
            pat = []
            while not (self.peek()[0] == 'arrow'):
                if self.peek()[0] == 'eof':
                    raise DescriptorError('case without =>')
                pat.append(self.peek())
                self.i += 1
            self.eat(kind='arrow')
            out.append((self._pattern(pat), self.expr()))
        if not out:
            raise DescriptorError('no cases in fromPythonTypeEncoding')
        return out

    @staticmethod
    def _pattern(toks):
        vals = [v for _, v in toks]
        # `t: TDict` | `TInt32` | `TLocus(_)` | `_`
        if len(vals) == 3 and vals[1] == ':':
            return dict(var=vals[0], cls=vals[2])
        if len(vals) == 1:
            return dict(var=None, cls=vals[0])
        if len(vals) >= 3 and vals[1] == '(' and vals[-1] == ')' and all(v in ('_', ',') for v in vals[2:-1]):
            return dict(var=None, cls=vals[0])
        raise DescriptorError(f'unsupported case pattern: {" ".join(vals)}')

    # expressions ------------------------------------------------------------------------------------------
    def expr(self):
        e = self.primary()
        while True:
            if self.at('.'):
                self.eat('.')
                e = ('sel', e, self.eat(kind='id'))
            elif self.at('('):
                args, kwargs = self.args()
                e = ('app', e, args, kwargs)
            elif self.at('{'):
                e = ('app', e, [self.lambda_block()], {})
            else:
                return e

    def primary(self):
        k, v = self.peek()
        if k == 'id':
            self.i += 1
            if v in ('true', 'false'):
                return ('lit', v == 'true')
            return ('id', v)
        if k == 'num':
            self.i += 1
            return ('lit', int(v))
        if k == 'str':
            self.i += 1
            return ('lit', json.loads(v))
        if v == '(':
            self.eat('(')
            e = self.expr()
            self.eat(')')
            return e
        raise DescriptorError(f'Scala parse: unexpected token {v!r}')

    def args(self):
        self.eat('(')
        args, kwargs = [], {}
        while not self.at(')'):
            if self.peek()[0] == 'id' and self.peek(1) == ('p', '=') and self.peek(2)[0] != 'arrow':
                name = self.eat(kind='id')
                self.eat('=')
                kwargs[name] = self.expr()
            else:
                args.append(self.expr())
            if self.at(','):
                self.eat(',')
            elif not self.at(')'):
                raise DescriptorError(f'Scala parse: expected , or ) found {self.peek()[1]!r}')
        self.eat(')')
        return args, kwargs

    def lambda_block(self):
        self.eat('{')
        param = self.eat(kind='id')
        self.eat(kind='arrow')
        stmts = []
        while True:
            if self.at('val'):
                self.eat('val')
                name = self.eat(kind='id')
                self.eat('=')
                stmts.append(('val', name, self.expr()))
            elif self.at('if'):        # `if (cond) throw new X(...)` — a guard, skipped
                self.eat('if')
                self._skip_balanced('(', ')')
                self.eat('throw')
                self.eat('new')
                self.eat(kind='id')
                self._skip_balanced('(', ')')
            else:
                body = self.expr()
                if self.at(';'):
                    self.eat(';')
                self.eat('}')
                return ('lambda', param, stmts, body)
            if self.at(';'):
                self.eat(';')

    def _skip_balanced(self, o, c):
        self.eat(o)
        depth = 1
        while depth:
            k, v = self.peek()
            if k == 'eof':
                raise DescriptorError('unbalanced parentheses')
            if k != 'str':
                depth += (v == o) - (v == c)
            self.i += 1


_parsed_cache = {}


def parsed_descriptor_function():
    """-> (param name, [(pattern, expr)])   parsed from <repo>/.../EType.scala (honours VERIF_REPO)."""
    key = hostenv.REPO
    if key not in _parsed_cache:
        try:
            src = hailenv.scala_source('is/hail/types/encoded/EType.scala')
        except OSError as e:
            raise DescriptorError(f'cannot read EType.scala: {e}')
        param, body = _function_body(src)
        _parsed_cache[key] = (param, _P(_tokenize(body)).cases())
    return _parsed_cache[key]


# ---------------------------------------------------------------------------------------------------------------
# 2. interpret the parsed function for a Hail type descriptor -> EType descriptor (plain dicts)
# ---------------------------------------------------------------------------------------------------------------

SCALA_CLASSES = {     # Python type kind -> Scala classes/objects it matches (virtual type hierarchy, trusted)
    'int32': ['TInt32'], 'int64': ['TInt64'], 'float32': ['TFloat32'], 'float64': ['TFloat64'], 'bool': ['TBoolean'],
    'str': ['TString'], 'call': ['TCall'], 'locus': ['TLocus'], 'interval': ['TInterval'],
    'array': ['TArray', 'TContainer', 'TIterable'], 'set': ['TSet', 'TContainer', 'TIterable'],
    'dict': ['TDict', 'TContainer', 'TIterable'], 'tuple': ['TTuple', 'TBaseStruct'], 'struct': ['TStruct', 'TBaseStruct'],
    'ndarray': ['TNDArray'], 'binary': ['TBinary'],
}
PRIM_ETYPES = {'EInt32': 'int32', 'EInt64': 'int64', 'EFloat32': 'float32', 'EFloat64': 'float64', 'EBoolean': 'bool',
               'EBinary': 'binary'}


class _TypeVal:
    def __init__(self, td):
        self.td = td

    def fields(self):
        k = hailgen.kind(self.td)
        if k == 'struct':
            return [_FieldVal(n, x, i) for i, (n, x) in enumerate(self.td[1])]
        if k == 'tuple':
            return [_FieldVal(str(i), x, i) for i, x in enumerate(self.td[1])]
        raise DescriptorError(f'.fields on {k}')

    def attr(self, name):
        k = hailgen.kind(self.td)
        if name == 'pointType' and k == 'interval':
            return _TypeVal(self.td[1])
        if name == 'elementType' and k in ('array', 'set', 'ndarray'):
            return _TypeVal(self.td[1])
        if name == 'elementType' and k == 'dict':
            return _TypeVal(['struct', [['key', self.td[1]], ['value', self.td[2]]]])
        if name == 'keyType' and k == 'dict':
            return _TypeVal(self.td[1])
        if name == 'valueType' and k == 'dict':
            return _TypeVal(self.td[2])
        if name == 'nDims' and k == 'ndarray':
            return self.td[2]
        if name == 'size' and k in ('struct', 'tuple'):
            return len(self.td[1])
        if name == 'fields' and k in ('struct', 'tuple'):
            return ('fn', lambda i: self.fields()[i])
        if name == 'types' and k in ('struct', 'tuple'):
            return [f.typ for f in self.fields()]
        raise DescriptorError(f'unsupported type attribute .{name} on {k}')


class _FieldVal:
    def __init__(self, name, td, index):
        self.name, self.typ, self.index = name, _TypeVal(td), index


def _ev(e, env, depth=0):
    tag = e[0]
    if tag == 'lit':
        return e[1]
    if tag == 'id':
        if e[1] in env:
            return env[e[1]]
        if e[1] in PRIM_ETYPES or e[1] in ('EBaseStruct', 'EArray', 'EUnsortedSet', 'EDictAsUnsortedArrayOfPairs',
                                          'ENDArrayColumnMajor', 'EField', 'ArraySeq', 'FastSeq', 'IndexedSeq', 'Array',
                                          'fromPythonTypeEncoding'):
            return ('ctor', e[1])
        raise DescriptorError(f'unknown identifier {e[1]}')
    if tag == 'sel':
        o = _ev(e[1], env, depth)
        if isinstance(o, _TypeVal):
            return o.attr(e[2])
        if isinstance(o, _FieldVal):
            if e[2] in ('name', 'typ', 'index'):
                return getattr(o, e[2])
            raise DescriptorError(f'unsupported field attribute .{e[2]}')
        if isinstance(o, dict) and e[2] == 'setRequired':
            return ('fn', lambda b, o=o: dict(o, req=_bool(b)))
        if isinstance(o, tuple) and o[0] == 'ctor' and o[1] in ('ArraySeq', 'FastSeq', 'IndexedSeq', 'Array') and e[2] == 'tabulate':
            return ('fn', lambda n: ('fn', lambda f: [f(i) for i in range(_int(n))]))
        raise DescriptorError(f'unsupported selection .{e[2]}')
    if tag == 'lambda':
        _, param, stmts, body = e

        def fn(x):
            env2 = dict(env)
            env2[param] = x
            for _, name, ex in stmts:
                env2[name] = _ev(ex, env2, depth)
            return _ev(body, env2, depth)
        return fn
    if tag == 'app':
        f = _ev(e[1], env, depth)
        args = [_ev(a, env, depth) for a in e[2]]
        kwargs = {k: _ev(a, env, depth) for k, a in e[3].items()}
        if callable(f):
            return f(*args)
        if isinstance(f, tuple) and f[0] == 'fn':
            fn_args = [(a if not callable(a) else a) for a in args]
            return f[1](*fn_args)
        if isinstance(f, tuple) and f[0] == 'ctor':
            return _construct(f[1], args, kwargs, depth)
        raise DescriptorError('call of a non-function')
    raise DescriptorError(f'bad AST node {tag}')


def _bool(x):
    if not isinstance(x, bool):
        raise DescriptorError(f'expected Boolean, got {x!r}')
    return x


def _int(x):
    if isinstance(x, bool) or not isinstance(x, int):
        raise DescriptorError(f'expected Int, got {x!r}')
    return x


def _arg(args, kwargs, i, name, default=None, required=True):
    if name in kwargs:
        return kwargs[name]
    if i < len(args):
        return args[i]
    if required:
        raise DescriptorError(f'missing constructor argument {name}')
    return default


def _etype(x):
    if not (isinstance(x, dict) and 'k' in x):
        raise DescriptorError(f'expected an EType, got {x!r}')
    return x


def _construct(name, args, kwargs, depth):
    if name == 'fromPythonTypeEncoding':
        if len(args) != 1 or not isinstance(args[0], _TypeVal):
            raise DescriptorError('fromPythonTypeEncoding(<type>) expected')
        return etype_for(args[0].td, depth + 1)
    if name in ('ArraySeq', 'FastSeq', 'IndexedSeq', 'Array'):
        return list(args)
    if name in PRIM_ETYPES:
        return dict(k=name, req=_bool(_arg(args, kwargs, 0, 'required', False, required=False)))
    if name == 'EField':
        return dict(k='EField', name=_arg(args, kwargs, 0, 'name'), typ=_etype(_arg(args, kwargs, 1, 'typ')),
                    index=_int(_arg(args, kwargs, 2, 'index')))
    if name == 'EBaseStruct':
        fields = _arg(args, kwargs, 0, 'fields')
        if not isinstance(fields, list) or not all(isinstance(f, dict) and f.get('k') == 'EField' for f in fields):
            raise DescriptorError('EBaseStruct(fields) expects a sequence of EField')
        return dict(k='EBaseStruct', fields=fields, req=_bool(_arg(args, kwargs, 1, 'required', False, required=False)))
    if name in ('EArray', 'EUnsortedSet', 'EDictAsUnsortedArrayOfPairs'):
        return dict(k=name, elt=_etype(_arg(args, kwargs, 0, 'elementType')),
                    req=_bool(_arg(args, kwargs, 1, 'required', False, required=False)))
    if name == 'ENDArrayColumnMajor':
        return dict(k=name, elt=_etype(_arg(args, kwargs, 0, 'elementType')), ndims=_int(_arg(args, kwargs, 1, 'nDims')),
                    req=_bool(_arg(args, kwargs, 2, 'required', False, required=False)))
    raise DescriptorError(f'unknown constructor {name}')


class NoCase(Exception):
    """The engine's match has no case for this type (it would throw MatchError): a layout violation, not exit 2."""


def etype_for(td, depth=0):
    if depth > 60:
        raise DescriptorError('descriptor recursion too deep')
    param, cases = parsed_descriptor_function()
    classes = SCALA_CLASSES[hailgen.kind(td)] + ['Type', '_']
    for pat, rhs in cases:
        if pat['cls'] in classes:
            env = {param: _TypeVal(td)}
            if pat['var']:
                env[pat['var']] = _TypeVal(td)
            try:
                return _etype(_ev(rhs, env, depth))
            except (DescriptorError, NoCase):
                raise
            except RecursionError:
                raise
            except Exception as e:      # interpreter bug or un-modelled construct: harness error
                raise DescriptorError(f'cannot interpret case {pat["cls"]}: {type(e).__name__}: {e}')
    raise NoCase(hailgen.kind(td))


# ---------------------------------------------------------------------------------------------------------------
# 3. reference decoder: bytes + EType descriptor + Hail type descriptor -> canonical value (hailgen.canon form)
# ---------------------------------------------------------------------------------------------------------------

class LayoutMismatch(Exception):
    pass


class _R:
    def __init__(self, b):
        self.b = b
        self.p = 0

    def take(self, n):
        if n < 0 or self.p + n > len(self.b):
            raise LayoutMismatch(f'engine layout needs {n} byte(s) at offset {self.p} but only {len(self.b) - self.p} remain')
        s = self.b[self.p:self.p + n]
        self.p += n
        return s

    def i32(self):
        return struct.unpack('<i', self.take(4))[0]

    def i64(self):
        return struct.unpack('<q', self.take(8))[0]


def _isqrt_pair(i):
    """diploid gt index -> (j, k) with j <= k, i = k(k+1)/2 + j   (Genotype.allelePair semantics, exact arithmetic)."""
    k = (math.isqrt(8 * i + 1) - 1) // 2
    return i - k * (k + 1) // 2, k


def _decode_call(c):
    u = c & 0xFFFFFFFF
    phased = bool(u & 1)
    ploidy = (u >> 1) & 3
    rep = u >> 3
    if ploidy == 0:
        al = ()
    elif ploidy == 1:
        al = (rep,)
    elif ploidy == 2:
        j, k = _isqrt_pair(rep)
        al = (j, k - j) if phased else (j, k)
    else:
        raise LayoutMismatch(f'call with ploidy {ploidy}')
    return ('c', al, phased)


def _f(x):
    return ('f', 'nan') if x != x else ('f', x.hex())


def ref_decode(et, td, r, rg_of=None):
    k = hailgen.kind(td)
    ek = et['k']
    if ek in PRIM_ETYPES:
        if ek == 'EInt32':
            n = r.i32()
            if k == 'int32':
                return ('i', n)
            if k == 'call':
                return _decode_call(n)
        elif ek == 'EInt64' and k == 'int64':
            return ('i', r.i64())
        elif ek == 'EFloat32' and k == 'float32':
            return _f(struct.unpack('<f', r.take(4))[0])
        elif ek == 'EFloat64' and k == 'float64':
            return _f(struct.unpack('<d', r.take(8))[0])
        elif ek == 'EBoolean' and k == 'bool':
            b = r.take(1)[0]
            if b not in (0, 1):
                raise LayoutMismatch(f'boolean byte {b}')
            return ('b', bool(b))
        elif ek == 'EBinary' and k == 'str':
            n = r.i32()
            raw = r.take(n)
            try:
                return ('s', raw.decode('utf-8'))
            except UnicodeDecodeError as e:
                raise LayoutMismatch(f'string bytes are not UTF-8: {e}')
        raise LayoutMismatch(f'engine declares {ek} for a value of type {k}')
    if ek == 'EBaseStruct':
        fields = et['fields']
        if k == 'struct':
            want = [(n, x) for n, x in td[1]]
        elif k == 'tuple':
            want = [(str(i), x) for i, x in enumerate(td[1])]
        elif k == 'locus':
            want = [('contig', 'str'), ('position', 'int32')]
        elif k == 'interval':
            want = [('start', td[1]), ('end', td[1]), ('includesStart', 'bool'), ('includesEnd', 'bool')]
        else:
            raise LayoutMismatch(f'engine declares EBaseStruct for a value of type {k}')
        # the engine matches EFields to the target's fields BY NAME and silently skips unknown ones
        if [f['name'] for f in fields] != [n for n, _ in want]:
            raise LayoutMismatch(f'EField names {[f["name"] for f in fields]} != target fields {[n for n, _ in want]}')
        if [f['index'] for f in fields] != list(range(len(fields))):
            raise LayoutMismatch('EField indices are not 0..n-1')
        n_opt = sum(1 for f in fields if not f['typ']['req'])
        mbytes = r.take((n_opt + 7) >> 3)
        vals = []
        midx = 0
        for f, (_, ftd) in zip(fields, want):
            if f['typ']['req']:
                vals.append(ref_decode(f['typ'], ftd, r))
            else:
                missing = (mbytes[midx >> 3] >> (midx & 7)) & 1          # LSB-first
                midx += 1
                vals.append(('NA',) if missing else ref_decode(f['typ'], ftd, r))
        if n_opt & 7:   # padding bits of the last missing byte: the engine masks them on write; Python must send 0
            if mbytes[-1] >> (n_opt & 7):
                raise LayoutMismatch('padding bits of the missing byte are set')
        if k == 'struct':
            return ('st', tuple((n, v) for (n, _), v in zip(want, vals)))
        if k == 'tuple':
            return ('t', tuple(vals))
        if k == 'locus':
            if vals[0] == ('NA',) or vals[1] == ('NA',):
                raise LayoutMismatch('locus with missing contig/position')
            return ('l', vals[0][1], vals[1][1], td[1])
        if vals[2] == ('NA',) or vals[3] == ('NA',):
            raise LayoutMismatch('interval with missing inclusiveness flag')
        return ('iv', vals[0], vals[1], vals[2][1], vals[3][1])
    if ek in ('EArray', 'EUnsortedSet', 'EDictAsUnsortedArrayOfPairs'):
        elt = et['elt']
        if ek == 'EDictAsUnsortedArrayOfPairs':
            if k != 'dict':
                raise LayoutMismatch(f'engine declares {ek} for a value of type {k}')
            if elt['k'] != 'EBaseStruct':
                raise LayoutMismatch('EDictAsUnsortedArrayOfPairs element is not an EBaseStruct (engine assertion)')
            etd = ['struct', [['key', td[1]], ['value', td[2]]]]
        elif ek == 'EUnsortedSet':
            if k != 'set':
                raise LayoutMismatch(f'engine declares {ek} for a value of type {k}')
            etd = td[1]
        else:
            if k not in ('array', 'set', 'dict'):
                raise LayoutMismatch(f'engine declares EArray for a value of type {k}')
            etd = td[1] if k != 'dict' else ['struct', [['key', td[1]], ['value', td[2]]]]
        n = r.i32()
        if n < 0:
            raise LayoutMismatch(f'negative length {n}')
        out = []
        if elt['req']:
            for _ in range(n):
                out.append(ref_decode(elt, etd, r))
        else:
            mbytes = r.take((n + 7) >> 3)
            for i in range(n):
                if (mbytes[i >> 3] >> (i & 7)) & 1:
                    out.append(('NA',))
                else:
                    out.append(ref_decode(elt, etd, r))
            if n & 7 and mbytes[-1] >> (n & 7):
                raise LayoutMismatch('padding bits of the missing byte are set')
        if k == 'array':
            return ('a', tuple(out))
        if k == 'set':
            return ('S', len(out), frozenset(out))
        pairs = []
        for o in out:
            if o == ('NA',):
                raise LayoutMismatch('missing key/value pair in dict')
            pairs.append((o[1][0][1], o[1][1][1]))
        return ('D', len(pairs), frozenset(pairs))
    if ek == 'ENDArrayColumnMajor':
        if k != 'ndarray':
            raise LayoutMismatch(f'engine declares {ek} for a value of type {k}')
        if not et['elt']['req']:
            raise LayoutMismatch('ENDArrayColumnMajor element type is not required (PCanonicalNDArray requires it)')
        if et['ndims'] != td[2]:
            raise LayoutMismatch(f'nDims {et["ndims"]} != {td[2]}')
        shape = [r.i64() for _ in range(et['ndims'])]
        if any(d < 0 for d in shape):
            raise LayoutMismatch(f'negative dimension in {shape}')
        total = 1
        for d in shape:
            total *= d
        flat = [ref_decode(et['elt'], td[1], r) for _ in range(total)]       # column-major: first axis fastest
        # re-index to C order for comparison with canon()
        c_order = []
        if total:
            strides = []
            s = 1
            for d in shape:
                strides.append(s)
                s *= d
            idx = [0] * len(shape)
            for _ in range(total):
                c_order.append(flat[sum(i * st for i, st in zip(idx, strides))])
                for ax in range(len(shape) - 1, -1, -1):
                    idx[ax] += 1
                    if idx[ax] < shape[ax]:
                        break
                    idx[ax] = 0
        npname = {'int32': 'int32', 'int64': 'int64', 'float32': 'float32', 'float64': 'float64', 'bool': 'bool'}[td[1]]
        return ('nd', tuple(shape), npname, tuple(c_order))
    raise LayoutMismatch(f'unknown EType {ek}')


def pretty_etype(et):
    k = et['k']
    r = '+' if et['req'] else ''
    if k in PRIM_ETYPES:
        return r + k
    if k == 'EBaseStruct':
        return r + 'EBaseStruct{' + ','.join(f'{f["name"]}:{pretty_etype(f["typ"])}' for f in et['fields']) + '}'
    if k == 'ENDArrayColumnMajor':
        return f'{r}{k}[{pretty_etype(et["elt"])},{et["ndims"]}]'
    return f'{r}{k}[{pretty_etype(et["elt"])}]'


# ---------------------------------------------------------------------------------------------------------------
# 4. oracle
# ---------------------------------------------------------------------------------------------------------------

def _frame(exc):
    root = hostenv.REPO
    best = None
    for fs, _ in traceback.walk_tb(exc.__traceback__):
        if fs.f_code.co_filename.startswith(root):
            slf = fs.f_locals.get('self')
            best = (type(slf).__name__ + '.' if slf is not None else '') + fs.f_code.co_name
    return best or '?'


def oracle(td, vd):
    if vd is None:
        return None           # no top-level missing in the wire form
    hailenv.init()
    from hail.utils.byte_reader import ByteReader
    t = hailgen.build_type(td)
    v = hailgen.build_value(td, vd)
    try:
        enc = t._to_encoding(v)
    except Exception as e:
        return dict(phase='encode', exc=type(e).__name__, frame=_frame(e), msg=f'_to_encoding raised {e!r}')
    if not isinstance(enc, bytes):
        return dict(phase='encode', exc='not-bytes', frame='-', msg=f'_to_encoding returned {type(enc).__name__}')
    want = hailgen.canon(t, v)
    try:
        br = ByteReader(memoryview(enc))
        back = t._convert_from_encoding(br)
        used = br._offset
        back_pub = t._from_encoding(enc)
    except Exception as e:
        return dict(phase='decode', exc=type(e).__name__, frame=_frame(e), msg=f'_from_encoding raised {e!r} on {enc.hex()}')
    if used != len(enc):
        return dict(phase='consumed', exc='leftover', frame='-', msg=f'decoder consumed {used} of {len(enc)} bytes ({enc.hex()})')
    if hailgen.canon(t, back) != want or hailgen.canon(t, back_pub) != want:
        return dict(phase='mismatch', exc='neq', frame='-', msg=f'value {v!r} came back as {back!r} (bytes {enc.hex()})')
    try:
        hailgen.typechecks(t, back)
    except Exception as e:
        return dict(phase='typecheck', exc=type(e).__name__, frame=_frame(e), msg=f'result {back!r} does not typecheck: {e!r}')
    # (b) engine layout
    try:
        et = etype_for(td)
    except NoCase as e:
        return dict(phase='layout', exc='no-case', frame='EType.fromPythonTypeEncoding',
                    msg=f'engine has no EType case for type kind {e} (MatchError)')
    r = _R(enc)
    try:
        got = ref_decode(et, td, r)
    except LayoutMismatch as e:
        return dict(phase='layout', exc='undecodable', frame='EType.fromPythonTypeEncoding',
                    msg=f'engine layout {pretty_etype(et)} cannot decode python bytes {enc.hex()}: {e}')
    if r.p != len(enc):
        return dict(phase='layout', exc='leftover', frame='EType.fromPythonTypeEncoding',
                    msg=f'engine layout {pretty_etype(et)} consumes {r.p} of {len(enc)} python bytes ({enc.hex()})')
    if got != want:
        return dict(phase='layout', exc='neq', frame='EType.fromPythonTypeEncoding',
                    msg=f'engine layout {pretty_etype(et)} reads python bytes {enc.hex()} as {got!r}, python meant {want!r}')
    return None


CLAUSES = {
    'encode': 'every well-typed value can be encoded',
    'decode': 'the binary encoding decodes',
    'consumed': 'decoding consumes all bytes',
    'mismatch': 'the binary encoding decodes back to an equal value',
    'typecheck': 'the decoded value is well typed',
    'layout': 'the byte layout is the one the engine expects for Python-encoded values (EType.fromPythonTypeEncoding)',
}
ROOT_QUALS = {'field-named-self', 'numpy-scalar', 'python-int-as-float', 'order-F', 'order-S', 'zero-axis'}


def diagnose(td, vd, orc):
    path, ltd, lvd, f = hailgen.localize(td, vd, orc)
    lvd = hailgen.shrink_locus(ltd, lvd, orc)
    f = orc(ltd, lvd) or f
    quals = [q for q in hailgen.qualifiers(ltd, lvd, orc) if q in ROOT_QUALS]
    k = hailgen.kind(ltd)
    if k == 'struct' and 'field-named-self' in quals:
        renamed = ['struct', [[('self_' if n == 'self' else n), x] for n, x in ltd[1]]]
        if orc(renamed, lvd):
            quals.remove('field-named-self')
    sig = f'{k}:{f["phase"]}:' + ('+'.join(sorted(quals)) if quals else f['exc'])
    msg = (f'{f["msg"]} | minimal sub-case at /{"/".join(path)}: type={hailgen.build_type(ltd)} '
           f'tdesc={json.dumps(ltd)} vdesc={json.dumps(lvd)} frame={f["frame"]}')
    return sig, f['phase'], msg


def check_case(case, orc=None):
    orc = orc or oracle
    td, vd = case['t'], case['v']
    t = hailgen.build_type(td)
    v = hailgen.build_value(td, vd)
    hailgen.typechecks(t, v)
    stats = hailgen.value_stats(td, vd)
    nontrivial = bool(stats.get('missing')) and bool(stats.get('nested_container'))
    classes = hailgen.classes_of(stats) + [f'top_{hailgen.kind(td)}']
    fails = []
    if orc(td, vd):
        sig, phase, msg = diagnose(td, vd, orc)
        fails.append((sig, CLAUSES.get(phase, phase), msg))
    return nontrivial, classes, fails


def selftest_descriptor():
    """The parsed descriptor for a few types, as text (also proves the Scala function is interpretable)."""
    out = {}
    for name, td in (('int32', 'int32'), ('call', 'call'), ('str', 'str'), ('locus', ['locus', 'GRCh37']),
                     ('interval<int64>', ['interval', 'int64']), ('array<float32>', ['array', 'float32']),
                     ('set<str>', ['set', 'str']), ('dict<str,bool>', ['dict', 'str', 'bool']),
                     ('tuple(int32,str)', ['tuple', ['int32', 'str']]), ('struct{a:float64}', ['struct', [['a', 'float64']]]),
                     ('ndarray<float64,2>', ['ndarray', 'float64', 2])):
        out[name] = pretty_etype(etype_for(td))
    return out


def plan(tier):
    n = 16
    per = 1000 if tier == 'quick' else 20000
    return [dict(kind='grid')] + [dict(kind='hyp', n=per, max_leaves=(4, 6, 8, 12)[i % 4]) for i in range(n - 1)]


def run_shard(spec, seed, tier):
    res = Result()
    hailenv.init()
    res.notes['engine_descriptor'] = '; '.join(f'{k} -> {v}' for k, v in selftest_descriptor().items())  # DescriptorError -> exit 2
    if spec['kind'] == 'grid':
        from checks.c32 import grid_cases
        for case in grid_cases():
            if case['v'] is None:
                continue
            nt, classes, fails = check_case(case)
            res.case(case, nt, classes)
            for sig, cl, msg in fails:
                res.fail(sig, cl, msg, case)
        res.notes['grid_cases'] = res.evaluations
        return res
    from vlib.hyp import search
    search(res, PROPERTY, hailgen.cases(spec['max_leaves'], allow_top_missing=False), check_case, spec['n'], seed, shrink=True)
    return res


def replay(case):
    hailenv.init()
    _, _, fails = check_case(case)
    return [dict(signature=s, clause=c, message=m, case=case) for s, c, m in fails]
