"""C07 — cancellation stops work in the cancelled subtree only."""
from vlib.batchsim import histcheck as H, oracle as O

PROPERTY = 'C07'
LEVEL = 'exploration'
RULE = ('Hypothesis-generated histories (see C01) weighted towards cancellation: group trees of depth <= 3, cancels in every order '
        '(child then ancestor, ancestor then child, siblings, root, repeats), followed by group / job creation beneath cancelled '
        'groups, direct and scheduler-loop scheduling, creating / started / complete for jobs inside, beside and above the cancelled '
        'subtree, always_run jobs, canceller loop bodies, cancellable clean-up. Oracle: (1) a non-always-run job that was cancelled '
        'before the op never newly enters Creating/Running; (2) creating job groups or jobs beneath a cancelled group answers 4xx '
        'and leaves jobs and job_groups unchanged; (3) repeating a cancel changes nothing; (4) a cancel leaves every jobs / '
        'job_groups row outside the cancelled subtree unchanged; (5) schedule / creating / started / complete / scheduler and '
        'canceller bodies are answered normally (no SQL error, no exception) whatever set of groups is cancelled, and a Ready '
        'always_run job offered to an active instance of its pool is placed. Non-trivial: a cancel followed by a scheduling attempt, '
        'or two cancelled groups on one ancestor chain.')
ASSUMPTIONS = ['serializable at transaction granularity on minimysql; error 1242 (scalar subquery returns > 1 row) is reproduced by the interpreter and has its own self-test']
TRUSTED = ['vlib/minimysql', 'vlib/batchsim', 'vlib/batchsim/oracle.py']

ANSWERED = ('schedule', 'creating', 'jp_schedule', 'started', 'complete', 'unschedule', 'sched_loop', 'burst', 'cancel_ready',
            'cancel_creating', 'cancel_running', 'cancel_orphans', 'cleanup_cancellable', 'billing')


def _rows(v, table, keep):
    return {k: tuple(sorted((c, str(x)) for c, x in r.items())) for k, r in getattr(v, table).items() if keep(k)}


def step(w, prev, cur, op, res):
    kind = op[0]
    f = O.check_no_cancelled_running(prev, cur)
    if f:
        return f
    # jobs outside every cancelled subtree are unaffected: a job becomes Cancelled only if it was marked cancelled beforehand (its
    # group or an ancestor cancelled, or its own flag set because a parent did not succeed)
    for k, cj in cur.jobs.items():
        pj = prev.jobs.get(k)
        if pj is not None and cj['state'] == 'Cancelled' and pj['state'] != 'Cancelled' and not prev.marked_cancelled(pj) \
                and not cur.marked_cancelled(cj):
            return [('uncancelled-job-cancelled', 'jobs in sibling or ancestor groups are unaffected',
                     f'job {k} went {pj["state"]} -> Cancelled although neither it nor any group above it is cancelled')]
    if res.get('skipped'):
        return []
    if kind in ANSWERED and not res.get('ok'):
        if 'sqlerr' in res:
            return [(f'sql-error-{res["sqlerr"]}-in-{kind}', 'scheduling, creating, starting and completion requests are answered normally under any combination of cancelled groups',
                     f'{kind} raised SQL error {res["sqlerr"]}: {res.get("msg")}')]
        if 'exc' in res:
            return [(f'exception-in-{kind}', 'requests are answered normally', f'{kind} raised {res["exc"]}')]
    if kind == 'schedule' and res.get('ok') and res.get('always_run') and res.get('state_before') == 'Ready':
        j = cur.jobs.get(tuple(res['job']))
        if j is not None and j['state'] == 'Ready' and prev.jobs[tuple(res['job'])]['state'] == 'Ready':
            inst = next((i for i in cur.S['instances'] if i['name'] == res['instance']), None)
            free = next((x['free_cores_mcpu'] for x in prev.S['instances_free_cores_mcpu'] if x['name'] == res['instance']), 0)
            if inst is not None and inst['state'] == 'active' and free >= j['cores_mcpu']:
                return [('always-run-not-scheduled', 'always-run jobs are scheduled regardless of cancellation',
                         f'always_run job {res["job"]} stayed Ready after schedule_job on active {res["instance"]} with {free} free mcpu')]
    if kind == 'cancel' and res.get('ok'):
        b, g = res['batch_id'], res['group']
        sub = prev.subtree(b, g) | cur.subtree(b, g)
        if prev.group_cancelled(b, g):
            # (3) repeated cancel (or cancel below a cancelled ancestor): nothing changes at all
            for t in ('jobs', 'groups'):
                if _rows(prev, t, lambda k: True) != _rows(cur, t, lambda k: True):
                    return [('repeat-cancel-changed-state', 'repeating the cancellation changes nothing', f'{t} rows changed by cancelling {(b, g)} again')]
            if prev.S['user_inst_coll_resources'] != cur.S['user_inst_coll_resources']:
                return [('repeat-cancel-changed-state', 'repeating the cancellation changes nothing', 'scheduler counters changed')]
        out_jobs = lambda k: not (k[0] == b and prev.jobs[k]['job_group_id'] in sub) if k in prev.jobs else True   # noqa
        if _rows(prev, 'jobs', out_jobs) != _rows(cur, 'jobs', out_jobs):
            return [('cancel-touched-outside', 'jobs in sibling or ancestor groups are unaffected', f'job rows outside subtree of {(b, g)} changed')]
        out_groups = lambda k: not (k[0] == b and k[1] in sub)   # noqa
        if _rows(prev, 'groups', out_groups) != _rows(cur, 'groups', out_groups):
            return [('cancel-touched-outside', 'sibling or ancestor groups are unaffected', f'job_groups rows outside subtree of {(b, g)} changed')]
    if kind in ('groups', 'jobs') and not res.get('skipped'):
        u = w._pick(w.updates, op[1])
        if u is not None and not (len(op) > 3 and op[3]):
            lo, hi = res.get('range', (0, 0))
            b = u['batch_id']
            targets = set()
            if kind == 'groups':
                for k in range(lo, hi):
                    kd, v = u['groups'][k]
                    targets.add(v if kd == 'abs' else u['start_group_id'] + v - 1)
            else:
                for k in range(lo, hi):
                    kd, v = u['jobs'][k]['g']
                    targets.add(v if kd == 'abs' else u['start_group_id'] + v - 1)
            under_cancelled = [t for t in targets if (b, t) in prev.groups and prev.group_cancelled(b, t)]
            if under_cancelled:
                w.saw_create_under_cancelled = True
                if res.get('ok'):
                    return [('created-under-cancelled', 'new jobs and sub-groups cannot be added beneath a cancelled group',
                             f'{kind} accepted although target group(s) {under_cancelled} of batch {b} are cancelled')]
                missing = [t for t in targets if (b, t) not in prev.groups]
                if res.get('http', 0) // 100 != 4 and not missing:
                    # (a bunch that also names a group that was reserved but never created fails on the foreign key first: refused,
                    # but not by the cancellation check, so the status is not judged)
                    return [('create-under-cancelled-not-4xx', 'new jobs and sub-groups beneath a cancelled group are rejected',
                             f'{kind}: {res}')]
                for t in ('jobs', 'groups'):
                    if _rows(prev, t, lambda k: True) != _rows(cur, t, lambda k: True):
                        return [('rejected-create-changed-state', 'a rejected submission leaves the batch unchanged', f'{t} rows changed')]
    return []


def extra(w):
    out = set()
    cancelled_seen = False
    for op, r in w.log:
        if op[0] == 'cancel' and r.get('ok'):
            cancelled_seen = True
        if cancelled_seen and op[0] in ('schedule', 'sched_loop', 'burst', 'creating') and r.get('ok'):
            out.add('scheduling_after_cancel')
    if getattr(w, 'saw_create_under_cancelled', False):
        out.add('create_under_cancelled')
    if 'is-job-cancelled-1242-two-cancelled-ancestors' in w.flags or w.excluded:
        out.add('nested_cancel')
    return out


def nontrivial(w, cls):
    return bool(cls & {'scheduling_after_cancel', 'nested_cancel', 'create_under_cancelled'})


plan, run_shard, replay = H.standard_module(PROPERTY, 'cancel', step, nontrivial, RULE, quick_n=60, thorough_n=1500, extra_classes=extra,
                                           unguarded_shards=5)
