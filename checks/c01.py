"""C01 — scheduler job/core counters always match job states."""
from vlib.batchsim import histcheck as H, oracle as O

PROPERTY = 'C01'
LEVEL = 'exploration'
RULE = ('Hypothesis-generated histories (programs as data, <= 40 ops quick / 80 thorough) over the real batch front-end and driver '
        'code on minimysql: batch/update creation (incl. empty and multi-bunch updates, re-sent bunches), nested job groups, job '
        'submission with parents in same/earlier updates, commit, cancel of any group in any order, delete, direct schedule, '
        'creating/started/complete with duplicates and stale attempts, unschedule, instance deactivation, scheduler and canceller '
        'loop bodies, staging/cancellable clean-up; n_tokens in {1,2,5} with harness-drawn token shards. After EVERY op the primary '
        'rows are read back and (1) sum over tokens of the eight user_inst_coll_resources columns == recomputation from jobs of '
        'committed updates (state, cancelled mark incl. ancestors, always_run), (2) job_group_inst_coll_cancellable_resources == '
        'recomputation over the group subtree (rows below a cancelled strict ancestor are stale by design and skipped). '
        'Non-trivial: a committed update with >= 2 jobs and one of {cancel after commit, completion, second commit, nested group, '
        'deactivate, scheduler placement}.')
ASSUMPTIONS = ['executions are serializable at transaction granularity on the minimysql interpreter (no lock-level interleavings, no InnoDB deadlocks)',
               'INSERT..SELECT that reads its own target table is evaluated per row (the reading under which the repository SQL is '
               'correct); cases whose verdict would differ under buffered evaluation are not judged']
TRUSTED = ['vlib/minimysql (MySQL semantics + self-tests)', 'vlib/batchsim (fake worker HTTP, k8s, file store)', 'recomputation in vlib/batchsim/oracle.py']


def step(w, prev, cur, op, res):
    return O.check_user_counters(cur) or O.check_cancellable_counters(cur)


def nontrivial(w, cls):
    big = any(u['committed'] and len(u['jobs']) >= 2 for u in w.updates)
    return big and bool(cls & {'cancel_after_commit', 'complete', 'two_commits', 'nested_groups', 'deactivate', 'scheduler_scheduled'})


plan, run_shard, replay = H.standard_module(PROPERTY, 'counters', step, nontrivial, RULE, quick_n=60, thorough_n=1500)
