"""C19 - client spec bunching preserves order and limits.

Real code: hailtop.batch_client.aioclient.Batch._create_bunches(job_group_specs, job_specs, max_bunch_bytesize, max_bunch_size),
called (unbound, it does not use self) exactly like Batch._submit does: two lists of spec *dicts*, the function serialises each
with orjson.dumps and returns List[List[SpecBytes]].  Caller preconditions (asserts in the function and in Batch.submit):
max_bunch_bytesize > 0, max_bunch_size > 0 and every serialised spec is strictly smaller than max_bunch_bytesize.  Consumers:
_submit_job_group_bunches / _submit_job_bunches walk the same bunch list and post the JOB_GROUP resp. JOB members of each bunch
(a bunch may hold both kinds: the property does not forbid it and the consumers filter by kind), _create_fast/_update_fast take a
single bunch; _submit_spec_bunch asserts a non-empty list, so empty bunches are forbidden.
"""
from __future__ import annotations

import itertools
import json

from vlib import hostenv
from vlib.runner import Result

PROPERTY = 'C19'
LEVEL = 'exploration'
RULE = ('0-40 job-group specs and 0-200 job specs, each a dict whose serialised size is set by a padding field (sizes 2 bytes, '
        'limit-1, limit-2, limit/2 +-1, limit/3, uniform), max_bunch_bytesize = largest spec + delta (delta 1, 2, ... so the '
        'function\'s assert "every spec < max_bunch_bytesize" holds by construction), max_bunch_size 1..60 or huge; plus an '
        'exhaustive grid: 0-2 job groups x 0-4 jobs x sizes {2,40,80} x max_bunch_size {1,2,3} x delta {1,2,41,1000}. '
        'Oracle: concatenated bunches == [dumps(g) for g in groups] + [dumps(j) for j in jobs] byte for byte, kinds '
        'JOB_GROUP* then JOB*, no empty bunch, every bunch has <= max_bunch_size specs and its spec bytes sum to <= '
        'max_bunch_bytesize. Greedy maximality is not required. '
        'Non-trivial: the result has >= 2 bunches and the input has both job groups and jobs; distinct by case.')
ASSUMPTIONS = ['"byte limit" is the sum of the serialised spec sizes in a bunch (what the code counts), not the size of the HTTP body',
               'orjson is absent from the sandbox: hostenv serves a json-backed orjson.dumps; the expected bytes are computed with '
               'the same function object the client uses, so only sizes of ASCII specs matter']
TRUSTED = ['hostenv orjson shim (json.dumps with compact separators)', 'case -> spec builder in checks/c19.py']

_mod = None


def mod():
    global _mod
    if _mod is None:
        hostenv.install()
        import hailtop.batch_client.aioclient as ac
        _mod = dict(ac=ac, fn=ac.Batch._create_bunches, dumps=ac.orjson.dumps, JOB=ac.SpecType.JOB, JG=ac.SpecType.JOB_GROUP)
    return _mod


def _spec(key, i, target):
    """A spec dict whose compact JSON has exactly `target` bytes when achievable, else the nearest smaller shape."""
    base = len(f'{{"{key}":{i},"p":""}}')
    if target >= base:
        return {key: i, 'p': 'x' * (target - base)}
    if target >= len(f'{{"{key}":{i}}}'):
        return {key: i}
    return {}


def build(case):
    groups = [_spec('g', i + 1, t) for i, t in enumerate(case['jg'])]
    jobs = [_spec('i', i + 1, t) for i, t in enumerate(case['jobs'])]
    return groups, jobs


def _size(spec):
    return len(json.dumps(spec, separators=(',', ':')))


def limits(case, groups, jobs):
    biggest = max([_size(s) for s in groups + jobs], default=0)
    return biggest + max(1, case['delta']), max(1, case['max_size'])


def run_case(case):
    m = mod()
    groups, jobs = build(case)
    B, N = limits(case, groups, jobs)
    fails = []
    cls = []
    expected = [m['dumps'](s) for s in groups] + [m['dumps'](s) for s in jobs]
    if any(len(b) >= B for b in expected):           # cannot happen with the shim; guards the caller precondition
        return False, ['precondition_not_met'], []
    try:
        bunches = m['fn'](None, groups, jobs, B, N)
    except Exception as e:
        return True, cls, [(f'raises-{type(e).__name__}', '_create_bunches returns bunches for inputs meeting its preconditions',
                            f'{type(e).__name__}: {e} (B={B}, N={N}, sizes={[len(b) for b in expected][:20]})')]
    flat = [sb for bunch in bunches for sb in bunch]
    got = [sb.spec_bytes for sb in flat]
    if got != expected:
        if len(got) < len(expected):
            sig, what = 'specs-lost', f'{len(expected) - len(got)} spec(s) missing'
        elif len(got) > len(expected):
            sig, what = 'specs-duplicated', f'{len(got) - len(expected)} extra spec(s)'
        elif sorted(got) == sorted(expected):
            sig, what = 'order-changed', 'same specs in a different order'
        else:
            sig, what = 'specs-altered', 'spec bytes differ'
        fails.append((sig, 'concatenated bunches are exactly the group specs then the job specs, byte-identical, in order',
                      f'{what}: B={B} N={N} n_groups={len(groups)} n_jobs={len(jobs)} bunch sizes={[len(b) for b in bunches]}'))
    kinds = [sb.typ for sb in flat]
    want_kinds = [m['JG']] * len(groups) + [m['JOB']] * len(jobs)
    if len(kinds) == len(want_kinds) and kinds != want_kinds:
        fails.append(('kinds-wrong', 'all job groups come before all jobs and each spec keeps its kind',
                      f'kinds {[k.value for k in kinds][:30]}'))
    for bi, bunch in enumerate(bunches):
        nb = sum(sb.n_bytes for sb in bunch)
        if len(bunch) == 0:
            fails.append(('empty-bunch', 'no bunch is empty', f'bunch {bi} of {len(bunches)} is empty (B={B}, N={N})'))
        if len(bunch) > N:
            fails.append(('count-limit-exceeded', 'every bunch has at most max_bunch_size specs',
                          f'bunch {bi} has {len(bunch)} specs > max_bunch_size {N}'))
        if nb > B:
            fails.append(('byte-limit-exceeded', 'every bunch has at most max_bunch_bytesize spec bytes',
                          f'bunch {bi} has {nb} bytes > max_bunch_bytesize {B} (spec sizes {[sb.n_bytes for sb in bunch]})'))
    # classes
    if not expected:
        cls.append('empty_input')
    if len(bunches) == 1:
        cls.append('single_bunch')
    if len(bunches) >= 2:
        cls.append('multi_bunch')
        if any(len(b) == N for b in bunches[:-1]):
            cls.append('bunch_closed_by_count')
        if any(len(b) < N for b in bunches[:-1]):
            cls.append('bunch_closed_by_bytes')
    if any(len({sb.typ for sb in b}) == 2 for b in bunches):
        cls.append('bunch_mixes_groups_and_jobs')
    if any(len(b) == B - 1 for b in expected):
        cls.append('spec_at_limit_minus_1')
    if N == 1:
        cls.append('max_size_1')
    return len(bunches) >= 2 and bool(groups) and bool(jobs), cls, fails


def plan(tier):
    n = 1200 if tier == 'quick' else 15000
    specs = [dict(kind='grid', part=i, of=3) for i in range(3)]
    specs += [dict(kind='hyp', n=n, big=False) for _ in range(9)]
    specs += [dict(kind='hyp', n=n // 2, big=True) for _ in range(4)]
    return specs


def _grid(res, part, of):
    res.exhaustive = True
    local = {}
    n = 0
    k = 0
    for ng in range(0, 3):
        for nj in range(0, 5):
            for sizes in itertools.product([2, 40, 80], repeat=ng + nj):
                for N in (1, 2, 3):
                    for delta in (1, 2, 41, 1000):
                        k += 1
                        if k % of != part:
                            continue
                        case = dict(jg=list(sizes[:ng]), jobs=list(sizes[ng:]), delta=delta, max_size=N)
                        nt, cls, fl = run_case(case)
                        n += 1
                        res.evaluations += 1
                        if nt:
                            res.nontrivial_extra += 1
                            if len(res.samples) < 2 and res.nontrivial_extra % 501 == 3:
                                res.samples.append(case)
                        for c in cls:
                            local[c] = local.get(c, 0) + 1
                        for sig, cl, msg in fl:
                            res.fail(sig, cl, msg, case)
    for key, v in local.items():
        res.count(key, v)
    res.count('grid_cases', n)


def _strategy(big):
    from hypothesis import strategies as st

    @st.composite
    def case(draw):
        B = draw(st.sampled_from([16, 24, 40, 64, 100, 257, 600]) | st.integers(16, 600))
        size = st.one_of(st.sampled_from([B - 1, B - 1, B - 2, B // 2, B // 2 + 1, B // 2 - 1, B // 3, 2, 2, 8]),
                         st.integers(2, B - 1))
        if big:
            jg = draw(st.lists(size, min_size=draw(st.sampled_from([0, 0, 20])), max_size=40))
            jobs = draw(st.lists(size, min_size=draw(st.sampled_from([0, 60, 150])), max_size=200))
        else:
            jg = draw(st.lists(size, min_size=0, max_size=6))
            jobs = draw(st.lists(size, min_size=0, max_size=14))
        N = draw(st.one_of(st.integers(1, 6), st.integers(1, 60), st.just(1024)))
        c = dict(jg=jg, jobs=jobs, delta=1, max_size=N)
        groups, jobsb = build(c)
        biggest = max([_size(s) for s in groups + jobsb], default=0)
        c['delta'] = draw(st.sampled_from([max(1, B - biggest), max(1, B - biggest), 1, 2, 3, 1 << 20]))
        return c
    return case()


def run_shard(spec, seed, tier):
    res = Result()
    mod()
    if spec['kind'] == 'grid':
        _grid(res, spec['part'], spec['of'])
    else:
        from vlib.hyp import search
        search(res, PROPERTY, _strategy(spec['big']), run_case, spec['n'], seed, shrink=True)
    return res


def replay(case):
    nt, cls, fl = run_case(case)
    return [dict(signature=sig, clause=cl, message=m, case=case) for sig, cl, m in fl]
