"""C19 - client spec bunching preserves order and limits.

Real code: hailtop.batch_client.aioclient.Batch._create_bunches(job_group_specs, job_specs, max_bunch_bytesize, max_bunch_size),
called as Batch._submit calls it (bound method of a Batch made by the real constructors): two lists of spec *dicts*, the
function serialises each with orjson.dumps and returns List[List[SpecBytes]].  Caller preconditions (asserts in the function and in Batch.submit):
max_bunch_bytesize > 0, max_bunch_size > 0 and every serialised spec is strictly smaller than max_bunch_bytesize.  Consumers:
_submit_job_group_bunches / _submit_job_bunches walk the same bunch list and post the JOB_GROUP resp. JOB members of each bunch
(a bunch may hold both kinds: the property does not forbid it and the consumers filter by kind), _create_fast/_update_fast take a
single bunch; _submit_spec_bunch asserts a non-empty list, so empty bunches are forbidden.

The Batch object is built the way real callers build it: BatchClient(billing_project, url, session, headers).create_batch(...)
with a fake session (the real Batch.__init__ runs, so an attribute added there is harmless), and _create_bunches is called as a
bound method.  Besides single calls on a fresh Batch there are SEQUENCES of calls on ONE Batch (see RULE): the function is used once
per submit()/update and again when a failed submit is retried, so whatever it keeps between calls is part of the property.
"""
from __future__ import annotations

import asyncio
import itertools
import json

from vlib import hostenv
from vlib.runner import Result

PROPERTY = 'C19'
LEVEL = 'exploration'
RULE = ('0-40 job-group specs and 0-200 job specs, each a dict whose serialised size is set by a padding field (sizes 2 bytes, '
        'limit-1, limit-2, limit/2 +-1, limit/3, uniform), max_bunch_bytesize = largest spec + delta (delta 1, 2, ... so the '
        'function\'s assert "every spec < max_bunch_bytesize" holds by construction), max_bunch_size 1..60 or huge; plus an '
        'exhaustive grid: 0-2 job groups x 0-4 jobs x sizes {2,40,80} x max_bunch_size {1,2,3} x delta {1,2,41,1000}. '
        'Oracle: concatenated bunches == [dumps(g) for g in groups] + [dumps(j) for j in jobs] byte for byte, kinds '
        'JOB_GROUP* then JOB*, no empty bunch, every bunch has <= max_bunch_size specs and its spec bytes sum to <= '
        'max_bunch_bytesize. Greedy maximality is not required. '
        'Non-trivial: the result has >= 2 bunches and the input has both job groups and jobs; distinct by case. '
        'SEQUENCES on one Batch (seq shards), 2-7 calls each with its own limits: via=call - every step either builds NEW spec '
        'dicts (the previous ones are dropped first, so CPython hands their addresses out again: class seq_spec_id_recurs) or '
        'RETRIES with the same spec objects, some edited in place (padding resized / rewritten) and new ones appended; '
        'via=submit - the real create_job_group/create_job/submit() against a recording fake server that can fail the k-th '
        'request of a submit (the specs then stay pending, the caller edits the attributes dicts it passed - which the spec '
        'shares - adds jobs and submits again); _create_bunches is observed through a pass-through wrapper on the instance. '
        'Spec contents carry the step number so that bytes of an earlier call are distinguishable. Oracle per call: the '
        'single-call oracle against THAT call\'s specs as they are at call time, plus (submit) the specs posted to the server '
        'are that update\'s specs. A failure that a fresh Batch does not show for the same specs gets the prefix seq-. '
        'Non-trivial sequence: >= 2 calls and a later call yields >= 2 bunches.')
ASSUMPTIONS = ['"byte limit" is the sum of the serialised spec sizes in a bunch (what the code counts), not the size of the HTTP body',
               'orjson is absent from the sandbox: hostenv serves a json-backed orjson.dumps; the expected bytes are computed with '
               'the same function object the client uses, so only sizes of ASCII specs matter']
ASSUMPTIONS += ['a caller may pass different limits to every submit() and may edit the attributes dict it handed to create_job / '
                'create_job_group until the submit that carries it has succeeded (the spec holds the dict by reference)',
                'the order in which the parallel job-bunch posts reach the server is not part of the property (ids are inside the '
                'specs); only the bunch list returned by _create_bunches is order-checked']
TRUSTED = ['hostenv orjson shim (json.dumps with compact separators)', 'case -> spec builder in checks/c19.py',
           'fake batch server in checks/c19.py (answers create/create-fast/update-fast/updates/commit with consecutive ids)']

_mod = None


def mod():
    global _mod
    if _mod is None:
        hostenv.install()
        import hailtop.batch_client.aioclient as ac
        _mod = dict(ac=ac, dumps=ac.orjson.dumps, JOB=ac.SpecType.JOB, JG=ac.SpecType.JOB_GROUP)
    return _mod


class _Injected(Exception):
    """The fake server's generated failure."""


class _Resp:
    headers: dict = {}

    def __init__(self, body):
        self._body = body

    async def json(self):
        return self._body


class FakeSession:
    """Stands where hailtop.aiocloud.common.Session stands in BatchClient: records every request, answers like the batch front end
    (consecutive batch/update/job ids).  `fail_at` = index of the request (within the current submit) that raises."""

    def __init__(self):
        self.requests = []          # (method, path, decoded body) of the current submit
        self.fail_at = None
        self.batch_id = None
        self.next_update = 1
        self.next_job = 1
        self.next_group = 1
        self.updates = {}           # update id -> [n_groups, n_jobs]

    def begin(self, fail_at):
        self.requests = []
        self.fail_at = fail_at

    def _reserve(self, n_groups, n_jobs):
        g, j = self.next_group, self.next_job
        self.next_group += n_groups
        self.next_job += n_jobs
        return g, j

    async def post(self, url, data=None, json=None, headers=None):
        return self._handle('POST', url, data, json)

    async def patch(self, url, headers=None):
        return self._handle('PATCH', url, None, None)

    def _handle(self, method, url, data, js):
        import json as _json
        path = url.split('batch.hail.test', 1)[-1]
        body = js if data is None else _json.loads(bytes(data._value))
        k = len(self.requests)
        self.requests.append((method, path, body))
        if self.fail_at is not None and k == self.fail_at:
            raise _Injected(f'request {k} ({path}) failed')
        if path.endswith('/batches/create-fast'):
            self.batch_id = 1
            g, j = self._reserve(len(body['job_groups']), len(body['bunch']))
            return _Resp({'id': 1, 'start_job_group_id': g, 'start_job_id': j})
        if path.endswith('/batches/create'):
            self.batch_id = 1
            if body['n_jobs'] == 0 and body['n_job_groups'] == 0:
                return _Resp({'id': 1, 'update_id': None})
            u = self.next_update
            self.next_update += 1
            self.updates[u] = [body['n_job_groups'], body['n_jobs']]
            return _Resp({'id': 1, 'update_id': u})
        if path.endswith('/update-fast'):
            g, j = self._reserve(len(body['job_groups']), len(body['bunch']))
            return _Resp({'start_job_group_id': g, 'start_job_id': j})
        if path.endswith('/updates/create'):
            u = self.next_update
            self.next_update += 1
            self.updates[u] = [body['n_job_groups'], body['n_jobs']]
            return _Resp({'update_id': u})
        if path.endswith('/commit'):
            u = int(path.split('/updates/')[1].split('/')[0])
            g, j = self._reserve(*self.updates[u])
            return _Resp({'start_job_group_id': g, 'start_job_id': j})
        if path.endswith('/jobs/create') or path.endswith('/job-groups/create'):
            return _Resp({})
        raise AssertionError(f'fake batch server: unexpected request {method} {path}')


def new_batch():
    """A Batch as real callers get one: real BatchClient.__init__ and create_batch -> real Batch.__init__."""
    ac = mod()['ac']
    session = FakeSession()
    client = ac.BatchClient('bp1', 'http://batch.hail.test', session, {'Authorization': 'Bearer t'})
    return client.create_batch(attributes={'name': 'c19'}, token='c19-token'), session


def _spec(key, i, target):
    """A spec dict whose compact JSON has exactly `target` bytes when achievable, else the nearest smaller shape."""
    base = len(f'{{"{key}":{i},"p":""}}')
    if target >= base:
        return {key: i, 'p': 'x' * (target - base)}
    if target >= len(f'{{"{key}":{i}}}'):
        return {key: i}
    return {}


def build(case):
    groups = [_spec('g', i + 1, t) for i, t in enumerate(case['jg'])]
    jobs = [_spec('i', i + 1, t) for i, t in enumerate(case['jobs'])]
    return groups, jobs


def _size(spec):
    return len(json.dumps(spec, separators=(',', ':')))


def limits(case, groups, jobs):
    biggest = max([_size(s) for s in groups + jobs], default=0)
    return biggest + max(1, case['delta']), max(1, case['max_size'])


def judge(m, groups, jobs, B, N, bunches, expected):
    """The single-call oracle: `bunches` is what _create_bunches returned for (groups, jobs, B, N); `expected` the reference bytes."""
    fails = []
    flat = [sb for bunch in bunches for sb in bunch]
    got = [sb.spec_bytes for sb in flat]
    if got != expected:
        if len(got) < len(expected):
            sig, what = 'specs-lost', f'{len(expected) - len(got)} spec(s) missing'
        elif len(got) > len(expected):
            sig, what = 'specs-duplicated', f'{len(got) - len(expected)} extra spec(s)'
        elif sorted(got) == sorted(expected):
            sig, what = 'order-changed', 'same specs in a different order'
        else:
            sig, what = 'specs-altered', 'spec bytes differ'
            d = next(i for i, (a, b) in enumerate(zip(got, expected)) if a != b)
            what += f' (first at {d}: got {got[d][:60]!r} want {expected[d][:60]!r})'
        fails.append((sig, 'concatenated bunches are exactly the group specs then the job specs, byte-identical, in order',
                      f'{what}: B={B} N={N} n_groups={len(groups)} n_jobs={len(jobs)} bunch sizes={[len(b) for b in bunches]}'))
    kinds = [sb.typ for sb in flat]
    want_kinds = [m['JG']] * len(groups) + [m['JOB']] * len(jobs)
    if len(kinds) == len(want_kinds) and kinds != want_kinds:
        fails.append(('kinds-wrong', 'all job groups come before all jobs and each spec keeps its kind',
                      f'kinds {[k.value for k in kinds][:30]}'))
    for bi, bunch in enumerate(bunches):
        nb = sum(len(sb.spec_bytes) for sb in bunch)
        if len(bunch) == 0:
            fails.append(('empty-bunch', 'no bunch is empty', f'bunch {bi} of {len(bunches)} is empty (B={B}, N={N})'))
        if len(bunch) > N:
            fails.append(('count-limit-exceeded', 'every bunch has at most max_bunch_size specs',
                          f'bunch {bi} has {len(bunch)} specs > max_bunch_size {N}'))
        if nb > B:
            fails.append(('byte-limit-exceeded', 'every bunch has at most max_bunch_bytesize spec bytes',
                          f'bunch {bi} has {nb} bytes > max_bunch_bytesize {B} (spec sizes {[len(sb.spec_bytes) for sb in bunch]})'))
    return fails


def run_case(case):
    if case.get('seq'):
        return run_seq(case)
    m = mod()
    groups, jobs = build(case)
    B, N = limits(case, groups, jobs)
    cls = []
    expected = [m['dumps'](s) for s in groups] + [m['dumps'](s) for s in jobs]
    if any(len(b) >= B for b in expected):           # cannot happen with the shim; guards the caller precondition
        return False, ['precondition_not_met'], []
    batch, _ = new_batch()
    try:
        bunches = batch._create_bunches(groups, jobs, B, N)
    except Exception as e:
        return True, cls, [(f'raises-{type(e).__name__}', '_create_bunches returns bunches for inputs meeting its preconditions',
                            f'{type(e).__name__}: {e} (B={B}, N={N}, sizes={[len(b) for b in expected][:20]})')]
    fails = judge(m, groups, jobs, B, N, bunches, expected)
    # classes
    if not expected:
        cls.append('empty_input')
    if len(bunches) == 1:
        cls.append('single_bunch')
    if len(bunches) >= 2:
        cls.append('multi_bunch')
        if any(len(b) == N for b in bunches[:-1]):
            cls.append('bunch_closed_by_count')
        if any(len(b) < N for b in bunches[:-1]):
            cls.append('bunch_closed_by_bytes')
    if any(len({sb.typ for sb in b}) == 2 for b in bunches):
        cls.append('bunch_mixes_groups_and_jobs')
    if any(len(b) == B - 1 for b in expected):
        cls.append('spec_at_limit_minus_1')
    if N == 1:
        cls.append('max_size_1')
    return len(bunches) >= 2 and bool(groups) and bool(jobs), cls, fails


# ---------------------------------------------------------------------------------------------------------------------------
# sequences of calls on ONE Batch

def _pad(step, edited=False):
    """Spec contents name the call they were made for, so bytes kept from an earlier call are never accidentally right."""
    return ('ABCDEFGHIJKLMNOPQRSTUVWXYZ' if edited else 'abcdefghijklmnopqrstuvwxyz')[step % 26]


def _seq_spec(key, i, target, ch):
    s = _spec(key, i, target)
    if 'p' in s:
        s['p'] = ch * len(s['p'])
    return s


def _resize(spec, key, i, target, ch):
    """Edit `spec` IN PLACE (same dict object) so that it serialises to ~`target` bytes with padding character `ch`."""
    new = _seq_spec(key, i, target, ch)
    spec.clear()
    spec.update(new)


def _apply_edits(groups, jobs, edits, ch):
    """In-place edits of live spec dicts (no reference to a spec survives the call)."""
    n_edited = size_changed = 0
    n = len(groups) + len(jobs)
    for idx, target in edits:
        if not n:
            break
        k = idx % n
        key, i, spec = ('g', k + 1, groups[k]) if k < len(groups) else ('i', k - len(groups) + 1, jobs[k - len(groups)])
        before = _size(spec)
        _resize(spec, key, i, target, ch)
        n_edited += 1
        size_changed += _size(spec) != before
    return n_edited, size_changed


def _fresh_ok(m, groups, jobs, B, N, expected):
    """Does a FRESH Batch answer correctly for these very spec objects and limits?"""
    try:
        fresh = new_batch()[0]._create_bunches(groups, jobs, B, N)
        return not judge(m, groups, jobs, B, N, fresh, expected)
    except Exception:
        return False


def _judge_call(m, si, groups, jobs, B, N, bunches, expected, fails):
    """Single-call oracle for call number `si` of a sequence; a failure that a FRESH Batch does not show for the very same spec
    objects and limits depends on the earlier calls and is reported as seq-<signature>."""
    fl = judge(m, groups, jobs, B, N, bunches, expected)
    if not fl:
        return
    history = si > 0 and _fresh_ok(m, groups, jobs, B, N, expected)
    for sig, cl, msg in fl:
        if history:
            fails.append((f'seq-{sig}', cl + ' - on every call made on a Batch, whatever calls preceded it',
                          f'call #{si + 1} on the same Batch (a fresh Batch answers correctly for the same specs): {msg}'))
        else:
            fails.append((sig, cl, f'call #{si + 1}: {msg}'))


def _seq_classes(cls, si, bunches, recur, n_edited, size_changed, prev_limits, B, N):
    if si >= 1:
        cls.add('seq_later_call')
        if len(bunches) >= 2:
            cls.add('seq_later_call_multi_bunch')
        if len(bunches) == 1:
            cls.add('seq_later_call_single_bunch')
        if recur:
            cls.add('seq_spec_id_recurs')
        if n_edited:
            cls.add('seq_spec_edited_in_place')
        if size_changed:
            cls.add('seq_edit_changes_size')
        if prev_limits is not None and prev_limits != (B, N):
            cls.add('seq_limits_change_between_calls')


def _run_seq_calls(case, m, cls, fails):
    """via=call: _create_bunches called directly, several times, on one Batch."""
    batch, _ = new_batch()
    groups, jobs = [], []
    freed_ids = set()
    prev_limits = None
    later_multi = False
    for si, step in enumerate(case['steps']):
        n_edited = size_changed = 0
        if step.get('retry') and si > 0:
            cls.add('seq_retry_same_objects')
            n_edited, size_changed = _apply_edits(groups, jobs, step.get('edits', []), _pad(si, True))
            if step['jg'] or step['jobs']:
                cls.add('seq_retry_adds_specs')
            groups = groups + [_seq_spec('g', len(groups) + i + 1, t, _pad(si)) for i, t in enumerate(step['jg'])]
            jobs = jobs + [_seq_spec('i', len(jobs) + i + 1, t, _pad(si)) for i, t in enumerate(step['jobs'])]
        else:
            # like submit(): the submitted specs are dropped, the next update is made of new dicts
            freed_ids.update(id(s) for s in groups + jobs)
            groups = jobs = None
            groups = [_seq_spec('g', i + 1, t, _pad(si)) for i, t in enumerate(step['jg'])]
            jobs = [_seq_spec('i', i + 1, t, _pad(si)) for i, t in enumerate(step['jobs'])]
        B, N = limits(step, groups, jobs)
        expected = [m['dumps'](s) for s in groups] + [m['dumps'](s) for s in jobs]
        try:
            bunches = batch._create_bunches(groups, jobs, B, N)
        except Exception as e:
            pre = 'seq-' if si > 0 and _fresh_ok(m, groups, jobs, B, N, expected) else ''
            fails.append((f'{pre}raises-{type(e).__name__}', '_create_bunches returns bunches for inputs meeting its preconditions'
                          + (' - on every call made on a Batch, whatever calls preceded it' if pre else ''),
                          f'call #{si + 1}{" (a fresh Batch answers correctly for the same specs)" if pre else ""}: '
                          f'{type(e).__name__}: {e} (B={B}, N={N}, sizes={[len(b) for b in expected][:20]})'))
            break
        _judge_call(m, si, groups, jobs, B, N, bunches, expected, fails)
        _seq_classes(cls, si, bunches, any(id(s) in freed_ids for s in groups + jobs), n_edited, size_changed, prev_limits, B, N)
        later_multi = later_multi or (si >= 1 and len(bunches) >= 2)
        prev_limits = (B, N)
        del bunches
    return later_multi


async def _run_seq_submit(case, m, cls, fails):
    """via=submit: the real create_job_group / create_job / submit() against the recording fake server."""
    batch, server = new_batch()
    calls = []
    orig = batch._create_bunches

    def observed(job_group_specs, job_specs, max_bunch_bytesize, max_bunch_size):
        # pass-through: the reference bytes are taken at call time, from the very objects the function is given
        expected = [m['dumps'](s) for s in job_group_specs] + [m['dumps'](s) for s in job_specs]
        out = orig(job_group_specs, job_specs, max_bunch_bytesize, max_bunch_size)
        calls.append((list(job_group_specs), list(job_specs), max_bunch_bytesize, max_bunch_size, out, expected))
        return out
    batch._create_bunches = observed
    pending_attrs = []          # attributes dicts of the specs not yet submitted (shared with the specs)
    freed_ids = set()
    prev_limits = None
    later_multi = False
    failed_before = False
    for si, step in enumerate(case['steps']):
        n_edited = size_changed = 0
        for idx, target in step.get('edits', []):
            if not pending_attrs:
                break
            a = pending_attrs[idx % len(pending_attrs)]
            before = len(a['p'])
            a['p'] = _pad(si, True) * max(0, target - 2)
            n_edited += 1
            size_changed += len(a['p']) != before
        if failed_before:
            cls.add('seq_retry_same_objects')
            cls.add('seq_submit_failed_then_retried')
            if step['jg'] or step['jobs']:
                cls.add('seq_retry_adds_specs')
        for t in step['jg']:
            a = {'p': _pad(si) * max(0, t - 2)}
            pending_attrs.append(a)
            batch.create_job_group(attributes=a)
        for t in step['jobs']:
            a = {'p': _pad(si) * max(0, t - 2)}
            pending_attrs.append(a)
            batch.create_job('img', ['true'], attributes=a)
        groups, jobs = batch._job_group_specs, batch._job_specs
        B, N = limits(step, groups, jobs)
        ids_now = {id(s) for s in groups + jobs}
        recur = bool(ids_now & freed_ids)
        want_groups = [json.loads(m['dumps'](s)) for s in groups]
        want_jobs = [json.loads(m['dumps'](s)) for s in jobs]
        n_calls = len(calls)
        server.begin(step.get('fail_at'))
        ok = False
        try:
            await batch.submit(max_bunch_bytesize=B, max_bunch_size=N, disable_progress_bar=True)
            ok = True
        except _Injected:
            pass
        except Exception as e:
            expected = [m['dumps'](s) for s in groups] + [m['dumps'](s) for s in jobs]
            pre = 'seq-' if si > 0 and _fresh_ok(m, groups, jobs, B, N, expected) else ''
            fails.append((f'{pre}submit-raises-{type(e).__name__}', 'submit() sends the pending specs'
                          + (' - every time, whatever submits preceded it' if pre else ''),
                          f'submit #{si + 1}{" (a fresh Batch bunches the same specs correctly)" if pre else ""}: '
                          f'{type(e).__name__}: {str(e)[:300]} (B={B}, N={N})'))
            break
        new_calls = calls[n_calls:]
        if not new_calls and (want_groups or want_jobs) and not ok:
            failed_before = True
            cls.add('seq_submit_fails')
            continue                                  # failed before bunching anything: nothing to judge
        bunches = []
        for cg, cj, cB, cN, bunches, expected in new_calls:
            if (cB, cN) != (B, N) or [json.loads(b) for b in expected] != want_groups + want_jobs:
                fails.append(('submit-passes-other-specs', 'submit() bunches exactly the pending specs with the caller\'s limits',
                              f'submit #{si + 1}: _create_bunches got {len(cg)} groups/{len(cj)} jobs limits {(cB, cN)}, pending '
                              f'were {len(want_groups)}/{len(want_jobs)} limits {(B, N)}'))
            _judge_call(m, si, cg, cj, cB, cN, bunches, expected, fails)
        cg = cj = None
        if ok:
            # what reached the server is this update's specs (groups in order; job bunches are posted in parallel)
            pg, pj = [], []
            for method, path, body in server.requests:
                if path.endswith('/create-fast') or path.endswith('/update-fast'):
                    pg += body['job_groups']
                    pj += body['bunch']
                elif path.endswith('/job-groups/create'):
                    pg += body
                elif path.endswith('/jobs/create'):
                    pj += body
            key = lambda d: json.dumps(d, sort_keys=True)       # noqa: E731
            if pg != want_groups or sorted(map(key, pj)) != sorted(map(key, want_jobs)):
                fails.append(('posted-specs-differ', 'the specs posted for an update are exactly that update\'s specs',
                              f'submit #{si + 1}: posted {len(pg)} groups / {len(pj)} jobs, pending were {len(want_groups)} / '
                              f'{len(want_jobs)}; first posted job {str(pj[:1])[:200]} want {str(want_jobs[:1])[:200]}'))
            cls.add('seq_submit_fast_path' if len(bunches) == 1 else 'seq_submit_bunched_path' if bunches else 'seq_submit_empty')
            if batch._job_specs or batch._job_group_specs:
                fails.append(('pending-specs-kept-after-submit', 'a successful submit leaves no pending specs',
                              f'submit #{si + 1}: {len(batch._job_group_specs)} groups / {len(batch._job_specs)} jobs still pending'))
            freed_ids |= ids_now
            pending_attrs = []
        else:
            cls.add('seq_submit_fails')
        _seq_classes(cls, si, bunches, recur, n_edited, size_changed, prev_limits, B, N)
        later_multi = later_multi or (si >= 1 and len(bunches) >= 2)
        prev_limits = (B, N)
        failed_before = not ok
        del cg, cj, groups, jobs, bunches, new_calls
        del calls[n_calls:]
    return later_multi


_loop = None


def run_seq(case):
    global _loop
    m = mod()
    cls, fails = set(), []
    cls.add('seq_via_' + case['via'])
    if case['via'] == 'call':
        later_multi = _run_seq_calls(case, m, cls, fails)
    else:
        if _loop is None:
            _loop = asyncio.new_event_loop()
        later_multi = _loop.run_until_complete(_run_seq_submit(case, m, cls, fails))
    dedup = {}
    for f in fails:
        dedup.setdefault(f[0], f)
    return len(case['steps']) >= 2 and later_multi, sorted(cls), list(dedup.values())


def plan(tier):
    n = 1200 if tier == 'quick' else 15000
    specs = [dict(kind='grid', part=i, of=3) for i in range(3)]
    specs += [dict(kind='hyp', n=n, big=False) for _ in range(9)]
    specs += [dict(kind='hyp', n=n // 2, big=True) for _ in range(4)]
    specs += [dict(kind='seq', via='call', n=n // 2) for _ in range(3)]
    specs += [dict(kind='seq', via='submit', n=n // 4) for _ in range(2)]
    return specs


def _grid(res, part, of):
    res.exhaustive = True
    local = {}
    n = 0
    k = 0
    for ng in range(0, 3):
        for nj in range(0, 5):
            for sizes in itertools.product([2, 40, 80], repeat=ng + nj):
                for N in (1, 2, 3):
                    for delta in (1, 2, 41, 1000):
                        k += 1
                        if k % of != part:
                            continue
                        case = dict(jg=list(sizes[:ng]), jobs=list(sizes[ng:]), delta=delta, max_size=N)
                        nt, cls, fl = run_case(case)
                        n += 1
                        res.evaluations += 1
                        if nt:
                            res.nontrivial_extra += 1
                            if len(res.samples) < 2 and res.nontrivial_extra % 501 == 3:
                                res.samples.append(case)
                        for c in cls:
                            local[c] = local.get(c, 0) + 1
                        for sig, cl, msg in fl:
                            res.fail(sig, cl, msg, case)
    for key, v in local.items():
        res.count(key, v)
    res.count('grid_cases', n)


def _strategy(big):
    from hypothesis import strategies as st

    @st.composite
    def case(draw):
        B = draw(st.sampled_from([16, 24, 40, 64, 100, 257, 600]) | st.integers(16, 600))
        size = st.one_of(st.sampled_from([B - 1, B - 1, B - 2, B // 2, B // 2 + 1, B // 2 - 1, B // 3, 2, 2, 8]),
                         st.integers(2, B - 1))
        if big:
            jg = draw(st.lists(size, min_size=draw(st.sampled_from([0, 0, 20])), max_size=40))
            jobs = draw(st.lists(size, min_size=draw(st.sampled_from([0, 60, 150])), max_size=200))
        else:
            jg = draw(st.lists(size, min_size=0, max_size=6))
            jobs = draw(st.lists(size, min_size=0, max_size=14))
        N = draw(st.one_of(st.integers(1, 6), st.integers(1, 60), st.just(1024)))
        c = dict(jg=jg, jobs=jobs, delta=1, max_size=N)
        groups, jobsb = build(c)
        biggest = max([_size(s) for s in groups + jobsb], default=0)
        c['delta'] = draw(st.sampled_from([max(1, B - biggest), max(1, B - biggest), 1, 2, 3, 1 << 20]))
        return c
    return case()


def _seq_strategy(via):
    from hypothesis import strategies as st

    @st.composite
    def case(draw):
        B = draw(st.sampled_from([16, 24, 40, 64, 100, 257, 600]) | st.integers(16, 600))
        size = st.one_of(st.sampled_from([B - 1, B - 1, B - 2, B // 2, B // 2 + 1, B // 2 - 1, B // 3, 2, 2, 8]),
                         st.integers(2, B - 1))
        edits = st.lists(st.tuples(st.integers(0, 40), size).map(list), min_size=0, max_size=3)
        steps = []
        for si in range(draw(st.integers(2, 7))):
            if steps and draw(st.integers(0, 2)) == 0:
                jg, jobs = list(steps[-1]['jg']), list(steps[-1]['jobs'])      # an update shaped like the previous one
            else:
                jg = draw(st.lists(size, min_size=0, max_size=4))
                jobs = draw(st.lists(size, min_size=0, max_size=9))
            N = draw(st.one_of(st.integers(1, 6), st.integers(1, 60), st.just(1024)))
            fit = max(1, B - max(jg + jobs, default=2))
            step = dict(jg=jg, jobs=jobs, max_size=N, delta=draw(st.sampled_from([fit, fit, 1, 2, 3, 1 << 20])))
            if via == 'call':
                step['retry'] = si > 0 and draw(st.integers(0, 2)) == 0
                if step['retry']:
                    step['edits'] = draw(edits)
            else:
                step['fail_at'] = draw(st.none() | st.none() | st.integers(0, 5))
                if steps and steps[-1].get('fail_at') is not None:
                    step['edits'] = draw(edits)
            steps.append(step)
        return dict(seq=True, via=via, steps=steps)
    return case()


def run_shard(spec, seed, tier):
    res = Result()
    mod()
    if spec['kind'] == 'grid':
        _grid(res, spec['part'], spec['of'])
    elif spec['kind'] == 'seq':
        from vlib.hyp import search
        search(res, PROPERTY, _seq_strategy(spec['via']), run_case, spec['n'], seed, shrink=True)
    else:
        from vlib.hyp import search
        search(res, PROPERTY, _strategy(spec['big']), run_case, spec['n'], seed, shrink=True)
    return res


def replay(case):
    nt, cls, fl = run_case(case)
    return [dict(signature=sig, clause=cl, message=m, case=case) for sig, cl, m in fl]
