"""C35 — Common-subexpression rendering preserves meaning (translation validation of hail.ir.renderer.CSERenderer).

A case is a program-as-data (JSON) in one of two dialects, both interpreted by `build()`:

  mode 'api'  an SSA op list over the public expression API (hl.int32/.., + - * //, comparisons, if_else, bind/rbind,
              array/map/filter/flatmap/fold/sum/len, struct/annotate/select/drop/field, tuples, ArrayExpression.aggregate);
              an operand is an index into the pool of previously built Expression *objects*, so using one entry k times
              shares one Python IR node k times; lambda bodies are nested op lists that see the enclosing pool plus the
              lambda variables (shared sub-expressions inside / outside / across lambdas, nested lambdas);
  mode 'ir'   an SSA op list over hail.ir constructors with *named* binders (StreamMap/Filter/Fold, Let, AggLet,
              AggFilter, AggExplode, AggGroupBy, AggArrayPerElement, ApplyAggOp, ApplyScanOp, StreamAgg, StreamAggScan) closed into a
              TableAggregate / TableMapRows / plain value root; entries carry their own free-variable bookkeeping
              (written from the engine's binding rules) so that every generated DAG is well scoped.
Both dialects have a *share* op ('ashare' / 'qshare', also appended as the case's 'tail' so that it is an output): ONE
aggregation entry (an ApplyAggOp / ApplyScanOp object or an expression containing one) is used once per generated chain
of row-set context nodes (filter / explode / group-by / per-element / agg-let; the empty chain is the bare use), the uses
are added or tupled and optionally wrapped again: the same object inside vs outside a filter, inside two different
filters, under nested filters, inside explode / group-by / per-element vs outside, agg and scan.  The class labels
agg_shared_* / scan_shared_* are computed from the built DAG (one ApplyAggOp/ApplyScanOp object reached under two
different context chains), not from the generator's intent.
Nested contexts: both dialects build an aggregation context INSIDE a scan argument and a scan context INSIDE an aggregation
argument (and the two same-kind nestings) with a node shared inside the inner context's arguments -- api: a per-row operand
of a query program may be a nested local aggregation `arr.aggregate(q2)` (StreamAgg) or local scan
`arr._to_stream()._aggregate_scan(q2)` (StreamAggScan) over a per-row array, q2 a query program over *shared per-row slots*
(one node object handed to several aggregators / filter conditions / explode arrays); ir: the 'nest' op builds
StreamAgg / StreamAggScan queries with one per-element node in several arguments and uses the result in per-row position(s)
of an enclosing ApplyScanOp / ApplyAggOp / AggFilter.  Labels agg_inside_scan_shared / scan_inside_agg_shared (also
agg_inside_agg_shared / scan_inside_scan_shared) are computed from the built DAG (nest_share_classes).

Oracle: render the root with CSERenderer() and PlainRenderer(); read both texts (vlib.irtools); then
  scope    every Ref of the CSE text resolves (engine binding rules, eval/agg/scan environments); no __cse_N is bound
           twice on a path; every inserted let's value has all its variables bound at the insertion point; and in-lining
           the value at each use resolves every variable to the *same binder* (no capture, no scope change);
  aggctx   an inserted let whose value aggregates (scans) is bound under exactly the chain of row-set context nodes
           (AggFilter / AggExplode / AggGroupBy / AggArrayPerElement below the same aggregation root) of each of its uses
           -- a let above a filter read inside it would hand the unfiltered result to the filtered use;
  flag     the is_scan flag of every inserted AggLet equals the kind of the first per-row position (ApplyAggOp vs ApplyScanOp
           argument, condition / array / key of a context node with that flag) entered on the way to each of its uses --
           whatever encloses the AggLet: an aggregation entered inside a scan argument binds with is_scan False, a scan
           entered inside an aggregation argument with is_scan True (structural, independent of the environments);
  subst    erasing the inserted lets by substitution gives exactly the plain tree;
  eval     both trees evaluate to the same value in a reference interpreter (NaN == NaN, missing propagates, local and
           table aggregations and scans interpreted over explicit row lists: a filter narrows the row list, explode /
           per-element / group-by re-bind and split it, row i of a scan sees rows 0..i-1) under several environments; a
           let lifted across a context node is reported once, with both values in the message.
"""
from __future__ import annotations

import math
import traceback
import zlib

from vlib import hailenv, hostenv, irtools
from vlib.irtools import Env, Node
from vlib.runner import Result, known_signatures

PROPERTY = 'C35'
LEVEL = 'translation_validation'
RULE = ('IR DAGs with shared Python node objects: (api) SSA op lists over the expression API with nested lambda bodies that '
        'see the enclosing pool; (ir) SSA op lists over hail.ir constructors with named binders and aggregation/scan '
        'nodes closed into TableAggregate/TableMapRows/value roots; both with share ops that use ONE aggregation object '
        'under several chains of row-set contexts (inside/outside a filter, two filters, nested filters, explode, group-by, '
        'per-element, agg and scan; api: hl.agg/hl.scan query programs under array.aggregate, Table.aggregate, scan '
        'annotation), and with nested contexts: a local aggregation (StreamAgg) / local scan (StreamAggScan) whose query '
        'shares one per-element node between several aggregator arguments / filter conditions / explode arrays, used in a '
        'per-row position of an enclosing scan / aggregation (classes agg_inside_scan_shared, scan_inside_agg_shared and the '
        'same-kind agg_inside_agg_shared, scan_inside_scan_shared; api: shared per-row slots and nested '
        'arr.aggregate / arr._to_stream()._aggregate_scan operands of query programs, ir: the nest op). Each DAG is rendered with CSERenderer and '
        'PlainRenderer, both texts are read back, scope-checked with binder identity under the engine binding rules, the '
        'inserted lets that aggregate must sit under the same chain of AggFilter/AggExplode/AggGroupBy/AggArrayPerElement '
        'nodes as each use, the is_scan flag of every inserted AggLet must equal the kind (agg / scan) of the first per-row '
        'position entered on the way to each of its uses, the inserted lets are erased by substitution and compared with the plain tree, and both are '
        'evaluated by a reference interpreter (aggregations and scans over explicit row lists) under 3 environments. '
        'Non-trivial: the CSE text has >=1 inserted let whose value uses a variable bound by a lambda/let binder, or that '
        'lies in (or binds into) an agg/scan scope, or the DAG shares one aggregation object across different row-set '
        'contexts (classes agg_shared_* / scan_shared_*) or shares a node between the per-row positions of an aggregation / '
        'scan nested inside another one (classes *_inside_*_shared); distinct by canonical program.')
ASSUMPTIONS = [
    'the reference interpreter is total: integer division by zero and out-of-range indexing yield missing, so the strictness '
    'of a lifted let with respect to run-time errors (loop-invariant hoisting out of an empty loop) is outside the property',
    'integers wrap at 64 bits in the interpreter regardless of their Hail width; only equality of the two renderings matters',
    'Apply functions without a rule are interpreted as a deterministic typed hash of their arguments',
    'aggregators are Sum / Count / Collect / Take; a scan at row (element) i aggregates rows (elements) 0..i-1; '
    'AggArrayPerElement aggregates position j over the rows whose array has a position j; group-by results are compared as '
    'key-ordered association lists',
    'the index variable of AggArrayPerElement is never referenced by generated ir-mode programs (engine and hail.ir disagree '
    'on whether it is bound in the agg scope; that is a binding-table matter, not a CSE matter)',
    'nested local scans in api mode use the package-private StreamExpression._aggregate_scan (the only Python producer of '
    'StreamAggScan; used by hail.vds); the local scan result is reduced with hl.sum / StreamFold(+) to a per-row number',
    'the binding structure of each node kind is the engine\'s (Binds.scala / Env.scala), transcribed in vlib/irtools.py',
]
TRUSTED = ['vlib/irtools.py reader + binding table (transcribed from Binds.scala/Env.scala)',
           'BaseIR.save_error_info is replaced by a version that skips the (unrendered) Python stack capture',
           'reference interpreter in checks/c35.py', 'vlib/hailenv.py FakeBackend']

CSE_PREFIX = '__cse_'

_ready = None


def _env():
    global _ready
    if _ready is None:
        hl = hailenv.init()
        from hail import ir
        from hail.ir.renderer import CSERenderer, PlainRenderer
        import hail.ir.base_ir as base_ir

        def save_error_info(self):      # keep the error id (it is rendered); skip the Python stack capture (it is not)
            self._error_id = base_ir.get_next_int()
            self._stack_trace = ''
        base_ir.BaseIR.save_error_info = save_error_info
        _ready = (hl, ir, CSERenderer, PlainRenderer)
    return _ready


def _frame(exc):
    root = hostenv.REPO
    best = None
    for fs, _ in traceback.walk_tb(exc.__traceback__):
        if fs.f_code.co_filename.startswith(root):
            slf = fs.f_locals.get('self')
            best = (type(slf).__name__ + '.' if slf is not None else '') + fs.f_code.co_name
    return best or '?'


class _Skip(Exception):
    pass


# =================================================================================================================
# mode 'api' : expression API programs
# =================================================================================================================

STRS = ['', 'a', 'b c', 'q"`']
FIELD_NAMES = ['a', 'b', 'c c', 'd`', 'e']
FREE_TYPES = ['i32', 'i64', 'f64', 'bool', 'str', 'ai32', 'af64', 'st']


def _hl_type(hl, t):
    return {'i32': hl.tint32, 'i64': hl.tint64, 'f64': hl.tfloat64, 'bool': hl.tbool, 'str': hl.tstr,
            'ai32': hl.tarray(hl.tint32), 'af64': hl.tarray(hl.tfloat64),
            'st': hl.tstruct(a=hl.tint32, b=hl.tfloat64)}[t]


def _pick(pool, idx, pred, fallback=None):
    c = [e for e in pool if pred(e.dtype)]
    if not c:
        if fallback is not None:
            return fallback()
        raise _Skip('no operand')
    return c[-1 - (idx % len(c))]


class ApiBuilder:
    def __init__(self, guard_known):
        self.hl = _env()[0]
        self.st = {'ops': 0, 'skipped': 0, 'rejected': 0, 'excluded_known': 0, 'lambdas': 0, 'max_depth': 0}
        self.guard = guard_known
        hl = self.hl
        self.is_num = lambda t: t in (hl.tint32, hl.tint64, hl.tfloat64)
        self.is_int = lambda t: t in (hl.tint32, hl.tint64)
        self.is_bool = lambda t: t == hl.tbool
        self.is_str = lambda t: t == hl.tstr
        self.is_scalar = lambda t: t in (hl.tint32, hl.tint64, hl.tfloat64, hl.tbool, hl.tstr)
        self.is_arr = lambda t: isinstance(t, hl.tarray)
        self.is_numarr = lambda t: isinstance(t, hl.tarray) and self.is_num(t.element_type)
        self.is_struct = lambda t: isinstance(t, hl.tstruct) and len(t) > 0
        self.is_tuple = lambda t: isinstance(t, hl.ttuple) and len(t) > 0
        self.any = lambda t: True

    def same(self, t0):
        return lambda t: t == t0

    def run(self, ops, pool, depth):
        self.st['max_depth'] = max(self.st['max_depth'], depth)
        for op in ops:
            try:
                e = self.apply(op, pool, depth)
            except _Skip:
                self.st['skipped'] += 1
                continue
            except (TypeError, ValueError, AssertionError, KeyError, AttributeError, NotImplementedError,
                    IndexError) as ex:
                self.st['skipped'] += 1
                self.st['rejected'] += 1
                self.st.setdefault('reject_types', {}).setdefault(type(ex).__name__, 0)
                self.st['reject_types'][type(ex).__name__] += 1
                continue
            except Exception as ex:      # hail ExpressionException and friends
                if type(ex).__module__.startswith('hail'):
                    self.st['skipped'] += 1
                    self.st['rejected'] += 1
                    continue
                raise
            self.st['ops'] += 1
            pool.append(e)

    def body(self, spec, pool, depth, pred, nvars=1):
        def fn(*vs):
            self.st['lambdas'] += 1
            p = list(pool) + list(vs)
            self.run(spec.get('ops', []), p, depth + 1)
            return _pick(p, spec.get('ret', 0), pred)
        if nvars == 1:
            return lambda a: fn(a)
        return lambda a, b: fn(a, b)

    def apply(self, op, pool, depth):
        hl = self.hl
        k = op[0]
        fb = {id(self.is_num): lambda: hl.int32(3), id(self.is_bool): lambda: hl.bool(True),
              id(self.is_str): lambda: hl.str('s'), id(self.is_scalar): lambda: hl.int32(2),
              id(self.is_arr): lambda: hl.array([hl.int32(1), hl.int32(4)]),
              id(self.is_numarr): lambda: hl.array([hl.int32(1), hl.int32(4)])}
        P = lambda i, pred: _pick(pool, i, pred, fb.get(id(pred)))     # noqa: E731
        if k == 'lit':
            t, v = op[1], op[2]
            if t == 'i32':
                return hl.int32(int(v))
            if t == 'i64':
                return hl.int64(int(v))
            if t == 'f64':
                return hl.float64(int(v) / 2)
            if t == 'bool':
                return hl.bool(bool(v % 2))
            return hl.str(STRS[v % len(STRS)])
        if k == 'na':
            return hl.missing(_hl_type(hl, op[1]))
        if k == 'bin':
            a, b = P(op[2], self.is_num), P(op[3], self.is_num)
            o = op[1]
            return a + b if o == '+' else a - b if o == '-' else a * b if o == '*' else a // b
        if k == 'cmp':
            a, b = P(op[2], self.is_num), P(op[3], self.is_num)
            o = op[1]
            return {'<': lambda: a < b, '<=': lambda: a <= b, '>': lambda: a > b, '>=': lambda: a >= b,
                    '==': lambda: a == b, '!=': lambda: a != b}[o]()
        if k == 'not':
            return ~P(op[1], self.is_bool)
        if k == 'and':
            return P(op[1], self.is_bool) & P(op[2], self.is_bool)
        if k == 'or':
            return P(op[1], self.is_bool) | P(op[2], self.is_bool)
        if k == 'if':
            c = P(op[1], self.is_bool)
            a = P(op[2], self.any)
            b = P(op[3], self.same(a.dtype))
            return hl.if_else(c, a, b)
        if k == 'ifshare':      # one operand used twice in one branch and once in a sibling branch (or a neighbouring If)
            c, x, y, v = P(op[1], self.is_bool), P(op[2], self.is_num), P(op[3], self.is_num), op[4] % 4
            if v == 0:
                return hl.if_else(c, (x + x) + y, x)
            if v == 1:
                return hl.if_else(c, x * x, x)
            if v == 2:
                return hl.if_else(c, x, x + x)
            return hl.tuple([hl.if_else(c, x + x, y), hl.if_else(c, y, x)])
        if k == 'ormiss':
            return hl.or_missing(P(op[1], self.is_bool), P(op[2], self.any))
        if k == 'coalesce':
            a = P(op[1], self.any)
            return hl.coalesce(a, P(op[2], self.same(a.dtype)))
        if k == 'isna':
            return hl.is_missing(P(op[1], self.any))
        if k == 'array':
            a = P(op[1][0], self.is_scalar)
            return hl.array([a] + [P(i, self.same(a.dtype)) for i in op[1][1:]])
        if k == 'range':
            return hl.range(int(op[1]) % 5)
        if k == 'len':
            return hl.len(P(op[1], self.is_arr))
        if k == 'sum':
            return hl.sum(P(op[1], self.is_numarr))
        if k == 'idx':
            return P(op[1], self.is_arr)[P(op[2], self.same(hl.tint32))]
        if k == 'map':
            return hl.map(self.body(op[2], pool, depth, self.any), P(op[1], self.is_arr))
        if k == 'filter':
            return hl.filter(self.body(op[2], pool, depth, self.is_bool), P(op[1], self.is_arr))
        if k == 'flatmap':
            return hl.flatmap(self.body(op[2], pool, depth, self.is_arr), P(op[1], self.is_arr))
        if k == 'fold':
            a = P(op[1], self.is_arr)
            z = P(op[2], self.is_scalar)
            return hl.fold(self.body(op[3], pool, depth, self.same(z.dtype), 2), z, a)
        if k == 'bind':
            a, b = P(op[1][0], self.any), P(op[1][1], self.any)
            return hl.bind(self.body(op[2], pool, depth, self.any, 2), a, b)
        if k == 'rbind':
            return hl.rbind(P(op[1], self.any), self.body(op[2], pool, depth, self.any))
        if k == 'struct':
            return hl.struct(**{FIELD_NAMES[j % len(FIELD_NAMES)]: P(i, self.any) for j, i in enumerate(op[1])})
        if k == 'field':
            s = P(op[1], self.is_struct)
            fs = list(s.dtype.fields)
            return s[fs[op[2] % len(fs)]]
        if k == 'annotate':
            s = P(op[1], self.is_struct)
            fs = list(s.dtype.fields)
            names = [fs[op[3] % len(fs)], FIELD_NAMES[(op[3] + 1) % len(FIELD_NAMES)]]
            return s.annotate(**{names[j % 2]: P(i, self.any) for j, i in enumerate(op[2][:2])})
        if k == 'select':
            s = P(op[1], self.is_struct)
            fs = list(s.dtype.fields)
            return s.select(*[f for j, f in enumerate(fs) if (op[2] >> j) & 1 or len(fs) == 1])
        if k == 'drop':
            s = P(op[1], self.is_struct)
            fs = list(s.dtype.fields)
            return s.drop(fs[op[2] % len(fs)])
        if k == 'tuple':
            return hl.tuple([P(i, self.any) for i in op[1]])
        if k == 'tget':
            t = P(op[1], self.is_tuple)
            return t[op[2] % len(t.dtype)]
        if k == 'concat':
            return P(op[1], self.is_str) + P(op[2], self.is_str)
        if k == 'tostr':
            return hl.str(P(op[1], self.is_num))
        if k == 'aggregate':
            a = P(op[1], self.is_numarr)
            extra = None if op[3] is None else P(op[3], self.is_num)
            if extra is not None and self.guard:
                self.st['excluded_known'] += 1
                extra = None
            seq = self.body(op[2], pool, depth, self.is_num)

            def q(x):
                r = hl.agg.sum(seq(x))
                return r if extra is None else r + extra
            return a.aggregate(q)
        if k == 'aggq':      # a.aggregate(lambda x: <query program over shared aggregator objects>)
            a = P(op[1], self.is_numarr)
            self.st['api_aggq'] = 1
            return a.aggregate(lambda x: self.query(op[2], x, pool, depth + 1, hl.agg))
        raise _Skip(f'unknown op {k}')

    # ---- aggregation queries over the public aggregator API (hl.agg / hl.scan)
    def query(self, spec, x, pool, depth, A, numeric=False):
        """spec = {'ops': [...], 'ret': [...]}: an SSA program whose entries are *aggregated* expressions (objects).  x is
        the numeric per-row expression (array element / row field).  Per-row operands are built from x (codes below), by
        a nested op-list body over the enclosing pool plus x, as a *shared* per-row entry (['s', j, r]: slot j of this
        query is built once from r and the same object is handed to every aggregator / filter condition / key that names
        the slot) or as a *nested* local aggregation or scan over a per-row array (['n', is_scan, r, spec2]:
        arr.aggregate(q2) -> StreamAgg, arr._to_stream()._aggregate_scan(q2) -> StreamAggScan, q2 a query program of its
        own over the element, which also sees x); aggregated operands are indices into the query's own pool,
        so one aggregator object can be used inside hl.agg.filter / explode / group_by / array_agg and outside.  The
        eval part of the query uses aggregated entries only (the known StreamAgg finding needs an outer variable there).
        numeric: the result is one number (several outputs are added)."""
        hl = self.hl
        ap = []
        slots = {}
        agg_num = lambda e: self.is_num(e.dtype)      # noqa: E731

        def row(r):      # per-row numeric expression
            if isinstance(r, dict):
                return self.body(r, pool, depth, self.is_num)(x)
            if isinstance(r, (list, tuple)):
                if r[0] == 's':
                    j = int(r[1]) % 3
                    if j not in slots:
                        slots[j] = row(r[2])
                    return slots[j]
                if r[0] == 'n':
                    if depth >= 4:
                        raise _Skip('nesting depth')
                    a, inner = arr(r[2]), (hl.scan if r[1] else hl.agg)
                    q2 = lambda e: self.query(r[3], e, list(pool) + [x], depth + 1, inner, numeric=True)    # noqa: E731
                    self.st['api_nested_scan' if r[1] else 'api_nested_agg'] = 1
                    if r[1]:
                        return hl.sum(a._to_stream()._aggregate_scan(q2).to_array())
                    return a.aggregate(q2)
                raise _Skip(f'unknown row operand {r[0]}')
            r = int(r)
            return [x, x * x, x + hl.int32(r), hl.int32(r) - x][r % 4]

        def arr(r):      # per-row array; its elements share one per-row node
            e = row(r)
            if isinstance(r, (list, tuple)):
                return hl.array([e, e + hl.int32(1), e]) if r[0] == 's' and int(r[1]) % 2 else hl.array([e, e])
            return hl.array([e, e]) if isinstance(r, dict) or int(r) % 2 == 0 else hl.array([e, e + hl.int32(1), e])

        def cond(w):
            e, lit = row(w[1]), hl.int32(int(w[2]))
            return e > lit if w[3] else e < lit

        def Q(i, pred=None):
            c = [e for e in ap if pred is None or pred(e)]
            if not c:
                return A.count() if pred is None or pred is agg_num else A.collect(x)
            return c[-1 - (i % len(c))]

        def wrap(w, body):
            kind = w[0]
            if kind == 'f':
                return A.filter(cond(w), body)
            if kind == 'e':
                return A.explode(lambda y: body, arr(w[1]))
            if kind == 'g':
                return A.group_by(row(w[1]), body)
            return A.array_agg(lambda y: body, arr(w[1]))

        qops, qret = list(spec.get('ops', [])), list(spec.get('ret', [0]))
        if spec.get('tail'):      # a final sharing shape that is always the first output
            qops, qret = qops + [spec['tail']], [0] + qret
        for op in qops:
            k = op[0]
            try:
                if k == 'qsum':
                    e = A.sum(row(op[1]))
                elif k == 'qcount':
                    e = A.count()
                elif k == 'qcollect':
                    e = A.collect(row(op[1]))
                elif k in ('qfilter', 'qexplode', 'qgroup', 'qarray'):
                    e = wrap([k[1]] + list(op[2:]), Q(op[1]))
                elif k == 'qbin':
                    a, b = Q(op[2], agg_num), Q(op[3], agg_num)
                    e = a + b if op[1] == '+' else a * b
                elif k == 'qtup':
                    e = hl.tuple([Q(i) for i in op[1]])
                elif k == 'qshare':      # one aggregated entry used once per chain of context wrappers, then combined
                    xq = Q(op[1])
                    uses = []
                    for chain in op[2]:
                        u = xq
                        for w in chain:
                            u = wrap(w, u)
                        uses.append(u)
                    if not op[4] and all(agg_num(u) for u in uses):
                        e = uses[0]
                        for u in uses[1:]:
                            e = e + u
                    else:
                        e = hl.tuple(uses)
                    for w in op[3]:
                        e = wrap(w, e)
                else:
                    raise _Skip(f'unknown query op {k}')
            except _Skip:
                self.st['skipped'] += 1
                continue
            except (TypeError, ValueError, AssertionError, KeyError, AttributeError, NotImplementedError, IndexError) as ex:
                self.st['skipped'] += 1
                self.st['rejected'] += 1
                self.st.setdefault('reject_types', {}).setdefault(type(ex).__name__, 0)
                self.st['reject_types'][type(ex).__name__] += 1
                continue
            except Exception as ex:
                if type(ex).__module__.startswith('hail'):
                    self.st['skipped'] += 1
                    self.st['rejected'] += 1
                    continue
                raise
            self.st['ops'] += 1
            ap.append(e)
        if numeric:
            rets = [Q(r, agg_num) for r in qret] or [Q(0, agg_num)]
            out = rets[0]
            for e in rets[1:]:
                if e is not out:
                    out = out + e
            return out
        rets = [Q(r) for r in qret] or [Q(0)]
        return rets[0] if len(rets) == 1 else hl.tuple(rets)


def build_api(case, guard):
    hl = _env()[0]
    from hail.expr.expressions import construct_variable
    b = ApiBuilder(guard)
    pool = [construct_variable(f'fv{i}', _hl_type(hl, t)) for i, t in enumerate(case.get('free', []))]
    pool.append(hl.int32(1))
    b.run(case.get('ops', []), pool, 0)
    tb = case.get('table')
    if tb:      # Table.aggregate / Table.annotate(scan) of a query program over the row field of a range table
        from hail import ir
        t = hl.utils.range_table(2 + int(tb.get('n', 3)) % 4)
        scan = bool(tb.get('scan'))
        q = b.query(tb['q'], t.idx, pool, 1, hl.scan if scan else hl.agg)
        b.st['api_scan_root' if scan else 'api_table_root'] = 1
        if scan:
            return ir.TableMapRows(t._tir, t.row.annotate(z=q)._ir), b.st
        return ir.TableAggregate(t._tir, q._ir), b.st
    rs = case.get('roots', [0])
    if case.get('all_roots'):      # every top-level entry is an output: nothing built at top level is dead
        roots = pool[len(case.get('free', [])) + 1:] or [pool[-1]]
    else:
        roots = [pool[-1 - (r % len(pool))] for r in rs] or [pool[-1]]
    root = roots[0] if len(roots) == 1 else hl.tuple(roots)
    from hail.ir.utils import finalize_randomness
    return finalize_randomness(root._ir), b.st


# =================================================================================================================
# mode 'ir' : hail.ir constructors with named binders and aggregation shapes
# =================================================================================================================

NAMES = ['x0', 'x1', 'x2']
INDEX_NAME = 'ix'      # index binder of AggArrayPerElement (never referenced)


class E:
    """pool entry: ir node + own bookkeeping (type tag, free eval/agg/scan names, needs-agg / needs-scan)"""
    __slots__ = ('ir', 'ty', 'fe', 'fa', 'fs', 'agg', 'scan')

    def __init__(self, ir, ty, fe=frozenset(), fa=frozenset(), fs=frozenset(), agg=False, scan=False):
        self.ir, self.ty, self.fe, self.fa, self.fs, self.agg, self.scan = ir, ty, frozenset(fe), frozenset(fa), \
            frozenset(fs), agg, scan

    @property
    def pure(self):
        return not self.agg and not self.scan and not self.fa and not self.fs


def _join(ty, ir, *es, fe=None):
    agg = any(e.agg for e in es)
    scan = any(e.scan for e in es)
    if agg and scan:
        raise _Skip('agg+scan')
    u = lambda attr: frozenset().union(*[getattr(e, attr) for e in es]) if es else frozenset()   # noqa: E731
    return E(ir, ty, u('fe') if fe is None else fe, u('fa'), u('fs'), agg, scan)


class IrBuilder:
    def __init__(self, guard_known):
        self.hl, self.ir = _env()[0], _env()[1]
        self.guard = guard_known
        self.st = {'ops': 0, 'skipped': 0, 'rejected': 0, 'excluded_known': 0}
        hl, ir = self.hl, self.ir
        self.t64 = hl.tint64
        self.table = ir.TableRange(4, 2)
        self.row = ir.Ref('row', self.table.typ.row_type)

    def pick(self, pool, idx, ty, pred=None):
        c = [e for e in pool if e.ty in ty and (pred is None or pred(e))]
        if not c:
            raise _Skip('no operand')
        return c[-1 - (idx % len(c))]

    def run(self, ops, pool):
        for op in ops:
            try:
                e = self.apply(op, pool)
            except _Skip:
                self.st['skipped'] += 1
                continue
            self.st['ops'] += 1
            pool.append(e)

    def apply(self, op, pool):
        ir, hl = self.ir, self.hl
        k = op[0]
        t64 = self.t64
        P = lambda i, ty, pred=None: self.pick(pool, i, ty, pred)     # noqa: E731
        pure = lambda e: e.pure                                          # noqa: E731
        nm = lambda i: NAMES[i % len(NAMES)]                            # noqa: E731
        if k == 'i':
            return E(ir.I64(int(op[1])), 'i')
        if k == 'r':
            return E(ir.Ref(nm(op[1]), t64), 'i', fe={nm(op[1])})
        if k == 'row':
            return E(ir.Cast(ir.GetField(self.row, 'idx'), t64), 'i', fe={'row'})
        if k in ('add', 'mul'):
            a, b = P(op[1], 'i'), P(op[2], 'i')
            return _join('i', ir.ApplyBinaryPrimOp('+' if k == 'add' else '*', a.ir, b.ir), a, b)
        if k == 'cmp':
            a, b = P(op[1], 'i'), P(op[2], 'i')
            return _join('b', ir.ApplyComparisonOp('<', a.ir, b.ir), a, b)
        if k == 'if':
            c, a, b = P(op[1], 'b'), P(op[2], 'i'), P(op[3], 'i')
            return _join('i', ir.If(c.ir, a.ir, b.ir), c, a, b)
        if k == 'ifshare':      # one operand used twice in one branch and once in a sibling branch (or a neighbouring If)
            c, x, y, v = P(op[1], 'b'), P(op[2], 'i'), P(op[3], 'i'), op[4] % 4
            add = lambda a, b: ir.ApplyBinaryPrimOp('+', a, b)      # noqa: E731
            if v == 3:
                return _join('o', ir.MakeTuple([ir.If(c.ir, add(x.ir, x.ir), y.ir), ir.If(c.ir, y.ir, x.ir)]), c, x, y)
            th, el = [(add(add(x.ir, x.ir), y.ir), x.ir), (ir.ApplyBinaryPrimOp('*', x.ir, x.ir), x.ir),
                      (x.ir, add(x.ir, x.ir))][v]
            return _join('i', ir.If(c.ir, th, el), c, x, y)
        if k == 'arr':
            a, b = P(op[1], 'i'), P(op[2], 'i')
            return _join('a', ir.MakeArray([a.ir, b.ir], hl.tarray(t64)), a, b)
        if k == 'len':
            a = P(op[1], 'a')
            return _join('i', ir.Cast(ir.ArrayLen(a.ir), t64), a)
        if k == 'smap':
            a, n, body = P(op[1], 'a'), nm(op[2]), P(op[3], 'i', pure)
            return _join('a', ir.ToArray(ir.StreamMap(ir.ToStream(a.ir), n, body.ir)), a, body, fe=a.fe | (body.fe - {n}))
        if k == 'sfilter':
            a, n, body = P(op[1], 'a'), nm(op[2]), P(op[3], 'b', pure)
            return _join('a', ir.ToArray(ir.StreamFilter(ir.ToStream(a.ir), n, body.ir)), a, body,
                         fe=a.fe | (body.fe - {n}))
        if k == 'sfold':
            a, z, n1, n2, body = P(op[1], 'a'), P(op[2], 'i'), nm(op[3]), nm(op[3] + 1 + op[4] % 2), P(op[5], 'i', pure)
            return _join('i', ir.StreamFold(ir.ToStream(a.ir), z.ir, n1, n2, body.ir), a, z, body,
                         fe=a.fe | z.fe | (body.fe - {n1, n2}))
        if k == 'let':
            n, v, body = nm(op[1]), P(op[2], 'i'), P(op[3], 'iabo')
            return _join(body.ty, ir.Let(n, v.ir, body.ir), v, body, fe=v.fe | (body.fe - {n}))
        if k == 'tup':
            es = [P(i, 'iabo') for i in op[1]]
            return _join('o', ir.MakeTuple([e.ir for e in es]), *es)
        scan = bool(op[-1]) if k in ('asum', 'acount', 'acollect', 'atake', 'afilter', 'aexplode', 'agroup', 'alet', 'aape',
                                     'ashare') else False
        App = ir.ApplyScanOp if scan else ir.ApplyAggOp

        def lifted(e):       # the eval-free names of an argument evaluated in the agg (scan) environment
            return dict(fa=e.fe, agg=True) if not scan else dict(fs=e.fe, scan=True)

        def has(e):
            return e.scan if scan else e.agg

        if k == 'asum':
            a = P(op[1], 'i', pure)
            return E(App('Sum', [], [a.ir]), 'i', **lifted(a))
        if k == 'acount':
            return E(App('Count', [], []), 'i', agg=not scan, scan=scan)
        if k == 'acollect':
            a = P(op[1], 'i', pure)
            return E(App('Collect', [], [a.ir]), 'a', **lifted(a))
        if k == 'atake':
            n, a = P(op[1], 'i', pure), P(op[2], 'i', pure)
            d = lifted(a)
            return E(App('Take', [ir.Cast(n.ir, hl.tint32)], [a.ir]), 'a', fe=n.fe, **d)
        if k == 'afilter':
            return self.w_filter(P(op[1], 'b', pure), P(op[2], 'iabo', has), scan)
        if k == 'aexplode':
            return self.w_explode(P(op[1], 'a', pure), nm(op[2]), P(op[3], 'iabo', has), scan)
        if k == 'agroup':
            return self.w_group(P(op[1], 'i', pure), P(op[2], 'iabo', has), scan)
        if k == 'alet':
            return self.w_let(nm(op[1]), P(op[2], 'i', pure), P(op[3], 'iabo', has), scan)
        if k == 'aape':
            return self.w_perelt(P(op[1], 'a', pure), nm(op[2]), P(op[3], 'iabo', has), scan)
        if k == 'ashare':
            return self.share(op, pool, scan)
        if k == 'sagg':
            a, n = P(op[1], 'a', pure), nm(op[2])
            q = P(op[3], 'iabo', lambda e: e.agg and not e.scan and not e.fs)
            if self.guard and q.fe:
                q = P(op[3], 'iabo', lambda e: e.agg and not e.scan and not e.fs and not e.fe)
                self.st['excluded_known'] += 1
            return E(ir.StreamAgg(ir.ToStream(a.ir), n, q.ir), q.ty, fe=a.fe | q.fe | (q.fa - {n}))
        if k == 'saggscan':
            a, n = P(op[1], 'a', pure), nm(op[2])
            ok = lambda e: e.scan and not e.agg and not e.fa      # noqa: E731
            q = P(op[3], 'i', ok)
            if self.guard and (q.fe - {n}):
                q = P(op[3], 'i', lambda e: ok(e) and not (e.fe - {n}))
                self.st['excluded_known'] += 1
            return E(ir.ToArray(ir.StreamAggScan(ir.ToStream(a.ir), n, q.ir)), 'a',
                     fe=a.fe | (q.fe - {n}) | (q.fs - {n}))
        if k == 'nest':
            return self.nest(op, pool)
        raise _Skip(f'unknown op {k}')

    def nest(self, op, pool):
        """['nest', inner_scan, outer_scan, a, name, y, m-variant, query-variant, outer-variant, literal]: a local aggregation
        X = StreamAgg (inner_scan 0) or a local scan X = fold(+) of a StreamAggScan (inner_scan 1) over an array, whose
        query uses ONE per-element node m (built from the element variable and the pure entry y) in several aggregation
        (scan) arguments / a filter condition / an explode array of that query, and X used in per-row position(s) -- argument
        or filter condition -- of an enclosing scan (outer_scan 1) or aggregation (0): an aggregation context entered inside
        a scan argument, a scan context entered inside an aggregation argument, and the two same-kind nestings.  The
        result is an ordinary pool entry (it can be shared / wrapped by later ops)."""
        ir, hl, t64 = self.ir, self.hl, self.t64
        _, iscan, oscan, ai, ni, yi, mvar, qvar, ovar, lit = op
        iscan, oscan = bool(iscan), bool(oscan)
        n, n2 = NAMES[ni % len(NAMES)], NAMES[(ni + 1) % len(NAMES)]

        def P(i, ty, make):
            c = [e for e in pool if e.ty in ty and e.pure]
            return c[-1 - (i % len(c))] if c else make()

        def bop(o, p, q):
            return _join('i', ir.ApplyBinaryPrimOp(o, p.ir, q.ir), p, q)

        def less(p, c):
            return _join('b', ir.ApplyComparisonOp('<', p.ir, ir.I64(int(c))), p)

        def app(scan, e):
            App = ir.ApplyScanOp if scan else ir.ApplyAggOp
            return E(App('Sum', [], [e.ir]), 'i', **(dict(fs=e.fe, scan=True) if scan else dict(fa=e.fe, agg=True)))

        y = P(yi, 'i', lambda: E(ir.I64(2), 'i'))
        a = P(ai, 'a', lambda: _join('a', ir.MakeArray([y.ir, ir.I64(3), y.ir], hl.tarray(t64)), y))
        v = E(ir.Ref(n, t64), 'i', fe={n})
        m = [lambda: bop('*', v, v), lambda: bop('*', v, y), lambda: bop('+', y, v),
             lambda: bop('+', bop('*', v, y), v)][mvar % 4]()
        qv = qvar % (6 if iscan else 5)
        if qv == 0:        # one per-element node in the arguments of two aggregators
            q = bop('+', app(iscan, m), app(iscan, m))
        elif qv == 1:      # ... and below another operation in the second argument
            q = bop('+', app(iscan, m), app(iscan, bop('+', m, E(ir.I64(1), 'i'))))
        elif qv == 2:      # filter condition and aggregated argument
            q = self.w_filter(less(m, lit), app(iscan, m), iscan)
        elif qv == 3:      # exploded array and the argument below the explode
            w = E(ir.Ref(n2, t64), 'i', fe={n2})
            q = self.w_explode(_join('a', ir.MakeArray([m.ir, m.ir], hl.tarray(t64)), m), n2, app(iscan, bop('+', m, w)), iscan)
        elif qv == 4:      # bare argument, filter condition and argument below the filter
            q = bop('+', app(iscan, m), self.w_filter(less(m, lit), app(iscan, m), iscan))
        else:              # local scan only: the element variable is bound in the eval scope of the query as well
            m = bop('*', v, v)
            q = bop('+', app(True, m), m)
        if iscan:
            st = ir.StreamAggScan(ir.ToStream(a.ir), n, q.ir)
            x = E(ir.StreamFold(st, ir.I64(0), 'x7', 'x8', ir.ApplyBinaryPrimOp('+', ir.Ref('x7', t64), ir.Ref('x8', t64))),
                  'i', fe=a.fe | (q.fe - {n}) | (q.fs - {n}))
        else:
            x = E(ir.StreamAgg(ir.ToStream(a.ir), n, q.ir), 'i', fe=a.fe | q.fe | (q.fa - {n}))
        ov = ovar % 4
        if ov == 0:
            out = app(oscan, x)
        elif ov == 1:
            out = app(oscan, bop('+', x, x))
        elif ov == 2:
            out = self.w_filter(less(x, lit + 3), app(oscan, x), oscan)
        else:
            out = bop('+', app(oscan, x), app(oscan, bop('*', x, x)))
        self.st['ir_nest'] = 1
        return out

    # ---- aggregation-context wrappers (row-set boundaries) with the free-name bookkeeping of their body
    @staticmethod
    def _ctx(e, scan, bound=frozenset(), extra=frozenset()):
        """bookkeeping of a context node around e: `bound` leaves e's agg (scan) names, `extra` (the eval names of an
        operand evaluated per row) joins them"""
        if scan:
            return dict(fe=e.fe, fa=e.fa, fs=(e.fs - bound) | extra, agg=e.agg, scan=True)
        return dict(fe=e.fe, fa=(e.fa - bound) | extra, fs=e.fs, agg=True, scan=e.scan)

    def w_filter(self, c, body, scan):
        return E(self.ir.AggFilter(c.ir, body.ir, scan), body.ty, **self._ctx(body, scan, extra=c.fe))

    def w_explode(self, a, n, body, scan):
        return E(self.ir.AggExplode(self.ir.ToStream(a.ir), n, body.ir, scan), body.ty, **self._ctx(body, scan, {n}, a.fe))

    def w_group(self, key, body, scan):
        return E(self.ir.AggGroupBy(key.ir, body.ir, scan), 'o', **self._ctx(body, scan, extra=key.fe))

    def w_let(self, n, v, body, scan):
        return E(self.ir.AggLet(n, v.ir, body.ir, scan), body.ty, **self._ctx(body, scan, {n}, v.fe))

    def w_perelt(self, a, n, body, scan):
        # the element name n joins the agg (scan) scope of the body.  The index name is never referenced: the engine binds
        # it in the eval AND the agg (scan) scope of the body, hail.ir only in the eval scope, so a generated reference to it
        # from a per-row expression would mean different things to the two (not a CSE matter; excluded by construction)
        return E(self.ir.AggArrayPerElement(a.ir, n, INDEX_NAME, body.ir, scan), 'a' if body.ty == 'i' else 'o',
                 **self._ctx(body, scan, {n}, a.fe))

    def share(self, op, pool, scan):
        """['ashare', x, chains, outer, combine, scan]: ONE aggregation entry X (an ApplyAggOp/ApplyScanOp or any entry
        containing one) is used once per chain, each use wrapped in its own chain of context nodes (filter / explode /
        group-by / per-element / agg-let; an empty chain is the bare use); the uses are combined (sum when all are
        integers and combine is 0, else a tuple) and `outer` wraps the combination (nested contexts)."""
        ir, t64 = self.ir, self.t64
        pure = lambda e: e.pure      # noqa: E731
        nm = lambda i: NAMES[i % len(NAMES)]      # noqa: E731

        def P(i, ty, pred, make):
            c = [e for e in pool if e.ty in ty and pred(e)]
            return c[-1 - (i % len(c))] if c else make()

        def rowidx():
            return E(ir.Cast(ir.GetField(self.row, 'idx'), t64), 'i', fe={'row'})

        def some_i(i):
            return P(i, 'i', pure, rowidx)

        def some_arr(i):
            def make():
                a, b = some_i(i), some_i(i + 1)
                return _join('a', ir.MakeArray([a.ir, b.ir], self.hl.tarray(t64)), a, b)
            return P(i, 'a', pure, make)

        def fresh_agg():
            a = some_i(op[1])
            App = ir.ApplyScanOp if scan else ir.ApplyAggOp
            return E(App('Sum', [], [a.ir]), 'i', **(dict(fs=a.fe, scan=True) if scan else dict(fa=a.fe, agg=True)))

        def wrap(w, body):
            kind = w[0]
            if kind == 'f':      # w[2] None: an existing condition entry (shared between filters); else `entry < literal`
                c = P(w[1], 'b', pure, lambda: None) if w[2] is None else None
                if c is None:
                    a = some_i(w[1])
                    c = _join('b', ir.ApplyComparisonOp('<', a.ir, ir.I64(int(w[2] or 0))), a)
                return self.w_filter(c, body, scan)
            if kind == 'e':
                return self.w_explode(some_arr(w[1]), nm(w[2]), body, scan)
            if kind == 'g':
                return self.w_group(some_i(w[1]), body, scan)
            if kind == 'p':
                return self.w_perelt(some_arr(w[1]), nm(w[2]), body, scan)
            return self.w_let(nm(w[2]), some_i(w[1]), body, scan)

        x = P(op[1], 'iabo', (lambda e: e.scan) if scan else (lambda e: e.agg), fresh_agg)
        uses = []
        for chain in op[2]:
            u = x
            for w in chain:
                u = wrap(w, u)
            uses.append(u)
        if not op[4] and all(u.ty == 'i' for u in uses):
            e = uses[0]
            for u in uses[1:]:
                e = _join('i', ir.ApplyBinaryPrimOp('+', e.ir, u.ir), e, u)
        else:
            e = _join('o', ir.MakeTuple([u.ir for u in uses]), *uses)
        for w in op[3]:
            e = wrap(w, e)
        return e

    def close(self, e, target):
        """wrap `e` so that the root is closed: returns (root BaseIR, root kind)"""
        ir, hl = self.ir, self.hl
        t64 = self.t64
        if e.scan:
            target = 'maprows'
        elif e.agg and target == 'maprows':
            target = 'aggregate'
        if e.agg and target == 'value':
            lit = ir.MakeArray([ir.I64(2), ir.I64(5)], hl.tarray(t64))
            e = E(ir.StreamAgg(ir.ToStream(lit), 'x9', e.ir), e.ty, fe=e.fe | (e.fa - {'x9'}))
        x = e.ir
        rowidx = lambda: ir.Cast(ir.GetField(self.row, 'idx'), t64)      # noqa: E731
        rowlit = lambda: ir.MakeStruct([('idx', ir.I32(3))])              # noqa: E731
        keep_e = {'maprows': {'row'}}.get(target, set())
        for n in sorted(e.fa - {'row'}):
            x = ir.AggLet(n, rowidx(), x, False)
        for n in sorted(e.fs - {'row'}):
            x = ir.AggLet(n, rowidx(), x, True)
        for j, n in enumerate(sorted(e.fe - keep_e)):
            x = ir.Let(n, rowlit() if n == 'row' else ir.I64(3 + j), x)
        if target == 'aggregate':
            return ir.TableAggregate(self.table, x), target
        if target == 'maprows':
            if e.agg or e.fa:
                raise _Skip('agg in row expression')
            return ir.TableMapRows(self.table, ir.MakeStruct([('idx', ir.GetField(self.row, 'idx')), ('z', x)])), target
        if e.fa or e.fs or e.agg or e.scan:
            raise _Skip('open aggregation at a value root')
        return x, target


def build_ir(case, guard):
    b = IrBuilder(guard)
    ir = b.ir
    pool = [E(ir.I64(1), 'i')]
    ops, roots = case.get('ops', []), case.get('roots', [0])
    if case.get('tail'):      # a final op (a sharing shape) that is always the first output
        ops, roots = list(ops) + [case['tail']], [0] + list(roots)
    b.run(ops, pool)
    picks = [pool[-1 - (r % len(pool))] for r in roots] or [pool[-1]]
    try:
        e = picks[0] if len(picks) == 1 else _join('o', ir.MakeTuple([p.ir for p in picks]), *picks)
    except _Skip:
        e = picks[0]
    try:
        root, kind = b.close(e, case.get('target', 'aggregate'))
    except _Skip:
        b.st['skipped'] += 1
        root, kind = b.close(pool[0], 'value')
    b.st['root_' + kind] = 1
    return root, b.st


def build(case, guard=False):
    return build_api(case, guard) if case.get('mode') == 'api' else build_ir(case, guard)


# =================================================================================================================
# reference interpreter
# =================================================================================================================

class Unbound(Exception):
    pass


class EvalGap(Exception):
    pass


_M = 1 << 64


def _wrap(x):
    if isinstance(x, bool) or not isinstance(x, int):
        return x
    return ((x + (1 << 63)) % _M) - (1 << 63)


def canon(v):
    if isinstance(v, float):
        return 'nan' if v != v else repr(v)
    if isinstance(v, list):
        return ['L'] + [canon(x) for x in v]
    if isinstance(v, dict):
        return ['S'] + [[k, canon(x)] for k, x in v.items()]
    if isinstance(v, tuple):
        return ['T'] + [canon(x) for x in v]
    if isinstance(v, bool):
        return ['B', v]
    return v


def _hashval(tag, args, rtype):
    h = zlib.crc32(repr((tag, [canon(a) for a in args])).encode())
    rtype = str(rtype)
    if rtype in ('Int32', 'Int64'):
        return h % 17 - 5
    if rtype in ('Float64', 'Float32'):
        return (h % 23) / 4.0
    if rtype == 'Boolean':
        return bool(h & 1)
    if rtype == 'String':
        return 's%d' % (h % 7)
    if rtype.startswith('Array['):
        return [_hashval(tag + '/e', args, rtype[6:-1])]
    return ('opaque', h % 1000)


def _cmp_key(v):
    c = canon(v)
    return (0, c) if isinstance(c, (int, float)) and not isinstance(c, bool) else (1, repr(c))


def _binop(op, a, b):
    if a is None or b is None:
        return None
    try:
        if op == '+':
            return _wrap(a + b)
        if op == '-':
            return _wrap(a - b)
        if op == '*':
            return _wrap(a * b)
        if op == '/':
            return float(a) / float(b)
        if op == '//':
            if isinstance(a, int) and isinstance(b, int):
                return None if b == 0 else _wrap(a // b)
            return float(math.floor(a / b))
        if op == '%':
            if isinstance(a, int) and isinstance(b, int):
                return None if b == 0 else a % b
            return math.fmod(a, b)
    except ZeroDivisionError:
        return float('nan')
    except (OverflowError, ValueError):
        return float('nan')
    raise EvalGap(f'binop {op}')


def _compare(op, a, b):
    if op in ('EQWithNA', 'NEQWithNA'):
        r = canon(a) == canon(b)
        return r if op == 'EQWithNA' else not r
    if a is None or b is None:
        return None
    if op == '==':
        return canon(a) == canon(b)
    if op == '!=':
        return canon(a) != canon(b)
    num = lambda x: isinstance(x, (int, float)) and not isinstance(x, bool)    # noqa: E731
    if not (num(a) and num(b)):
        a, b = _cmp_key(a), _cmp_key(b)
    if op == '<':
        return a < b
    if op == '<=':
        return a <= b
    if op == '>':
        return a > b
    if op == '>=':
        return a >= b
    if op == 'Compare':
        return (a > b) - (a < b)
    raise EvalGap(f'comparison {op}')


def _apply_fn(fn, args, rtype):
    if fn in ('land', 'lor'):
        a, b = args
        if fn == 'land':
            return False if (a is False or b is False) else (None if (a is None or b is None) else True)
        return True if (a is True or b is True) else (None if (a is None or b is None) else False)
    if any(a is None for a in args):
        return None
    if fn in ('toInt64', 'toInt32'):
        a = args[0]
        if isinstance(a, float):
            return None if (a != a or a in (float('inf'), float('-inf'))) else _wrap(int(a))
        return int(a)
    if fn in ('toFloat64', 'toFloat32'):
        return float(args[0])
    if fn == 'concat' and all(isinstance(a, str) for a in args):
        return args[0] + args[1]
    if fn == 'sum':
        tot = 0.0 if str(rtype).startswith('Float') else 0
        for x in args[0]:
            if x is not None:
                tot = _wrap(tot + x)
        return tot
    return _hashval(fn, args, rtype)


def _agg_op(op, init, cols, nrows, rtype_hint):
    first = cols[0] if cols else []
    if op == 'Sum':
        tot = 0
        for x in first:
            if x is not None:
                tot = _wrap(tot + x)
        return tot
    if op == 'Count':
        return nrows
    if op == 'Collect':
        return list(first)
    if op == 'Take':
        n = init[0]
        return None if n is None else list(first)[:max(0, n)]
    return _hashval('agg:' + op, [init, cols], rtype_hint)


EVAL_BUDGET = 40_000       # node visits per evaluation of one text under one environment (99% of cases need < 10k)
_STEPS = [0]


def ev(n: Node, env, rows):
    """value of node n; env: eval environment; rows: None or (agg rows, scan rows), each a list of per-row environments or
    None when there is no such context"""
    _STEPS[0] += 1
    if _STEPS[0] > EVAL_BUDGET:      # nested loops over growing arrays: the comparison is given up (class eval_gap:budget)
        raise EvalGap('budget')
    k, c, h = n.kind, n.children, n.head
    if k in ('I32', 'I64'):
        return int(h[0])
    if k in ('F32', 'F64'):
        return float(h[0])
    if k == 'Str':
        return str(h[0])
    if k == 'True':
        return True
    if k == 'False':
        return False
    if k in ('NA', 'Void'):
        return None
    if k == 'Ref':
        nm = str(h[0])
        if nm not in env:
            raise Unbound(nm)
        return env[nm]
    if k == 'Let':
        v = ev(c[0], env, rows)
        e2 = dict(env)
        e2[str(h[1])] = v
        return ev(c[1], e2, rows)
    if k == 'If':
        cv = ev(c[0], env, rows)
        if cv is None:
            return None
        return ev(c[1], env, rows) if cv else ev(c[2], env, rows)
    if k == 'IsNA':
        return ev(c[0], env, rows) is None
    if k == 'Coalesce':
        for x in c:
            v = ev(x, env, rows)
            if v is not None:
                return v
        return None
    if k == 'Cast':
        v = ev(c[0], env, rows)
        if v is None:
            return None
        t = str(h[0])
        if t.startswith('Int'):
            if isinstance(v, float):
                return None if (v != v or abs(v) == float('inf')) else _wrap(int(v))
            return int(v)
        return float(v)
    if k == 'ApplyBinaryPrimOp':
        return _binop(str(h[0]), ev(c[0], env, rows), ev(c[1], env, rows))
    if k == 'ApplyUnaryPrimOp':
        v = ev(c[0], env, rows)
        if v is None:
            return None
        op = str(h[0])
        if op == '!':
            return not v
        if op == '-':
            return _wrap(-v)
        raise EvalGap(f'unop {op}')
    if k == 'ApplyComparisonOp':
        return _compare(str(h[0]), ev(c[0], env, rows), ev(c[1], env, rows))
    if k == 'MakeArray':
        return [ev(x, env, rows) for x in c]
    if k == 'ArrayRef':
        a, i = ev(c[0], env, rows), ev(c[1], env, rows)
        if a is None or i is None or not (0 <= i < len(a)):
            return None
        return a[i]
    if k == 'ArrayLen':
        a = ev(c[0], env, rows)
        return None if a is None else len(a)
    if k in ('ToArray', 'ToStream', 'CastToArray'):
        return ev(c[0], env, rows)
    if k == 'StreamRange':
        a, b, s = (ev(x, env, rows) for x in c)
        if a is None or b is None or s is None or s == 0:
            return None
        return list(range(a, b, s))[:64]
    if k in ('StreamMap', 'StreamFilter', 'StreamFlatMap'):
        a = ev(c[0], env, rows)
        if a is None:
            return None
        nm = str(h[0])
        out = []
        for x in a:
            e2 = dict(env)
            e2[nm] = x
            v = ev(c[1], e2, rows)
            if k == 'StreamMap':
                out.append(v)
            elif k == 'StreamFilter':
                if v is True:
                    out.append(x)
            elif v is not None:
                out.extend(v)
        return out
    if k == 'StreamFold':
        a = ev(c[0], env, rows)
        acc = ev(c[1], env, rows)
        if a is None:
            return None
        for x in a:
            e2 = dict(env)
            e2[str(h[0])] = acc
            e2[str(h[1])] = x
            acc = ev(c[2], e2, rows)
        return acc
    if k == 'MakeStruct':
        return {lab: ev(x, env, rows) for lab, x in zip(n.labels, c)}
    if k == 'InsertFields':
        old = ev(c[0], env, rows)
        new = {lab: ev(x, env, rows) for lab, x in zip(n.labels[1:], c[1:])}
        if old is None:
            return None
        if not isinstance(old, dict):
            # the interpreter is total: a non-struct operand (possible under the arbitrary environments) still yields a
            # deterministic value, which is all the CSE-vs-plain comparison needs
            return ('insert-into-non-struct', repr(old), tuple(sorted((kk, repr(vv)) for kk, vv in new.items())))
        d = dict(old)
        d.update(new)
        if isinstance(h[0], list):
            d = {str(f): d[str(f)] for f in h[0]}
        return d
    if k == 'SelectFields':
        v = ev(c[0], env, rows)
        if v is not None and not isinstance(v, dict):
            return ('select-from-non-struct', repr(v))
        return None if v is None else {str(f): v.get(str(f)) for f in h[0]}
    if k == 'GetField':
        v = ev(c[0], env, rows)
        if v is not None and not isinstance(v, dict):
            return ('field-of-non-struct', repr(v), str(h[0]))
        return None if v is None else v.get(str(h[0]))
    if k == 'MakeTuple':
        return tuple(ev(x, env, rows) for x in c)
    if k == 'GetTupleElement':
        v = ev(c[0], env, rows)
        return None if v is None else v[int(h[0])]
    if k == 'Apply':
        return _apply_fn(str(h[1]), [ev(x, env, rows) for x in c], h[3])
    if k == 'RNGStateLiteral':
        return ('rng',)
    # ---- aggregations and scans over explicit row lists; rows = (agg rows, scan rows), either may be None
    A, S = rows if rows is not None else (None, None)
    if k == 'StreamAgg':
        a = ev(c[0], env, rows)
        if a is None:
            return None
        nm = str(h[0])
        rs = []
        for x in a:
            r = dict(env)
            r[nm] = x
            rs.append(r)
        return ev(c[1], env, (rs, S))
    if k == 'StreamAggScan':      # element j sees the elements before it as its scan rows
        a = ev(c[0], env, rows)
        if a is None:
            return None
        nm = str(h[0])
        rs, out = [], []
        for x in a:
            r = dict(env)
            r[nm] = x
            out.append(ev(c[1], r, (A, list(rs))))
            rs.append(r)
        return out
    if k in ('TableAggregate', 'TableMapRows'):
        nrow = int(c[0].head[0]) if c[0].kind == 'TableRange' else None
        if nrow is None:
            raise EvalGap(k + ' child')
        rs = [{'global': {}, 'row': {'idx': i}} for i in range(nrow)]
        if k == 'TableAggregate':
            return ev(c[1], {'global': {}}, (rs, None))
        return [ev(c[1], rs[i], (None, rs[:i])) for i in range(nrow)]      # row i scans the rows before it
    if k in ('ApplyAggOp', 'ApplyScanOp'):
        rws = A if k == 'ApplyAggOp' else S
        if rws is None:
            raise Unbound('<agg context>' if k == 'ApplyAggOp' else '<scan context>')
        ni = n.extra
        init = [ev(x, env, None) for x in c[:ni]]
        cols = [[ev(x, r, None) for r in rws] for x in c[ni:]]
        return _agg_op(str(h[0]), init, cols, len(rws), 'Int64')
    if k in ('AggFilter', 'AggExplode', 'AggGroupBy', 'AggLet', 'AggArrayPerElement'):
        scan = str(h[{'AggArrayPerElement': 2}.get(k, -1)]) == 'True'
        rws = S if scan else A
        if rws is None:
            raise Unbound('<scan context>' if scan else '<agg context>')
        sub = (lambda rs: (A, rs)) if scan else (lambda rs: (rs, S))      # the narrowed / re-bound row set of the body
        if k == 'AggFilter':
            return ev(c[1], env, sub([r for r in rws if ev(c[0], r, None) is True]))
        if k == 'AggLet':
            rs = []
            for r in rws:
                r2 = dict(r)
                r2[str(h[0])] = ev(c[0], r, None)
                rs.append(r2)
            return ev(c[1], env, sub(rs))
        if k == 'AggExplode':
            rs = []
            for r in rws:
                for x in (ev(c[0], r, None) or []):
                    r2 = dict(r)
                    r2[str(h[0])] = x
                    rs.append(r2)
            return ev(c[1], env, sub(rs))
        if k == 'AggArrayPerElement':      # result j aggregates, over the rows whose array has an element j, with it bound
            arrs = [(r, ev(c[0], r, None)) for r in rws]
            arrs = [(r, a) for r, a in arrs if isinstance(a, list)]
            out = []
            for j in range(max([len(a) for _, a in arrs] or [0])):
                rs = []
                for r, a in arrs:
                    if j < len(a):
                        r2 = dict(r)
                        r2[str(h[0])] = a[j]
                        r2[str(h[1])] = j
                        rs.append(r2)
                e2 = dict(env)
                e2[str(h[1])] = j
                out.append(ev(c[1], e2, sub(rs)))
            return out
        groups = {}
        for r in rws:
            kv = ev(c[0], r, None)
            groups.setdefault(repr(canon(kv)), (kv, []))[1].append(r)
        return [(kv, ev(c[1], env, sub(rs))) for _, (kv, rs) in sorted(groups.items())]
    raise EvalGap(k)


def env_value(t, v):
    """JSON seed v -> value of free-variable type tag t"""
    if v is None:
        return None
    if t in ('i32', 'i64'):
        return int(v)
    if t == 'f64':
        return float('nan') if v == 7 else float('inf') if v == -7 else v / 2.0
    if t == 'bool':
        return bool(v % 2)
    if t == 'str':
        return STRS[v % len(STRS)]
    if t == 'ai32':
        return [None if (v + j) % 5 == 0 else v + j for j in range(abs(v) % 4)]
    if t == 'af64':
        return [(v + j) / 2.0 for j in range(abs(v) % 3)]
    if t == 'st':
        return {'a': int(v), 'b': v / 4.0}
    raise ValueError(t)


# =================================================================================================================
# scope / substitution checks on the CSE tree
# =================================================================================================================

AGG_CONTEXT_KINDS = {'StreamAgg', 'StreamAggScan', 'ApplyAggOp', 'ApplyScanOp', 'AggFilter', 'AggExplode', 'AggGroupBy',
                     'AggArrayPerElement', 'AggLet', 'TableAggregate', 'TableMapRows'}
# nodes whose child 1 aggregates over a different row set than the node itself (value: index of the is-scan head item)
ROWSET_KINDS = {'AggFilter': 0, 'AggGroupBy': 0, 'AggExplode': 1, 'AggArrayPerElement': 2}


def _val(node, i, name):
    return (id(node), i, name, node.kind)


def _switches(node, i):
    """'agg' / 'scan' when child i of node is evaluated in the promoted agg / scan environment"""
    k = node.kind
    if k == 'AggLet' and i == 0:
        return 'scan' if str(node.head[1]) == 'True' else 'agg'
    if k in ('AggFilter', 'AggGroupBy') and i == 0:
        return 'scan' if str(node.head[0]) == 'True' else 'agg'
    if k == 'AggExplode' and i == 0:
        return 'scan' if str(node.head[1]) == 'True' else 'agg'
    if k == 'AggArrayPerElement' and i == 0:
        return 'scan' if str(node.head[2]) == 'True' else 'agg'
    if k == 'ApplyAggOp' and i >= node.extra:
        return 'agg'
    if k == 'ApplyScanOp' and i >= node.extra:
        return 'scan'
    return None


def _new_block(node, i):
    """children that start a new let-insertion block for the renderer (diagnostic only: names the block in a signature)"""
    k = node.kind
    if k == 'If':
        return i in (1, 2)
    if k in ('StreamAgg', 'StreamAggScan', 'TableAggregate', 'MatrixAggregate'):
        return i == 1
    if k in ('ApplyAggOp', 'ApplyScanOp'):
        return i < node.extra
    return irtools.is_new_scope_root(k)


def _via(value, env):
    """kind of the innermost agg/scan-context node on the path from `value` to its first unbound Ref ('-' if none)"""
    found = []

    def go(n, e, ctx):
        if found:
            return
        if n.kind == 'Ref':
            if e.e.get(str(n.head[0])) is None:
                found.append(ctx)
            return
        for i, ch in enumerate(n.children):
            try:
                ce = irtools.child_env(n, i, e, _val)
            except irtools.ScopeError:
                found.append(n.kind)
                return
            go(ch, ce, n.kind if n.kind in AGG_CONTEXT_KINDS else ctx)
    go(value, env, '-')
    return found[0] if found else '-'


def _via_name(root, name):
    """kind of the innermost agg/scan-context node above the first (Ref name) in `root` ('-' if none)"""
    def go(n, ctx):
        if n.kind == 'Ref':
            return ctx if str(n.head[0]) == name else None
        for ch in n.children:
            r = go(ch, n.kind if n.kind in AGG_CONTEXT_KINDS else ctx)
            if r is not None:
                return r
        return None
    return go(root, '-') or '?'


def _aggregates(value, letctx):
    """(uses the enclosing agg context, uses the enclosing scan context): an ApplyAggOp / ApplyScanOp, a non-scan / scan
    context node, or a reference to an inserted let that does, occurs in `value` outside the query of a StreamAgg /
    StreamAggScan (which has its own context)"""
    res = [False, False]

    def go(n, a_ok, s_ok):
        k = n.kind
        if k == 'Ref':
            inner = letctx.get(str(n.head[0]))
            if inner:
                res[0] = res[0] or (inner[0] and a_ok)
                res[1] = res[1] or (inner[1] and s_ok)
        elif k == 'ApplyAggOp' and a_ok:
            res[0] = True
        elif k == 'ApplyScanOp' and s_ok:
            res[1] = True
        elif k in ROWSET_KINDS:
            scan = str(n.head[ROWSET_KINDS[k]]) == 'True'
            if scan and s_ok:
                res[1] = True
            elif not scan and a_ok:
                res[0] = True
        if res[0] and res[1] or irtools.is_new_scope_root(k) or k in ('TableAggregate', 'MatrixAggregate'):
            return
        for i, ch in enumerate(n.children):
            if k == 'StreamAgg' and i == 1:
                go(ch, False, s_ok)
            elif k == 'StreamAggScan' and i == 1:
                go(ch, a_ok, False)
            else:
                go(ch, a_ok, s_ok)
    go(value, True, True)
    return tuple(res)


def _chain_diff(c1, c2):
    """the context nodes two chains do not share: (kinds only in c1, kinds only in c2, kinds of the common prefix)"""
    p = 0
    while p < len(c1) and p < len(c2) and c1[p] == c2[p]:
        p += 1
    return [x[1] for x in c1[p:]], [x[1] for x in c2[p:]], [x[1] for x in c1[:p]]


class ScopeReport:
    def __init__(self):
        self.fails = []          # (signature, clause, message)
        self.lets = 0
        self.lets_lambda = 0     # value depends on a Stream* lambda variable
        self.lets_userlet = 0    # value depends on a user Let (hl.bind) variable
        self.lets_agglet = 0     # inserted AggLet (agg)
        self.lets_scanlet = 0
        self.lets_in_agg = 0     # inserted eval Let placed inside an agg/scan scope, or whose value aggregates
        self.lets_nested = 0     # inserted AggLet placed inside a per-row position of an enclosing aggregation / scan
        self.refs = 0

    def fail(self, sig, clause, msg):
        if not any(f[0] == sig for f in self.fails):
            self.fails.append((sig, clause, msg))


CL_SCOPE = 'every Ref in the CSE text resolves to a binder in the same eval/agg/scan scope'
CL_TWICE = 'no inserted let name is bound twice on one path'
CL_LETFV = 'every inserted let value has all its variables bound at the insertion point'
CL_SAME = 'in-lining an inserted let at each use resolves every variable to the same binder'
CL_AGGCTX = ('every inserted let whose value aggregates (scans) is bound under exactly the chain of row-set context nodes '
             '(AggFilter / AggExplode / AggGroupBy / AggArrayPerElement) of each of its uses')
CL_FLAG = ('the is_scan flag of every inserted AggLet equals the kind (aggregation / scan) of the per-row position through '
           'which each of its uses is reached')
CL_SUBST = 'erasing the inserted lets by substitution yields the plain rendering'
CL_EVAL = 'the CSE rendering and the plain rendering evaluate to the same value'
CL_RENDER = 'the renderer produces a text for every well-scoped DAG'


def _bad(R):
    return any(r is None or (isinstance(r, tuple) and r and r[0] == 'scope-error') for r in R)


def scope_check(root: Node, top: Env) -> ScopeReport:
    rep = ScopeReport()
    lets = {}

    def is_cse(name):
        return name.startswith(CSE_PREFIX)

    def classify(name, R1, in_ctx, value, scope):
        rep.lets += 1
        kinds = {b[3] for b in R1 if isinstance(b, tuple) and len(b) == 4}
        if kinds & irtools.LAMBDA_KINDS:
            rep.lets_lambda += 1
        if 'Let' in kinds:
            rep.lets_userlet += 1
        if scope == 'agg':
            rep.lets_agglet += 1
        elif scope == 'scan':
            rep.lets_scanlet += 1
        elif in_ctx or (irtools.kinds_of(value).keys() & {'ApplyAggOp', 'ApplyScanOp', 'AggFilter', 'AggExplode',
                                                           'AggGroupBy', 'AggArrayPerElement'}):
            rep.lets_in_agg += 1

    bound_anywhere = set()

    def collect(n):
        if n.kind == 'Let':
            bound_anywhere.add(str(n.head[1]))
        elif n.kind == 'AggLet':
            bound_anywhere.add(str(n.head[0]))
        for ch in n.children:
            collect(ch)
    collect(root)

    letctx = {}      # inserted eval let -> (aggregates, scans, agg chain, scan chain) at its insertion point

    def walk(n, env, path, in_ctx, quiet=False, block='-', chains=((), ())):
        k = n.kind
        if k == 'Ref':
            rep.refs += 1
            name = str(n.head[0])
            b = env.e.get(name)
            if b is None:
                if quiet:        # inside a let value already reported as unbound
                    return
                where = 'agg' if in_ctx == 'agg' else 'scan' if in_ctx == 'scan' else 'eval'
                if is_cse(name):
                    kind = 'cse:' + ('let-elsewhere' if name in bound_anywhere else 'no-let') + f':block={block}'
                else:
                    kind = 'var'
                rep.fail(f'unbound-ref:{where}:{kind}', CL_SCOPE,
                         f'(Ref {name}) has no binder in its {where} environment (bound names: {sorted(env.e)})')
                return
            if is_cse(name) and name in letctx:
                for which, word in ((0, 'agg'), (1, 'scan')):
                    if letctx[name][which] and letctx[name][2 + which] != chains[which]:
                        only_let, only_use, _ = _chain_diff(letctx[name][2 + which], chains[which])
                        via = (only_use or only_let)[0]
                        rep.fail(f'lifted-across-{word}-context:via={via}', CL_AGGCTX,
                                 f'the value of inserted Let {name} {"aggregates" if which == 0 else "scans"} and is bound '
                                 f'under the context chain {[x[1] for x in letctx[name][2 + which]]} but used under '
                                 f'{[x[1] for x in chains[which]]}: the use reads the result over a different row set')
            if is_cse(name) and name in lets:
                value, R1 = lets[name]
                R2 = irtools.resolve_refs(value, env, [], _val)
                if R1 != R2 and not _bad(R1):
                    diff = next(((a, b2) for a, b2 in zip(R1, R2) if a != b2), None)
                    rep.fail('inline-resolves-differently', CL_SAME,
                             f'value of {name} refers to binder {diff[0] if diff else None} at the let but to '
                             f'{diff[1] if diff else None} at a use site')
            return
        cse_let = None
        if k == 'Let' and is_cse(str(n.head[1])):
            cse_let = (str(n.head[1]), 'eval')
        elif k == 'AggLet' and is_cse(str(n.head[0])):
            cse_let = (str(n.head[0]), 'scan' if str(n.head[1]) == 'True' else 'agg')
        for i, ch in enumerate(n.children):
            try:
                ce = irtools.child_env(n, i, env, _val)
            except irtools.ScopeError as ex:
                rep.fail(f'no-context:{k}', CL_SCOPE, f'{k} child {i}: {ex}')
                continue
            sw = _switches(n, i)
            cctx = sw or in_ctx
            if irtools.is_new_scope_root(k) or k in ('TableAggregate', 'MatrixAggregate'):
                cctx = None
            cpath = path
            cquiet = quiet
            if cse_let and i == 0:
                name, scope = cse_let
                if name in path:
                    rep.fail('cse-bound-twice', CL_TWICE, f'{name} is bound twice on one path')
                R1 = irtools.resolve_refs(ch, ce, [], _val)
                if _bad(R1):
                    cquiet = True
                    via = _via(ch, ce)
                    rep.fail(f'let-value-unbound:via={via}', CL_LETFV,
                             f'the value of inserted {"AggLet" if scope != "eval" else "Let"} {name} (a {ch.kind}) uses a '
                             f'variable that is not bound where the let was inserted')
                lets[name] = (ch, R1)
                classify(name, R1, in_ctx, ch, scope)
                if scope == 'eval':
                    letctx[name] = _aggregates(ch, letctx) + chains
            if cse_let and i == 1:
                cpath = path | {cse_let[0]}
            cch = chains
            if k in ROWSET_KINDS and i == 1:
                link = ((id(n), k),)
                cch = (chains[0], chains[1] + link) if str(n.head[ROWSET_KINDS[k]]) == 'True' else (chains[0] + link, chains[1])
            elif k == 'StreamAgg' and i == 1:
                cch = (((id(n), k),), chains[1])
            elif k == 'StreamAggScan' and i == 1:
                cch = (chains[0], ((id(n), k),))
            elif irtools.is_new_scope_root(k) or k in ('TableAggregate', 'MatrixAggregate'):
                cch = (((id(n), k),), ((id(n), k),))
            walk(ch, ce, cpath, cctx, cquiet, k if _new_block(n, i) else block, cch)

    walk(root, top, frozenset(), None)
    return rep


def flag_check(root: Node, rep: ScopeReport):
    """An inserted (AggLet name is_scan v body) binds `name` in the scan (is_scan True) or the aggregation environment of
    `body`; a use sees it only through a per-row position of the same kind: the argument of an ApplyScanOp resp.
    ApplyAggOp, the condition / array / key / value of a context node with the same flag.  So for every use the FIRST
    per-row position entered on the way down from the AggLet must be of the AggLet's kind -- whatever contexts enclose
    the AggLet itself (an aggregation entered inside a scan argument must bind with is_scan False, and vice versa).
    Purely structural (no environments), so it also speaks when the mis-flagged let has no environment to bind into."""
    def go(n, first, nest):
        k = n.kind
        if k == 'Ref':
            got = first.get(str(n.head[0]))
            if got and got[1] is not None and got[1] != got[0]:
                outer = ('-in-' + nest[-2]) if len(nest) >= 2 else ''
                rep.fail(f'agglet-flag:let={got[0]}:use={got[1]}{outer}', CL_FLAG,
                         f'inserted (AggLet {n.head[0]} {got[0] == "scan"} ...) binds in the {got[0]} environment but the name is '
                         f'used in {"a scan" if got[1] == "scan" else "an aggregation"} argument (per-row positions entered '
                         f'from the root: {list(nest)})')
            return
        name = None
        if k == 'AggLet' and str(n.head[0]).startswith(CSE_PREFIX):
            name = str(n.head[0])
            if nest:
                rep.lets_nested += 1
        root_like = irtools.is_new_scope_root(k) or k in ('TableAggregate', 'MatrixAggregate')
        for i, ch in enumerate(n.children):
            f2, n2 = first, nest
            sw = _switches(n, i)
            if sw:
                n2 = nest + (sw,)
                if any(v[1] is None for v in first.values()):
                    f2 = {nm: (v if v[1] is not None else (v[0], sw)) for nm, v in first.items()}
            elif root_like:
                f2, n2 = {}, ()
            if name and i == 1:
                f2 = dict(f2)
                f2[name] = ('scan' if str(n.head[1]) == 'True' else 'agg', None)
            go(ch, f2, n2)
    go(root, {}, ())


_PRIORITY = ['agglet-flag', 'let-value-unbound', 'unbound-ref', 'no-context', 'cse-bound-twice', 'lifted-across-agg-context',
             'lifted-across-scan-context', 'inline-resolves-differently']


def _primary(fails):
    """one defect, one category: keep the failures of the most upstream category only"""
    for cat in _PRIORITY:
        sel = [f for f in fails if f[0].startswith(cat)]
        if sel:
            return sel
    return list(fails)


def erase(n: Node, sub):
    k = n.kind
    if k == 'Ref':
        return sub.get(str(n.head[0]), n)
    if k == 'Let' and str(n.head[1]).startswith(CSE_PREFIX):
        v = erase(n.children[0], sub)
        s2 = dict(sub)
        s2[str(n.head[1])] = v
        return erase(n.children[1], s2)
    if k == 'AggLet' and str(n.head[0]).startswith(CSE_PREFIX):
        v = erase(n.children[0], sub)
        s2 = dict(sub)
        s2[str(n.head[0])] = v
        return erase(n.children[1], s2)
    return Node(k, n.head, [erase(c, sub) for c in n.children], n.labels, n.extra)


def first_diff(a: Node, b: Node, path=''):
    if a.kind != b.kind or irtools._freeze(a.head) != irtools._freeze(b.head) or a.labels != b.labels or \
            len(a.children) != len(b.children):
        return f'at {path or "/"}: {a!r} vs {b!r}'
    for i, (x, y) in enumerate(zip(a.children, b.children)):
        d = first_diff(x, y, f'{path}/{a.kind}.{i}')
        if d:
            return d
    return None


# =================================================================================================================
# the check
# =================================================================================================================

def site_reused(root):
    """'block' (a) / 'binder' (b) when some node *object* occurs at one depth in two positions that differ as let-insertion
    sites, else None.  The renderer records insertion sites by (id(node), depth), so the two occurrences are confused
    (known finding 'site-reused'):
      (a) once as the root of a let-insertion block (If branch, agg init argument, StreamAgg query, relational child) and
          once in an ordinary position;
      (b) once as the child for which its parent binds names (a lambda / let body; the aggregation of an AggFilter /
          AggExplode / AggArrayPerElement / StreamAgg, which bind the aggregation capability) and once in a position that
          binds a different set of names (or none), while the node has a descendant that is reached twice inside it and
          uses one of those names (only then can lets be inserted at the node)."""
    from hail.ir.base_ir import BaseIR
    occ = {}
    nodes = {}

    def go(n, depth, pos):
        occ.setdefault(id(n), {}).setdefault(depth, set()).add(pos)
        nodes[id(n)] = n
        for i, c in enumerate(n.children):
            if isinstance(c, BaseIR):
                go(c, depth + 1, (bool(n.new_block(i)), frozenset(n.bindings(i, 0)), frozenset(n.agg_bindings(i, 0)),
                                  frozenset(n.scan_bindings(i, 0))))
    go(root, 0, (False, frozenset(), frozenset(), frozenset()))

    def shared_inside(n):      # non-Ref descendants of n reached twice inside n
        seen, twice = set(), {}

        def walk(m):
            for c in m.children:
                if isinstance(c, BaseIR):
                    if id(c) in seen:
                        if not isinstance(c, _env()[1].Ref):
                            twice[id(c)] = c
                        continue
                    seen.add(id(c))
                    walk(c)
        walk(n)
        return list(twice.values())

    found = None
    for nid, by_depth in occ.items():
        for poss in by_depth.values():
            if len(poss) < 2:
                continue
            if len({p[0] for p in poss}) == 2:
                return 'block'
            names = [p[1:] for p in poss if any(p[1:])]
            if names and not found:      # a let can be inserted at the node only for a shared descendant using a name bound for it
                for d in shared_inside(nodes[nid]):
                    if any((e & set(d.free_vars)) or (a & set(d.free_agg_vars)) or (sc & set(d.free_scan_vars))
                           for e, a, sc in names):
                        found = 'binder'
                        break
    return found


def agg_share_classes(root):
    """class labels of a DAG in which one ApplyAggOp / ApplyScanOp *object* is reached under two different chains of
    row-set context nodes (AggFilter / AggExplode / AggGroupBy / AggArrayPerElement below one aggregation root)"""
    from hail.ir.base_ir import BaseIR
    ir = _env()[1]
    kinds = {ir.AggFilter: 'filter', ir.AggExplode: 'explode', ir.AggGroupBy: 'groupby', ir.AggArrayPerElement: 'array_agg'}
    occ, seen = {}, set()

    def go(n, ach, sch):
        if (id(n), ach, sch) in seen:
            return
        seen.add((id(n), ach, sch))
        if isinstance(n, ir.ApplyAggOp):
            occ.setdefault(id(n), ('agg', set()))[1].add(ach)
        elif isinstance(n, ir.ApplyScanOp):
            occ.setdefault(id(n), ('scan', set()))[1].add(sch)
        t = kinds.get(type(n))
        for i, c in enumerate(n.children):
            if not isinstance(c, BaseIR):
                continue
            a2, s2 = ach, sch
            if t and i == 1:
                a2, s2 = (ach, sch + ((id(n), t),)) if n.is_scan else (ach + ((id(n), t),), sch)
            elif isinstance(n, ir.StreamAgg) and i == 1:
                a2 = ((id(n), 'root'),)
            elif isinstance(n, ir.StreamAggScan) and i == 1:
                s2 = ((id(n), 'root'),)
            elif not isinstance(n, ir.IR) or isinstance(n, (ir.TableAggregate, ir.MatrixAggregate)):
                a2 = s2 = ((id(n), 'root'),)
            go(c, a2, s2)
    go(root, (), ())
    labels = set()
    for word, chains in occ.values():
        chains = sorted(chains)[:6]
        for x in range(len(chains)):
            for y in range(x + 1, len(chains)):
                only1, only2, common = _chain_diff(chains[x], chains[y])
                labels.add(f'{word}_shared_across_contexts')
                if only1 and only2:
                    labels.add(f'{word}_shared_two_filters' if 'filter' in only1 and 'filter' in only2
                               else f'{word}_shared_two_contexts')
                for kind in set(only1 + only2) if not (only1 and only2) else ():
                    labels.add(f'{word}_shared_across_{kind}')
                for side in (only1, only2):
                    if side.count('filter') >= 2 or ('filter' in side and 'filter' in common):
                        labels.add(f'{word}_shared_nested_filters')
    return sorted(labels)


def nest_share_classes(root):
    """'agg_inside_scan_shared' / 'scan_inside_agg_shared' (and the same-kind 'agg_inside_agg_shared' /
    'scan_inside_scan_shared'): the DAG enters an aggregation (scan) per-row position -- an ApplyAggOp / ApplyScanOp argument,
    the condition / array / key / value of a context node -- while already inside a per-row position of a scan
    (aggregation), and some non-leaf node *object* is reached through two different per-row positions of that inner
    aggregation (scan), i.e. it is shared inside the inner context's arguments and can only be bound by an AggLet of the
    inner kind.  Computed from the node objects (BaseIR.uses_agg_context / uses_scan_context), not from the generator's
    intent."""
    from hail.ir.base_ir import BaseIR
    ir = _env()[1]
    seen, entries = set(), {}

    def go(n, stack, rootid, entry):
        key = (id(n), stack, rootid, entry)
        if key in seen:
            return
        seen.add(key)
        kids = [(i, c) for i, c in enumerate(n.children) if isinstance(c, BaseIR)]
        if len(stack) >= 2 and kids:
            entries.setdefault((id(n), stack[-2:], rootid), set()).add(entry)
        for i, c in kids:
            if isinstance(n, ir.IR) and n.uses_agg_context(i):
                go(c, stack + ('agg',), rootid, (id(n), i))
            elif isinstance(n, ir.IR) and n.uses_scan_context(i):
                go(c, stack + ('scan',), rootid, (id(n), i))
            elif isinstance(n, (ir.StreamAgg, ir.StreamAggScan)) and i == 1:
                go(c, stack, id(n), entry)
            elif not isinstance(n, ir.IR) or isinstance(n, (ir.TableAggregate, ir.MatrixAggregate)):
                go(c, (), id(n), None)
            else:
                go(c, stack, rootid, entry)
    go(root, (), None, None)
    labels = set()
    for (_, (outer, inner), _), es in entries.items():
        labels.add(f'{inner}_inside_{outer}')
        if len(es) >= 2:
            labels.add(f'{inner}_inside_{outer}_shared')
    return sorted(labels)


def _tag_site_reused(fails):
    out = []
    for sig, cl, msg in fails:
        cat = sig
        for c in ('cse-raises:AssertionError', 'cse-raises:KeyError', 'let-value-unbound', 'unbound-ref', 'subst-mismatch',
                  'lifted-across-agg-context', 'lifted-across-scan-context', 'eval-differs', 'eval-unbound',
                  'inline-resolves-differently', 'cse-bound-twice', 'no-context'):
            if sig.startswith(c):
                cat = c
                break
        out.append(('site-reused:' + cat, cl, msg + ' [the DAG re-uses one node object at one depth as a block root and '
                    'as an ordinary child]'))
    return out


def _call(fn):
    return fn()


def _big_frame_caller():
    """CPython >= 3.11 keeps Python frames in 16 KiB chunks that are mmap'ed when a call does not fit and unmapped as soon
    as that frame returns: a hot recursive call that happens to straddle a chunk boundary (it depends on the depth at
    which Hypothesis calls the test) pays two system calls per call -- measured here: 100x on the reference interpreter.
    A caller whose own frame is declared > 512 KiB gets a 1 MiB chunk, and everything it calls lives in the ~500 KiB that
    remain: one mapping per case.  Purely a speed matter; any failure to build it falls back to a plain call."""
    try:
        import types
        return types.FunctionType(_call.__code__.replace(co_stacksize=66000), globals(), '_call_big_frame')
    except Exception:      # noqa: BLE001
        return _call


_BIG = _big_frame_caller()


def check_case(case, guard=None, guard2=None):
    """-> (nontrivial, classes, failures)"""
    return _BIG(lambda: _check_case(case, guard, guard2))


def _check_case(case, guard=None, guard2=None):
    hl, ir, CSERenderer, PlainRenderer = _env()
    if guard is None:
        guard = _guard()
    if guard2 is None:
        guard2 = _guard2()
    classes = ['mode_' + case.get('mode', 'ir')]
    fails = []
    root, st = build(case, guard)
    reused = site_reused(root)
    if reused:
        classes.append('site_reused_shape')
        if reused == 'binder':
            classes.append('site_reused_shape:binder')
        if guard2:
            STATS['excluded_known'] += 1
            return False, classes + ['excluded_known'], []
    STATS['ops'] += st.get('ops', 0)
    STATS['skipped_ops'] += st.get('skipped', 0)
    STATS['rejected_by_frontend'] += st.get('rejected', 0)
    STATS['excluded_known'] += st.get('excluded_known', 0)
    for key in ('root_aggregate', 'root_maprows', 'root_value'):
        if st.get(key):
            classes.append(key)
    if st.get('excluded_known'):
        classes.append('excluded_known')
    if st.get('lambdas'):
        classes.append('has_lambda')
    if st.get('max_depth', 0) >= 2:
        classes.append('nested_lambda')
    for key in ('api_aggq', 'api_table_root', 'api_scan_root'):
        if st.get(key):
            classes.append(key)
    shared = agg_share_classes(root)
    classes.extend(shared)
    nested = nest_share_classes(root)
    classes.extend(nested)
    nested = [c for c in nested if c.endswith('_shared')]
    for key in ('api_nested_agg', 'api_nested_scan', 'ir_nest'):
        if st.get(key):
            classes.append(key)
    plain = PlainRenderer()(root)
    try:
        cse = CSERenderer()(root)
    except Exception as ex:      # the renderer must not fail on a well-scoped DAG
        sig = f'cse-raises:{type(ex).__name__}:{_frame(ex)}'
        if isinstance(ex, KeyError) and ex.args and isinstance(ex.args[0], str):
            try:        # a variable the renderer's free-variable computation lost: name the context node that hides it
                sig = f'cse-raises:KeyError:lost-variable:via={_via_name(irtools.parse_text(plain), ex.args[0])}'
            except (irtools.OutsideGrammar, irtools.ReadError):
                pass
        fails.append((sig, CL_RENDER, f'CSERenderer raised {ex!r} in {_frame(ex)}; plain text: {plain[:600]}'))
        return False, classes + ['renderer_raised'], (_tag_site_reused(fails) if reused else fails)
    try:
        pn = irtools.parse_text(plain)
        cn = irtools.parse_text(cse)
    except irtools.OutsideGrammar as ex:
        return False, classes + ['outside_grammar', 'outside_grammar:' + ex.kind], fails
    free = {f'fv{i}': ('free', f'fv{i}') for i in range(len(case.get('free', [])))} if case.get('mode') == 'api' else {}
    top = Env(dict(free), None, None)
    # the generated DAG itself must be well scoped (generator contract)
    pre = irtools.resolve_refs(pn, top, [], _val)
    if _bad(pre):
        raise AssertionError(f'generator produced an ill-scoped DAG: {plain[:800]}')
    classes.append('compared')
    rep = scope_check(cn, top)
    flag_check(cn, rep)
    fails.extend(_primary(rep.fails))
    er = erase(cn, {})
    if er.key() != pn.key() and not fails:      # an unbound / misplaced let is already reported; this would be its echo
        fails.append(('subst-mismatch', CL_SUBST, 'after erasing the inserted lets the CSE tree differs from the plain tree '
                      + str(first_diff(er, pn))))
    # evaluation (aggregations and scans over explicit row lists)
    evaluated = False
    ctx_only = bool(fails) and all(f[0].startswith('lifted-across-') for f in fails)
    envs = case.get('envs') or [[]]
    ftypes = case.get('free', []) if case.get('mode') == 'api' else []
    for row in envs[:3]:
        env0 = {f'fv{i}': env_value(t, (row[i] if i < len(row) else 1)) for i, t in enumerate(ftypes)}
        try:
            _STEPS[0] = 0
            want = canon(ev(pn, env0, None))
        except EvalGap as ex:
            classes.append('eval_gap')
            classes.append(f'eval_gap:{ex}')
            break
        except RecursionError:
            classes.append('eval_gap')
            break
        evaluated = True
        if rep.fails and not ctx_only:      # a mis-scoped let is already reported; its consequences are not separate findings
            break
        try:
            _STEPS[0] = -EVAL_BUDGET      # the CSE text of a plain text within budget gets twice the budget
            got = canon(ev(cn, env0, None))
        except EvalGap as ex:
            classes.append('eval_gap')
            classes.append(f'eval_gap:{ex}')
            break
        except Unbound as ex:
            if not ctx_only:
                fails.append(('eval-unbound', CL_EVAL, f'evaluating the CSE text: variable {ex} is unbound; plain value {want!r}'))
            break
        if got != want:
            if ctx_only:      # the same defect, judged by value as well: one finding, the values join its message
                fails = [(sg, cl, m + f'; CSE text evaluates to {got!r}, plain text to {want!r} under {env0!r}')
                         for sg, cl, m in fails]
            else:
                fails.append(('eval-differs', CL_EVAL, f'CSE text evaluates to {got!r}, plain text to {want!r} under {env0!r}'))
            break
    classes.append('evaluated' if evaluated else 'not_evaluated')
    if rep.lets:
        classes.append('has_inserted_let')
    if rep.lets >= 3:
        classes.append('inserted_lets_ge3')
    for attr in ('lets_lambda', 'lets_userlet', 'lets_agglet', 'lets_scanlet', 'lets_in_agg'):
        if getattr(rep, attr):
            classes.append(attr)
    if rep.lets_nested:
        classes.append('lets_agglet_in_nested_context')
    nontrivial = bool(rep.lets_lambda or rep.lets_userlet or rep.lets_agglet or rep.lets_scanlet or rep.lets_in_agg or shared
                      or nested)
    if fails:
        if reused:
            fails = _tag_site_reused(fails)
        fails = [(s, c, m + f' | CSE: {cse[:700]}') for s, c, m in fails]
    return nontrivial, classes, fails


_guard_cache = None
_guard2_cache = None


def _guard2():
    global _guard2_cache
    if _guard2_cache is None:
        import os
        _guard2_cache = bool(os.environ.get('VERIF_C35_GUARD2')) or any(
            s.startswith('site-reused:') for s in known_signatures(PROPERTY))
    return _guard2_cache

STATS = {'ops': 0, 'skipped_ops': 0, 'rejected_by_frontend': 0, 'excluded_known': 0}


def _guard():
    global _guard_cache
    if _guard_cache is None:
        import os
        _guard_cache = bool(os.environ.get('VERIF_C35_GUARD')) or any(s.startswith('let-value-unbound:via=StreamAgg') for s in known_signatures(PROPERTY))
    return _guard_cache


# =================================================================================================================
# generators
# =================================================================================================================

def _strategies():
    from hypothesis import strategies as st
    idx = st.sampled_from([0, 0, 0, 0, 1, 1, 1, 2, 2, 3, 4, 5, 7, 10])
    small = st.integers(-3, 6)
    tnames = st.sampled_from(['i32', 'i32', 'i64', 'f64', 'bool', 'str'])

    def query(depth):
        """query programs over aggregator objects (ApiBuilder.query)"""
        code = st.integers(0, 7)
        if depth < 2:      # a per-row operand built by a nested op list over the enclosing pool and the row value
            rowx = st.one_of(code, code, code, code, st.deferred(lambda: st.fixed_dictionaries(
                {'ops': api_ops(depth + 1, 2, 1), 'ret': st.sampled_from([0, 0, 1])})))
        else:
            rowx = code
        # shared per-row slots (one node object for every operand naming the slot) and nested local aggregations / scans
        # over a per-row array as per-row operands: an aggregation inside a scan argument, a scan inside an aggregation
        # argument (and the same-kind nestings), the inner query mostly over shared slots
        slot = st.tuples(st.just('s'), st.sampled_from([0, 0, 1, 2]), rowx)
        if depth < 3:
            nest = st.tuples(st.just('n'), st.booleans(), st.one_of(code, slot), st.deferred(lambda: nested_query(depth + 1)))
            rowx = st.one_of(rowx, rowx, rowx, rowx, rowx, slot, slot, nest)
        else:
            rowx = st.one_of(rowx, rowx, slot)
        lit = st.integers(-1, 4)
        flt = st.tuples(st.just('f'), rowx, lit, st.booleans())
        wrapper = st.one_of(flt, flt, flt, st.tuples(st.just('e'), rowx), st.tuples(st.just('g'), rowx),
                            st.tuples(st.just('a'), rowx))
        chain = st.lists(wrapper, min_size=0, max_size=2)
        chains = st.tuples(st.lists(wrapper, min_size=1, max_size=2), chain, st.one_of(st.none(), chain)).map(
            lambda t: [c for c in t if c is not None])
        qshare = st.tuples(st.just('qshare'), idx, chains, st.lists(wrapper, min_size=0, max_size=1), st.sampled_from([0, 0, 1]))
        base = st.one_of(st.tuples(st.just('qsum'), rowx), st.tuples(st.just('qsum'), rowx), st.tuples(st.just('qcount')),
                         st.tuples(st.just('qcollect'), rowx))
        ctxop = st.one_of(st.tuples(st.just('qfilter'), idx, rowx, lit, st.booleans()),
                          st.tuples(st.just('qfilter'), idx, rowx, lit, st.booleans()),
                          st.tuples(st.just('qexplode'), idx, rowx), st.tuples(st.just('qgroup'), idx, rowx),
                          st.tuples(st.just('qarray'), idx, rowx))
        comb = st.one_of(st.tuples(st.just('qbin'), st.sampled_from(['+', '*']), idx, idx),
                         idx.flatmap(lambda i: st.tuples(st.just('qbin'), st.sampled_from(['+', '*']), st.just(i), st.just(i))),
                         st.tuples(st.just('qtup'), st.lists(idx, min_size=2, max_size=3)))
        return st.fixed_dictionaries({
            'ops': st.lists(st.one_of(base, base, ctxop, ctxop, comb, comb, qshare, qshare), min_size=1, max_size=7),
            'ret': st.lists(st.sampled_from([0, 0, 1, 2, 3]), min_size=1, max_size=3),
            'tail': st.one_of(st.none(), qshare, qshare)})

    def nested_query(depth):
        """the query of a nested local aggregation / scan: few aggregators, operands mostly the shared slots"""
        code = st.integers(0, 7)
        slot = st.tuples(st.just('s'), st.sampled_from([0, 0, 0, 1]), code)
        rowx = st.one_of(slot, slot, slot, code)
        lit = st.integers(-1, 4)
        flt = st.tuples(st.just('f'), rowx, lit, st.booleans())
        wrapper = st.one_of(flt, flt, st.tuples(st.just('e'), rowx), st.tuples(st.just('a'), rowx))
        base = st.one_of(st.tuples(st.just('qsum'), rowx), st.tuples(st.just('qsum'), rowx), st.tuples(st.just('qcount')))
        ctxop = st.one_of(st.tuples(st.just('qfilter'), idx, rowx, lit, st.booleans()), st.tuples(st.just('qexplode'), idx, rowx))
        comb = st.tuples(st.just('qbin'), st.sampled_from(['+', '*']), idx, idx)
        qshare = st.tuples(st.just('qshare'), idx, st.tuples(st.lists(wrapper, min_size=1, max_size=1), st.just([])).map(list),
                           st.just([]), st.just(0))
        return st.fixed_dictionaries({
            'ops': st.lists(st.one_of(base, base, base, ctxop, comb, qshare), min_size=2, max_size=4),
            'ret': st.lists(st.sampled_from([0, 1, 2]), min_size=2, max_size=3, unique=True),
            'tail': st.none()})

    def api_ops(depth, max_ops, min_ops=1):
        body = st.deferred(lambda: st.fixed_dictionaries({'ops': api_ops(depth + 1, 6, 2), 'ret': st.sampled_from([0, 0, 0, 1, 2])}))
        core = st.one_of(
            st.tuples(st.just('bin'), st.sampled_from(['+', '-', '*', '//']), idx, idx),
            st.tuples(st.just('bin'), st.sampled_from(['+', '-', '*', '//']), idx, idx),
            idx.flatmap(lambda i: st.tuples(st.just('bin'), st.sampled_from(['+', '*']), st.just(i), st.just(i))),
            st.tuples(st.just('cmp'), st.sampled_from(['<', '<=', '>', '>=', '==', '!=']), idx, idx),
            st.tuples(st.just('if'), idx, idx, idx), st.tuples(st.just('ifshare'), idx, idx, idx, st.integers(0, 3)),
            st.tuples(st.just('array'), st.lists(idx, min_size=1, max_size=3)),
            st.tuples(st.just('struct'), st.lists(idx, min_size=1, max_size=3)),
            st.tuples(st.just('field'), idx, idx),
            st.tuples(st.just('tuple'), st.lists(idx, min_size=1, max_size=3)),
            st.tuples(st.just('sum'), idx),
            st.tuples(st.just('len'), idx),
            st.tuples(st.just('lit'), tnames, small),
        )
        rare = st.one_of(
            st.tuples(st.just('na'), tnames),
            st.tuples(st.just('not'), idx), st.tuples(st.just('and'), idx, idx), st.tuples(st.just('or'), idx, idx),
            st.tuples(st.just('ormiss'), idx, idx), st.tuples(st.just('coalesce'), idx, idx),
            st.tuples(st.just('isna'), idx), st.tuples(st.just('range'), st.integers(0, 4)),
            st.tuples(st.just('idx'), idx, idx),
            st.tuples(st.just('annotate'), idx, st.lists(idx, min_size=1, max_size=2), idx),
            st.tuples(st.just('select'), idx, st.integers(1, 7)), st.tuples(st.just('drop'), idx, idx),
            st.tuples(st.just('tget'), idx, idx), st.tuples(st.just('concat'), idx, idx), st.tuples(st.just('tostr'), idx),
        )
        dup = idx.flatmap(lambda i: st.tuples(st.just('bin'), st.sampled_from(['+', '*', '-']), st.just(i), st.just(i)))
        aggq = st.tuples(st.just('aggq'), idx, query(depth + 1))
        alts = [core, core, core, core, rare] + ([dup, dup] if depth > 0 else [dup])
        if depth < 3:
            lam = st.one_of(
                st.tuples(st.just('map'), idx, body), st.tuples(st.just('map'), idx, body),
                st.tuples(st.just('filter'), idx, body),
                st.tuples(st.just('fold'), idx, idx, body), st.tuples(st.just('fold'), idx, idx, body),
                st.tuples(st.just('fold'), idx, idx, body),
                st.tuples(st.just('bind'), st.tuples(idx, idx), body), st.tuples(st.just('rbind'), idx, body),
                st.tuples(st.just('flatmap'), idx, body),
                st.tuples(st.just('aggregate'), idx, body, st.one_of(st.none(), idx)),
            )
            if depth < 2:
                lam = st.one_of(lam, lam, lam, lam, aggq)
            alts = alts + ([lam, lam] if depth == 0 else [lam])
        return st.lists(st.one_of(*alts), min_size=min_ops, max_size=max_ops)

    def api_case(max_ops):
        return st.fixed_dictionaries({
            'mode': st.just('api'),
            'free': st.lists(st.sampled_from(FREE_TYPES), min_size=0, max_size=3),
            'ops': api_ops(0, max_ops),
            'roots': st.lists(st.sampled_from([0, 0, 1, 1, 2, 3, 4, 6]), min_size=1, max_size=4),
            'all_roots': st.booleans(),
            'envs': st.lists(st.lists(st.one_of(st.none(), st.integers(-7, 7)), min_size=3, max_size=3), min_size=3,
                             max_size=3),
        })

    def table_case(max_ops):      # Table.aggregate / scan annotation of a query program (closed top-level pool)
        return st.fixed_dictionaries({
            'mode': st.just('api'), 'free': st.just([]), 'ops': api_ops(1, max(2, max_ops // 4), 0),
            'table': st.fixed_dictionaries({'n': st.integers(0, 3), 'scan': st.sampled_from([False, False, True]),
                                            'q': query(1)}),
        })

    sc = st.sampled_from([0, 0, 0, 1])
    glue = st.one_of(
        st.tuples(st.just('i'), small), st.tuples(st.just('r'), idx), st.tuples(st.just('r'), idx),
        st.tuples(st.just('row')), st.tuples(st.just('add'), idx, idx), st.tuples(st.just('mul'), idx, idx),
        idx.flatmap(lambda i: st.tuples(st.sampled_from(['add', 'mul']), st.just(i), st.just(i))),
        idx.flatmap(lambda i: st.tuples(st.sampled_from(['add', 'mul']), st.just(i), st.just(i))),
        st.tuples(st.just('cmp'), idx, idx), st.tuples(st.just('if'), idx, idx, idx),
        st.tuples(st.just('ifshare'), idx, idx, idx, st.integers(0, 3)),
        st.tuples(st.just('arr'), idx, idx), st.tuples(st.just('len'), idx),
        st.tuples(st.just('tup'), st.lists(idx, min_size=2, max_size=3)),
    )
    binders = st.one_of(
        st.tuples(st.just('smap'), idx, idx, idx), st.tuples(st.just('sfilter'), idx, idx, idx),
        st.tuples(st.just('sfold'), idx, idx, idx, idx, idx), st.tuples(st.just('sfold'), idx, idx, idx, idx, idx),
        st.tuples(st.just('let'), idx, idx, idx),
        st.tuples(st.just('sagg'), idx, idx, idx), st.tuples(st.just('saggscan'), idx, idx, idx),
    )
    aggs = st.one_of(
        st.tuples(st.just('asum'), idx, sc), st.tuples(st.just('asum'), idx, sc), st.tuples(st.just('acount'), sc),
        st.tuples(st.just('acollect'), idx, sc), st.tuples(st.just('atake'), idx, idx, sc),
        st.tuples(st.just('afilter'), idx, idx, sc), st.tuples(st.just('aexplode'), idx, idx, idx, sc),
        st.tuples(st.just('agroup'), idx, idx, sc), st.tuples(st.just('alet'), idx, idx, idx, sc),
        st.tuples(st.just('aape'), idx, idx, idx, sc),
    )
    # one aggregation entry used under several different chains of row-set context nodes
    lit = st.one_of(st.none(), st.integers(0, 4))
    flt = st.tuples(st.just('f'), idx, lit)
    wrapper = st.one_of(flt, flt, flt, st.tuples(st.just('e'), idx, idx), st.tuples(st.just('g'), idx),
                        st.tuples(st.just('p'), idx, idx), st.tuples(st.just('l'), idx, idx))
    chain = st.lists(wrapper, min_size=0, max_size=2)
    chains = st.tuples(st.lists(wrapper, min_size=1, max_size=2), chain, st.one_of(st.none(), chain)).map(
        lambda t: [c for c in t if c is not None])
    share = st.tuples(st.just('ashare'), idx, chains, st.lists(wrapper, min_size=0, max_size=1), st.sampled_from([0, 0, 1]), sc)
    # a local aggregation / scan with a node shared inside its arguments, used in a per-row position of an enclosing scan /
    # aggregation (IrBuilder.nest): mostly the two mixed nestings
    kinds2 = st.sampled_from([(0, 1), (0, 1), (0, 1), (1, 0), (1, 0), (1, 0), (0, 0), (1, 1)])
    nest = kinds2.flatmap(lambda io: st.tuples(st.just('nest'), st.just(io[0]), st.just(io[1]), idx, idx, idx, st.integers(0, 3),
                                               st.integers(0, 5), st.integers(0, 3), st.integers(0, 4)))
    ir_op = st.one_of(glue, glue, glue, glue, glue, glue, binders, binders, binders, binders, aggs, aggs, aggs, aggs, share,
                      share, nest)

    def ir_case(max_ops):
        return st.fixed_dictionaries({
            'mode': st.just('ir'),
            'ops': st.lists(ir_op, min_size=3, max_size=max_ops),
            'roots': st.lists(st.integers(0, 5), min_size=1, max_size=3),
            'target': st.sampled_from(['aggregate', 'aggregate', 'maprows', 'value']),
            'tail': st.one_of(st.none(), st.none(), st.none(), share, share, share, nest),
        })

    return (lambda m: st.one_of(api_case(m), api_case(m), api_case(m), table_case(m))), ir_case


def _jsonable(case):
    import json
    return json.loads(json.dumps(case))


_E3 = [[None, 1, 2], [3, -2, 7], [0, 5, None]]
SEED_CASES = [
    # shared StreamAgg whose query uses the enclosing lambda variable in its eval part (public API)
    {'mode': 'api', 'free': ['ai32'], 'envs': _E3, 'roots': [0],
     'ops': [['map', 0, {'ops': [['aggregate', 1, {'ops': [], 'ret': 0}, 0], ['bin', '+', 0, 0]], 'ret': 0}]]},
    # StreamAgg whose query uses a top-level variable only in its eval part
    {'mode': 'api', 'free': ['i32', 'ai32'], 'envs': _E3, 'roots': [0],
     'ops': [['fold', 0, 1, {'ops': [['lit', 'i32', 0]], 'ret': 0}], ['aggregate', 0, {'ops': [['lit', 'i32', 0]], 'ret': 0}, 0]]},
    # the same two shapes through hail.ir constructors: StreamAggScan / StreamAgg shared under StreamMap x0
    {'mode': 'ir', 'roots': [0], 'target': 'value',
     'ops': [['r', 1], ['asum', 0, 1], ['r', 0], ['add', 1, 0], ['arr', 4, 4], ['saggscan', 0, 1, 0], ['len', 0],
             ['add', 0, 0], ['smap', 1, 0, 0]]},
    {'mode': 'ir', 'roots': [0], 'target': 'value',
     'ops': [['r', 1], ['asum', 0, 0], ['r', 0], ['add', 1, 0], ['arr', 4, 4], ['sagg', 0, 1, 0],
             ['add', 0, 0], ['smap', 0, 0, 0]]},
    # a node that is a let-insertion site in one If branch and occurs again at the same depth elsewhere (public API)
    {'mode': 'api', 'free': [], 'envs': _E3, 'roots': [0], 'all_roots': True,
     'ops': [['bin', '+', 0, 0], ['bin', '+', 0, 0], ['ormiss', 0, 0], ['if', 0, 0, 2]]},
    {'mode': 'api', 'free': [], 'envs': _E3, 'roots': [0],
     'ops': [['not', 0], ['and', 0, 0], ['ormiss', 0, 0], ['and', 0, 1]]},
    {'mode': 'api', 'free': [], 'envs': _E3, 'roots': [0], 'all_roots': True,
     'ops': [['bin', '+', 0, 0], ['not', 0], ['bin', '+', 0, 0], ['ormiss', 0, 0], ['bin', '+', 0, 0], ['if', 0, 4, 0]]},
    # fold accumulator: a sub-expression of the accumulator alone used twice inside the fold body
    {'mode': 'ir', 'roots': [0], 'target': 'value',
     'ops': [['arr', 0, 0], ['r', 0], ['add', 0, 0], ['mul', 0, 0], ['sfold', 0, 3, 0, 0, 0]]},
    {'mode': 'api', 'free': ['ai32', 'i32'], 'envs': _E3, 'roots': [0],
     'ops': [['fold', 0, 0, {'ops': [['bin', '*', 1, 1], ['bin', '+', 0, 0], ['bin', '+', 0, 2]], 'ret': 0}]]},
    # plain sharing shapes (regression seeds): inside/outside lambda, nested lambdas, fold accumulator, agg/eval sharing
    {'mode': 'api', 'free': ['ai32', 'i32'], 'envs': _E3, 'roots': [0, 1], 'all_roots': True,
     'ops': [['bin', '+', 0, 0], ['map', 0, {'ops': [['bin', '*', 0, 1], ['bin', '+', 0, 0],
                                                      ['map', 2, {'ops': [['bin', '+', 0, 1], ['bin', '*', 0, 0]], 'ret': 0}],
                                                      ['sum', 0], ['bin', '+', 0, 2]], 'ret': 0}],
             ['fold', 0, 1, {'ops': [['bin', '+', 0, 1], ['bin', '*', 0, 0]], 'ret': 0}]]},
    {'mode': 'ir', 'roots': [0, 1, 2], 'target': 'aggregate',
     'ops': [['row'], ['add', 0, 1], ['asum', 0, 0], ['mul', 1, 1], ['asum', 0, 0], ['cmp', 1, 2], ['afilter', 0, 0, 0],
             ['arr', 2, 2], ['r', 0], ['mul', 0, 0], ['asum', 0, 0], ['add', 0, 0], ['aexplode', 0, 0, 0, 0]]},
    # one aggregator object under different row-set contexts (public API, Table.aggregate / scan annotation / array.aggregate):
    # s = hl.agg.sum(t.idx); hl.agg.filter(t.idx > 1, s) + s
    {'mode': 'api', 'free': [], 'ops': [], 'table': {'n': 3, 'scan': False, 'q': {
        'ops': [['qsum', 0], ['qshare', 0, [[['f', 0, 1, True]], []], [], 0]], 'ret': [0]}}},
    # n = hl.agg.count(); (filter(idx > 1, n), filter(idx*idx < 2, n), n) and the same below an outer filter (nested)
    {'mode': 'api', 'free': [], 'ops': [], 'table': {'n': 2, 'scan': False, 'q': {
        'ops': [['qcount'], ['qshare', 0, [[['f', 0, 1, True]], [['f', 1, 2, False]], []], [['f', 2, 3, False]], 1]], 'ret': [0]}}},
    # explode / group_by / array_agg against the bare use; scan variant
    {'mode': 'api', 'free': [], 'ops': [], 'table': {'n': 3, 'scan': False, 'q': {
        'ops': [['qsum', 1], ['qshare', 0, [[['e', 1]], [['g', 0]], []], [], 1], ['qshare', 1, [[['a', 3]], []], [], 1]],
        'ret': [0, 1]}}},
    {'mode': 'api', 'free': [], 'ops': [], 'table': {'n': 3, 'scan': True, 'q': {
        'ops': [['qcount'], ['qsum', 0], ['qbin', '+', 0, 1], ['qshare', 0, [[['f', 0, 0, True]], [['e', 1]], []], [], 0]],
        'ret': [0]}}},
    {'mode': 'api', 'free': ['ai32'], 'envs': _E3, 'roots': [0],
     'ops': [['aggq', 0, {'ops': [['qsum', 0], ['qcount'], ['qbin', '*', 0, 1],
                                  ['qshare', 0, [[['f', 0, 2, False]], [['f', 1, 3, True], ['g', 0]], []], [], 0]], 'ret': [0]}]]},
    # the same through hail.ir constructors, agg and scan, with per-element / agg-let contexts
    {'mode': 'ir', 'roots': [0], 'target': 'aggregate', 'ops': [['row'], ['asum', 0, 0]],
     'tail': ['ashare', 0, [[['f', 0, 2], ['p', 0, 1]], [['e', 0, 0]], []], [['f', 0, 3]], 0, 0]},
    {'mode': 'ir', 'roots': [0], 'target': 'maprows', 'ops': [['row'], ['acount', 1], ['asum', 0, 1], ['add', 0, 1]],
     'tail': ['ashare', 0, [[['f', 0, 2]], [['g', 0], ['l', 0, 1]], []], [], 1, 1]},
    # nested contexts with a node shared inside the inner context's arguments (public API):
    # t.annotate(z = hl.scan.sum(hl.array([i, i]).aggregate(lambda e: hl.agg.sum(e*e) + hl.agg.filter(e*e > 1, hl.agg.sum(e*e)))))
    {'mode': 'api', 'free': [], 'ops': [], 'table': {'n': 3, 'scan': True, 'q': {
        'ops': [['qsum', ['n', False, 0, {'ops': [['qsum', ['s', 0, 1]], ['qsum', ['s', 0, 1]],
                                                  ['qfilter', 0, ['s', 0, 1], 1, True], ['qbin', '+', 0, 2]],
                                          'ret': [0, 1]}]]], 'ret': [0]}}},
    # t.aggregate(hl.agg.sum(hl.sum(arr._to_stream()._aggregate_scan(lambda e: hl.scan.sum(e*e) + hl.scan.sum(e*e)).to_array())))
    {'mode': 'api', 'free': [], 'ops': [], 'table': {'n': 3, 'scan': False, 'q': {
        'ops': [['qsum', ['n', True, ['s', 1, 0], {'ops': [['qsum', ['s', 0, 1]], ['qsum', ['s', 0, 1]], ['qbin', '+', 0, 1]],
                                                   'ret': [0]}]]], 'ret': [0]}}},
    # the same through hail.ir constructors: StreamAgg inside an ApplyScanOp argument / StreamAggScan inside an ApplyAggOp
    # argument, one per-element node in two arguments (and a filter condition) of the inner query
    {'mode': 'ir', 'roots': [0], 'target': 'maprows', 'ops': [['row'], ['arr', 0, 1]],
     'tail': ['nest', 0, 1, 0, 0, 0, 1, 0, 0, 2]},
    {'mode': 'ir', 'roots': [0], 'target': 'aggregate', 'ops': [['row'], ['arr', 0, 1]],
     'tail': ['nest', 1, 0, 0, 1, 0, 0, 4, 2, 1]},
    {'mode': 'ir', 'roots': [0, 1], 'target': 'maprows', 'ops': [['row'], ['r', 1], ['add', 0, 1], ['arr', 0, 1],
                                                               ['nest', 0, 1, 0, 0, 0, 3, 3, 3, 2], ['nest', 1, 1, 0, 2, 1, 2, 5, 1, 0]]},
    # site-reused through the aggregation capability (no new block involved): y = s + s is a let-insertion site as the
    # aggregation of a filter and occurs at the same depth outside it:
    # s = hl.agg.sum(t.idx); y = s + s; t.aggregate(hl.tuple([hl.agg.filter(t.idx > 1, y), y * s, y + s]))
    {'mode': 'api', 'free': [], 'ops': [], 'table': {'n': 3, 'scan': False, 'q': {
        'ops': [['qsum', 0], ['qbin', '+', 0, 0], ['qfilter', 0, 0, 1, True], ['qbin', '*', 1, 2], ['qbin', '+', 2, 3]],
        'ret': [2, 1, 0]}}},
]


def plan(tier):
    per = 240 if tier == 'quick' else 3600
    specs = [dict(kind='seeds')]
    for i in range(15):
        if i % 15 < 9:
            specs.append(dict(kind='api', n=per, max_ops=(8, 12, 16, 22)[i % 4]))
        else:
            specs.append(dict(kind='ir', n=int(per * 1.6), max_ops=(10, 16, 24)[i % 3]))
    return specs


def run_shard(spec, seed, tier):
    res = Result()
    _env()
    if spec['kind'] == 'seeds':      # fixed programs, always interpreted without the known-finding guard
        for case in SEED_CASES:
            nt, classes, fails = check_case(case, guard=False, guard2=False)
            res.case(case, nt, classes + ['seed_case'])
            for sig, cl, msg in fails:
                res.fail(sig, cl, msg, case)
        return res
    api_case, ir_case = _strategies()
    strat = api_case(spec['max_ops']) if spec['kind'] == 'api' else ir_case(spec['max_ops'])
    from vlib.hyp import search
    search(res, PROPERTY, strat, lambda c: check_case(_jsonable(c)), spec['n'], seed, shrink=True, to_json=_jsonable)
    res.skipped_ops = STATS['skipped_ops']
    res.notes.update({'ops_applied': STATS['ops'], 'ops_rejected_by_frontend': STATS['rejected_by_frontend'],
                      'steps_excluded_known': STATS['excluded_known'],
                      'nested_contexts': 'agg-inside-scan / scan-inside-agg (and same-kind) nestings with a node shared inside the '
                                         'inner context\'s arguments are generated in both modes (api: slots + nested '
                                         'arr.aggregate / _aggregate_scan row operands; ir: nest op); judged by clause flag '
                                         '(AggLet is_scan vs kind of the per-row position of each use) besides scope / subst / '
                                         'eval; class labels *_inside_*_shared, lets_agglet_in_nested_context'})
    return res


def replay(case):
    _env()
    _, _, fails = check_case(case, guard=False, guard2=False)      # a replay never applies the known-finding guards
    return [dict(signature=s, clause=c, message=m, case=case) for s, c, m in fails]
