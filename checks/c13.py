"""C13 — job billing never exceeds the instance and survives serialization.

Real code: batch.instance_config.InstanceConfig.quantified_resources (worker_fraction_in_1024ths), batch.resources mixins,
batch.cloud.{gcp,azure}.instance_config (create / to_dict / from_dict), batch.cloud.{gcp,azure}.resources (create / to_dict /
from_dict / to_quantified_resource), batch.cloud.utils.instance_config_from_config_dict and the base64/JSON hop of
batch/driver/instance.py.  ProductVersions is the real class over a mapping that knows a version for every product asked for
('regional' flavour) or only for the pre-regional product names where the code has a backwards-compatibility fallback
('legacy' flavour, GCP only).

What "the whole worker" is: the driver records `quantified_resources(cores*1000, instance_memory(), 0)` as the resources of an
instance (cloud/*/driver/resource_manager.py); the check additionally derives those quantities from first principles (boot and
data disk GiB * 1024 MiB, cores * 1000 mcpu, machine memory in MiB, 1024 for the VM / IP fee, gpus * 1024).
"""
from __future__ import annotations

import base64
import itertools
import json

from vlib import hostenv
from vlib.runner import Result

PROPERTY = 'C13'
LEVEL = 'exploration'
RULE = ('configurations: every gcp_valid_machine_types / azure_valid_machine_types entry x preemptible x {local SSD, external data '
        'disk sizes} x boot disk sizes x locations (3 zones over the configured GCP regions / the Azure location) x job_private '
        '(non-job-private only for the machine types a pool can create: n1-<type>-<cores> resp. Standard_<F|D|E><cores>.. with a '
        'power-of-two core count) x product-version flavour, enumerated exhaustively with 5 canonical packings each, plus Hypothesis '
        'packings: op lists of core requests 250*2^k mcpu (a request that no longer fits is skipped and counted) with the memory the '
        'pool grants for that core count (gcp/azure_cores_mcpu_to_memory_bytes) and extra storage 0 or 10..max GiB; job-private '
        'instances carry exactly one job = the whole machine; an "off-grid" stratum uses arbitrary integer mcpu requests that the '
        'function accepts without assertion. Oracle: per resource name sum over jobs of the static quantity <= quantity of the whole '
        'instance; whole-machine job == whole instance == first-principles quantities; external (dynamic) storage is billed per job '
        '(>= requested GiB*1024, GCP exactly) and excluded from the sum; from_dict(to_dict), json and base64 hops + '
        'instance_config_from_config_dict give identical to_dict and identical quantified_resources for every request of the case. '
        'Non-trivial: a packing of >= 2 jobs on a pool instance, or a whole-machine job on a job-private instance with >= 2 cores; distinct by case.')
ASSUMPTIONS = [
    'dynamic external storage is billed per job by definition (its size is the job\'s own request) and is not part of the "sum <= whole instance" clause',
    'legal packings follow the code\'s documented validity: pool instances have power-of-two cores <= 256 (asserted in quantified_resources; '
    'its FIXME says the 1024ths fraction is only valid up to 64 cores) and requests are 250*2^k mcpu (is_valid_cores_mcpu); non-power-of-two '
    'machines (12/20/24/48/72/96 cores) are only used job-private = whole machine',
    'the off-grid stratum (arbitrary integer mcpu, memory rounded down to a MiB) is not producible by today\'s front end; it is included '
    'because quantified_resources accepts it and the statement says "any set of jobs"',
    'older serialized versions: GCP from_dict asserts version == 5 (no older support); Azure version 1 without resources loads as a config '
    'that bills nothing and is not compared; GCPAcceleratorResource format_version 1 (documented: one accelerator) is checked against number == 1',
]
TRUSTED = ['first-principles whole-instance quantities in checks/c13.py', 'machine-type tables of batch/cloud/*/resource_utils.py (cores, memory)']

GCP_ZONE_SUFFIX = ['a', 'b', 'f']
GCP_DATA_GB = [10, 100, 375, 1000, 65536]
GCP_BOOT_GB = [10, 200]
AZ_DATA_GB = [10, 32, 33, 129, 4096, 32768]
AZ_BOOT_GB = [10, 30, 100]

_m = None


def mods():
    global _m
    if _m is None:
        hostenv.prepare_services()
        import batch.cloud.azure.instance_config as az_ic
        import batch.cloud.azure.resource_utils as az_ru
        import batch.cloud.azure.resources as az_res
        import batch.cloud.gcp.instance_config as gcp_ic
        import batch.cloud.gcp.resource_utils as gcp_ru
        import batch.cloud.gcp.resources as gcp_res
        from batch.cloud.utils import instance_config_from_config_dict, possible_cloud_locations
        from batch.cloud.resource_utils import valid_machine_types, possible_cores_from_worker_type
        from batch.driver.billing_manager import ProductVersionInfo, ProductVersions
        from batch.instance_config import is_power_two

        class AnyVersions(dict):
            """Mapping that has a version for every product (legacy: not for region-qualified GCP products that have a fallback)."""

            def __init__(self, legacy):
                super().__init__()
                self.legacy = legacy

            def get(self, product, default=None):
                if self.legacy:
                    comps = product.split('/')
                    if comps[0] in ('disk', 'compute', 'memory') and comps[-1] in regions:
                        return default
                return ProductVersionInfo(latest_version=str(1 + sum(product.encode()) % 3), sku=None)

            def __str__(self):
                return f'AnyVersions(legacy={self.legacy})'

        regions = sorted(possible_cloud_locations('gcp'))
        zones = [f'{r}-{s}' for r, s in zip(itertools.cycle(regions), GCP_ZONE_SUFFIX)]
        az_locs = sorted(possible_cloud_locations('azure'))
        _m = dict(gcp=gcp_ic.GCPSlimInstanceConfig, azure=az_ic.AzureSlimInstanceConfig, gcp_ru=gcp_ru, az_ru=az_ru,
                  gcp_res=gcp_res, az_res=az_res, from_config_dict=instance_config_from_config_dict,
                  pv={'regional': ProductVersions(AnyVersions(False)), 'legacy': ProductVersions(AnyVersions(True))},
                  valid=dict(gcp=list(valid_machine_types('gcp')), azure=list(valid_machine_types('azure'))),
                  zones=zones, az_locs=az_locs, regions=regions, is_power_two=is_power_two,
                  pool_cores=possible_cores_from_worker_type)
    return _m


# ---------------------------------------------------------------------------------------------------------- domain
def pool_machine_types(cloud):
    """Machine types a pool can create, with a power-of-two core count (the documented validity of shared instances)."""
    M = mods()
    out = []
    if cloud == 'gcp':
        for wt in ('standard', 'highmem', 'highcpu'):
            for c in M['pool_cores']('gcp', wt):
                mt = M['gcp_ru'].family_worker_type_cores_to_gcp_machine_type(M['gcp_ru'].GCP_MACHINE_FAMILY, wt, c)
                if M['is_power_two'](c) and mt in M['valid']['gcp']:
                    out.append(mt)
    else:
        for wt in ('F', 'D', 'E'):
            for c in M['pool_cores']('azure', wt):
                for ssd in (False, True):
                    mt = M['az_ru'].azure_worker_properties_to_machine_type(wt, c, ssd)
                    if M['is_power_two'](c) and mt in M['valid']['azure'] and mt not in out:
                        out.append(mt)
    return out


def rejected_pool_machine_types(cloud):
    """Pool-configurable machine types whose core count is not a power of two (quantified_resources asserts on them)."""
    M = mods()
    out = []
    if cloud == 'gcp':
        for wt in ('standard', 'highmem', 'highcpu'):
            for c in M['pool_cores']('gcp', wt):
                if not M['is_power_two'](c):
                    out.append(M['gcp_ru'].family_worker_type_cores_to_gcp_machine_type(M['gcp_ru'].GCP_MACHINE_FAMILY, wt, c))
    else:
        for wt in ('F', 'D', 'E'):
            for c in M['pool_cores']('azure', wt):
                if not M['is_power_two'](c):
                    out.append(M['az_ru'].azure_worker_properties_to_machine_type(wt, c, False))
    return out


def all_configs(cloud):
    """Exhaustive list of config dicts for one cloud."""
    M = mods()
    pool = set(pool_machine_types(cloud))
    out = []
    if cloud == 'gcp':
        disks = [(True, M['gcp_ru'].gcp_local_ssd_size())] + [(False, g) for g in GCP_DATA_GB]
        for mt in M['valid']['gcp']:
            for jp in ((True, False) if mt in pool else (True,)):
                for pre, zone, (ssd, data), boot, pv in itertools.product((True, False), M['zones'], disks, GCP_BOOT_GB, ('regional', 'legacy')):
                    out.append(dict(cloud='gcp', machine_type=mt, preemptible=pre, local_ssd=ssd, data_gb=data, boot_gb=boot,
                                    job_private=jp, location=zone, pv=pv))
    else:
        for mt in M['valid']['azure']:
            parts = M['az_ru'].azure_machine_type_to_parts(mt)
            disks = [(True, M['az_ru'].azure_local_ssd_size(parts.family, parts.cores))] + [(False, g) for g in AZ_DATA_GB]
            for jp in ((True, False) if mt in pool else (True,)):
                for pre, loc, (ssd, data), boot in itertools.product((True, False), M['az_locs'], disks, AZ_BOOT_GB):
                    out.append(dict(cloud='azure', machine_type=mt, preemptible=pre, local_ssd=ssd, data_gb=data, boot_gb=boot,
                                    job_private=jp, location=loc, pv='regional'))
    return out


def build(cfg):
    M = mods()
    return M[cfg['cloud']].create(product_versions=M['pv'][cfg['pv']], machine_type=cfg['machine_type'],
                                  preemptible=cfg['preemptible'], local_ssd_data_disk=cfg['local_ssd'],
                                  data_disk_size_gb=cfg['data_gb'], boot_disk_size_gb=cfg['boot_gb'],
                                  job_private=cfg['job_private'], location=cfg['location'])


def granted_memory(cfg, ic, mcpu):
    """Memory the pool grants for a core request (front_end / inst_coll_config use these helpers), floored to a MiB for off-grid requests."""
    M = mods()
    if cfg['cloud'] == 'gcp':
        b = M['gcp_ru'].gcp_cores_mcpu_to_memory_bytes(mcpu, ic.machine_type_parts.machine_family, ic.worker_type())
    else:
        b = M['az_ru'].azure_cores_mcpu_to_memory_bytes(mcpu, ic.worker_type())
    return b


def max_extra_gib(cloud):
    M = mods()
    return M['gcp_ru'].GCP_MAX_PERSISTENT_SSD_SIZE_GIB if cloud == 'gcp' else M['az_ru'].AZURE_MAX_PERSISTENT_SSD_SIZE_GIB


def agg(qrs):
    d = {}
    for r in qrs:
        d[r['name']] = d.get(r['name'], 0) + r['quantity']
    return d


def version_of(product):
    return str(1 + sum(product.encode()) % 3)


def expected_whole(cfg, ic):
    """Whole-instance quantities from first principles, keyed by resource name."""
    M = mods()
    cores = ic.cores
    mem_mib = ic.instance_memory() // (1024 * 1024)
    legacy = cfg['pv'] == 'legacy'
    exp = {}

    def add(product, q):
        name = f'{product}/{version_of(product)}'
        exp[name] = exp.get(name, 0) + q

    pre = cfg['preemptible']
    if cfg['cloud'] == 'gcp':
        region = cfg['location'].rsplit('-', 1)[0]
        parts = M['gcp_ru'].gcp_machine_type_to_parts(cfg['machine_type'])
        fam = parts.machine_family
        ps = 'preemptible' if pre else 'nonpreemptible'
        rsfx = '' if legacy else f'/{region}'
        add(f'compute/{fam}-{ps}{rsfx}', cores * 1000)
        add(f'memory/{fam}-{ps}{rsfx}', mem_mib)
        add(f'disk/pd-ssd{rsfx}', cfg['boot_gb'] * 1024)
        if cfg['local_ssd']:
            add('disk/local-ssd' if legacy else f'disk/local-ssd/{ps}/{region}', cfg['data_gb'] * 1024)
        else:
            add(f'disk/pd-ssd{rsfx}', cfg['data_gb'] * 1024)
        add(f'ip-fee/{ps}/1024', 1024)
        add('service-fee', cores * 1000)
        add('gcp-support-logs-specs-and-firewall-fees', cores * 1000)
        if parts.gpu_config is not None:
            add(f'accelerator/{parts.gpu_config.gpu_type}-{ps}/{region}', parts.gpu_config.num_gpus * 1024)
    else:
        loc = cfg['location']
        tiers = sorted(set(M['az_ru'].azure_disk_number_to_storage_gib.items()), key=lambda kv: kv[1])

        def tier(family, gib):
            for num, size in tiers:
                if size >= gib and not (family == 'S' and num in ('1', '2', '3')):
                    return f'{family}{num}', size
            raise AssertionError(gib)
        add(f'az/vm/{cfg["machine_type"]}/{"spot" if pre else "regular"}/{loc}', 1024)
        n, s = tier('E', cfg['boot_gb'])
        add(f'az/disk/{n}_LRS/{loc}', s * 1024)
        if not cfg['local_ssd']:
            n, s = tier('P', cfg['data_gb'])
            add(f'az/disk/{n}_LRS/{loc}', s * 1024)
        add('az/ip-fee/1024', 1024)
        add('az/service-fee', cores * 1000)
    return exp


def check_case(case):
    """case = dict(cfg=<config dict>, jobs=[[mcpu, extra_gib], ...]) -> (nontrivial, classes, failures)"""
    M = mods()
    cfg, jobs = case['cfg'], case['jobs']
    fails = []
    classes = [f'cloud_{cfg["cloud"]}', 'job_private' if cfg['job_private'] else 'pool', f'pv_{cfg["pv"]}']

    def fail(sig, clause, msg):
        if not any(f[0] == sig for f in fails):
            fails.append((sig, clause, f'{msg} | config {json.dumps(cfg, sort_keys=True)}'))

    try:
        ic = build(cfg)
    except Exception as e:
        fail(f'create-raises-{type(e).__name__}', 'a valid configuration can be created', f'{type(e).__name__}: {e}')
        return False, classes, fails
    cores = ic.cores
    cap = cores * 1000
    whole_args = (cap, ic.instance_memory(), 0)
    try:
        whole_list = ic.quantified_resources(*whole_args)
    except Exception as e:
        fail(f'whole-raises-{type(e).__name__}', 'the whole instance can be quantified', f'{type(e).__name__}: {e}')
        return False, classes, fails
    whole = agg(whole_list)

    # ---- clause 2: whole instance from first principles; whole-machine job == whole instance
    exp = expected_whole(cfg, ic)
    if whole != exp:
        diff = {k: (whole.get(k), exp.get(k)) for k in sorted(set(whole) | set(exp)) if whole.get(k) != exp.get(k)}
        fail('whole-instance-quantity', 'the whole instance is billed its full disks, cores, memory and per-VM fees',
             f'(billed, expected) {diff}')
    if cfg['job_private'] or M['is_power_two'](cores):
        full_job = agg(ic.quantified_resources(cap, cfg['job_private'] and ic.instance_memory() or granted_memory(cfg, ic, cap), 0))
        if full_job != whole:
            diff = {k: (full_job.get(k), whole.get(k)) for k in sorted(set(whole) | set(full_job)) if whole.get(k) != full_job.get(k)}
            fail('whole-machine-job-not-whole-instance', 'a job using the whole worker is billed exactly the whole worker',
                 f'(job, instance) {diff}')

    # ---- requests of this case
    requests = []        # (mcpu, memory_bytes, extra_gib)
    offgrid = False
    if cfg['job_private']:
        requests.append((cap, ic.instance_memory(), 0))     # worker.py: job-private jobs carry no external storage
        skipped = max(0, len(jobs) - 1)
    else:
        left = cap
        skipped = 0
        for mcpu, extra in jobs:
            if mcpu <= 0 or mcpu > left:
                skipped += 1
                continue
            left -= mcpu
            q4 = mcpu * 4
            if q4 % 1000 != 0 or ((q4 // 1000) & (q4 // 1000 - 1)) != 0:
                offgrid = True
            mem = granted_memory(cfg, ic, mcpu)
            mem -= mem % (1024 * 1024)
            requests.append((mcpu, mem, extra))
    if offgrid:
        classes.append('offgrid_cpu')
    if sum(r[0] for r in requests) == cap and len(requests) >= 2:
        classes.append('full_packing')
    if any(r[2] for r in requests):
        classes.append('with_extra_storage')

    # ---- clause 1: sum over jobs of static quantities <= whole instance
    total = {}
    for mcpu, mem, extra in requests:
        try:
            st = ic.quantified_resources(mcpu, mem, 0)
            full = ic.quantified_resources(mcpu, mem, extra)
        except Exception as e:
            fail(f'job-raises-{type(e).__name__}', 'a legal request can be quantified', f'({mcpu}, {mem}, {extra}): {type(e).__name__}: {e}')
            continue
        for r in st:
            if r['quantity'] < 0:
                fail('negative-quantity', 'quantities are non-negative', f'{r} for request ({mcpu}, {mem}, 0)')
            total[r['name']] = total.get(r['name'], 0) + r['quantity']
        # dynamic part = what the extra storage adds
        a_st, a_full = agg(st), agg(full)
        dyn = {k: a_full.get(k, 0) - a_st.get(k, 0) for k in a_full if a_full.get(k, 0) != a_st.get(k, 0)}
        if extra == 0:
            if dyn:
                fail('dynamic-storage-billed-without-request', 'no external storage is billed without a request', f'{dyn}')
        else:
            if len(dyn) != 1:
                fail('dynamic-storage-quantity', 'external storage is billed once per job', f'extra={extra} GiB billed as {dyn}')
            else:
                (nm, q), = dyn.items()
                ok = q == extra * 1024 if cfg['cloud'] == 'gcp' else (extra * 1024 <= q < max(2 * extra, 8) * 1024 and nm.startswith('az/disk/P'))
                if not ok:
                    fail('dynamic-storage-quantity', 'external storage is billed per job at (at least) the requested size in MiB',
                         f'extra={extra} GiB billed as {dyn}')
    for name, q in sorted(total.items()):
        if name not in whole:
            fail('job-billed-resource-not-on-instance', 'jobs are billed only resources of the instance', f'{name}: {q}')
        elif q > whole[name]:
            fail('jobs-billed-more-than-instance', 'the resources billed to jobs packed on one worker never exceed the whole worker',
                 f'{name}: jobs sum to {q} > instance {whole[name]}; requests (mcpu, bytes) {[(r[0], r[1]) for r in requests][:12]} on {cores} cores')

    # ---- clause 3: serialization round trips
    d0 = ic.to_dict()
    hops = []
    try:
        hops.append(('from_dict(to_dict)', type(ic).from_dict(ic.to_dict())))
        hops.append(('json', M['from_config_dict'](json.loads(json.dumps(ic.to_dict())))))
        enc = base64.b64encode(json.dumps(ic.to_dict()).encode()).decode()           # driver/instance.py create()
        hops.append(('base64+json', M['from_config_dict'](json.loads(base64.b64decode(enc).decode()))))  # Instance.from_record()
    except Exception as e:
        fail(f'roundtrip-raises-{type(e).__name__}', 'a stored configuration can be reloaded', f'{type(e).__name__}: {e!r}')
    probe = list(requests) + [whole_args, (0, 0, 0)]
    if not cfg['job_private']:
        probe.append((250, granted_memory(cfg, ic, 250), 10))
        probe.append((cap, granted_memory(cfg, ic, cap), max_extra_gib(cfg['cloud'])))
    for label, ic2 in hops:
        try:
            d2 = ic2.to_dict()
            if d2 != d0 or json.dumps(d2, sort_keys=True) != json.dumps(d0, sort_keys=True):
                diff = sorted(k for k in set(d0) | set(d2) if d0.get(k) != d2.get(k))
                fail('roundtrip-changes-to_dict', 'reloaded configuration has the same to_dict()', f'{label}: fields {diff}')
            if type(ic2) is not type(ic) or (ic2.cores, ic2.job_private, ic2.instance_memory(), ic2.worker_type(), ic2.cloud) != \
                    (ic.cores, ic.job_private, ic.instance_memory(), ic.worker_type(), ic.cloud):
                fail('roundtrip-changes-instance', 'reloaded configuration describes the same instance', label)
            for args in probe:
                q1, q2 = ic.quantified_resources(*args), ic2.quantified_resources(*args)
                if q1 != q2:
                    fail('roundtrip-changes-billing', 'reloaded configuration bills identical quantities',
                         f'{label}: request {args}: {agg(q1)} vs {agg(q2)}')
                    break
        except Exception as e:
            fail(f'roundtrip-raises-{type(e).__name__}', 'a stored configuration can be reloaded', f'{label}: {type(e).__name__}: {e!r}')
    # documented older resource format: accelerator format_version 1 == one accelerator
    if cfg['cloud'] == 'gcp':
        acc = [r for r in d0['resources'] if r['type'] == 'gcp_accelerator']
        if acc and acc[0].get('number') == 1:
            d1 = json.loads(json.dumps(d0))
            for r in d1['resources']:
                if r['type'] == 'gcp_accelerator':
                    r['format_version'] = 1
                    del r['number']
            try:
                ic1 = M['from_config_dict'](d1)
                classes.append('accelerator_format_v1')
                if ic1.quantified_resources(*whole_args) != whole_list:
                    fail('accelerator-v1-changes-billing', 'accelerator format_version 1 means one accelerator', cfg['machine_type'])
            except Exception as e:
                fail(f'roundtrip-raises-{type(e).__name__}', 'a stored configuration can be reloaded', f'accelerator v1: {e!r}')

    nontrivial = (len(requests) >= 2 and not cfg['job_private']) or (cfg['job_private'] and cores >= 2)
    if skipped:
        classes.append('had_skipped_requests')
    return nontrivial, classes, fails


def canonical_packings(cfg, cores, idx):
    """Deterministic packings for the exhaustive grid (pool instances); extras rotate with the config index."""
    cap = cores * 1000
    mx = max_extra_gib(cfg['cloud'])
    extras = [0, 10, 375, mx, 11, 0, 4097]
    ex = lambda i: extras[(idx + i) % len(extras)]
    packs = [[[cap, ex(0)]]]
    packs.append([[250, ex(i)] for i in range(cores * 4)])
    ladder, c = [[250, ex(1)], [250, 0]], 500
    while c <= cap // 2:
        ladder.append([c, ex(c // 250)])
        c *= 2
    packs.append(ladder)
    if cores >= 2:
        packs.append([[cap // 2, ex(2)], [cap // 4, 0], [cap // 4, ex(3)]])
    packs.append([[cap // 2 if cores >= 2 else 500, 0], [250, ex(4)]])
    return packs


def plan(tier):
    q = tier == 'quick'
    specs = []
    for part in range(6):
        specs.append(dict(kind='grid', cloud='gcp', part=part, of=6))
    for part in range(2):
        specs.append(dict(kind='grid', cloud='azure', part=part, of=2))
    for i in range(8):
        specs.append(dict(kind='hyp', n=5000 if q else 150000, offgrid=(i % 4 == 3)))
    return specs


def run_shard(spec, seed, tier):
    M = mods()
    res = Result()
    if spec['kind'] == 'grid':
        res.exhaustive = True
        cfgs = all_configs(spec['cloud'])
        for i in range(spec['part'], len(cfgs), spec['of']):
            cfg = cfgs[i]
            if cfg['job_private']:
                packs = [[]]
            else:
                cores = build(cfg).cores
                packs = canonical_packings(cfg, cores, i)
            for jobs in packs:
                case = dict(cfg=cfg, jobs=jobs)
                nt, cls, fl = check_case(case)
                small = case if len(jobs) <= 12 else dict(cfg=cfg, jobs=jobs[:3], jobs_total=len(jobs))
                res.case(small, nt, cls)
                for sig, cl, msg in fl:
                    res.fail(sig, cl, msg, case)
        if spec['part'] == 0:
            # informational: pool-configurable core counts that quantified_resources refuses for shared instances
            for mt in rejected_pool_machine_types(spec['cloud']):
                cfg = dict(all_configs(spec['cloud'])[0], machine_type=mt, job_private=False, local_ssd=False,
                           data_gb=100, pv='regional')
                try:
                    build(cfg).quantified_resources(250, 1024 * 1024, 0)
                    res.count('pool_non_power_of_two_accepted')
                except AssertionError:
                    res.count('pool_non_power_of_two_asserts')
        return res

    from hypothesis import strategies as st
    from vlib.hyp import search
    cfgs = all_configs('gcp') + all_configs('azure')
    pool_idx = {cl: [i for i, c in enumerate(cfgs) if not c['job_private'] and c['cloud'] == cl] for cl in ('gcp', 'azure')}
    jp_idx = {cl: [i for i, c in enumerate(cfgs) if c['job_private'] and c['cloud'] == cl] for cl in ('gcp', 'azure')}
    extra = st.one_of(st.just(0), st.just(0), st.integers(10, 400), st.sampled_from([10, 11, 32, 33, 375, 4096, 4097, 32768]),
                      st.integers(10, 32768))
    if spec.get('offgrid'):
        cpu = st.one_of(st.integers(1, 2000), st.integers(1, 64000), st.sampled_from([1, 3, 249, 251, 333, 999, 1001]))
        jobs = st.lists(st.tuples(cpu, extra).map(list), min_size=1, max_size=300)
    else:
        cpu = st.integers(0, 8).map(lambda k: 250 * 2 ** k)
        jobs = st.lists(st.tuples(cpu, extra).map(list), min_size=1, max_size=80)
    strat = st.one_of(
        st.tuples(st.sampled_from(pool_idx['gcp']), jobs),
        st.tuples(st.sampled_from(pool_idx['azure']), jobs),
        st.tuples(st.sampled_from(pool_idx['gcp']), jobs),
        st.tuples(st.sampled_from(pool_idx['azure']), jobs),
        st.tuples(st.sampled_from(jp_idx['gcp'] + jp_idx['azure']), st.just([])),
    ).map(lambda t: dict(cfg=cfgs[t[0]], jobs=t[1]))
    search(res, PROPERTY, strat, check_case, spec['n'], seed, budget_s=30 if tier == 'quick' else 1500)
    return res


def replay(case):
    case = dict(case)
    case.pop('jobs_total', None)
    nt, cls, fl = check_case(case)
    return [dict(signature=s, clause=c, message=m, case=case) for s, c, m in fl]
