"""C27 — gear.database: transactions retry only transient MySQL errors, atomically (fault enumeration).

The REAL gear.database (Database, Transaction, transaction, retry_transient_mysql_errors, _aexit_1, connection acquire /
release through BackgroundTaskManager) runs on the fake aiomysql pool over a scratch minimysql engine with the tables
`t (id INT PRIMARY KEY, v INT)`, `log (n INT AUTO_INCREMENT PRIMARY KEY, tag INT)` (append-only: a write applied twice shows up
as a duplicated row) and one stored procedure `put` returning `rc`.  Faults are injected by
`engine.fault_hook(sess, phase, sql)`, which the driver facade calls BEFORE pool.acquire hands out a connection and
BEFORE it executes BEGIN / each statement / COMMIT, so a fault at COMMIT means "the commit did not happen".

What the *server* does to the open transaction when it reports an error is modelled in the hook (`server_effect`), as MySQL
documents it (InnoDB error handling): a deadlock (1213) rolls back the WHOLE transaction, a lock wait timeout (1205) rolls back
only the failing STATEMENT and leaves the transaction open with its earlier writes pending (innodb_rollback_on_timeout=OFF, the
default), a lost connection (2013) ends the session and with it the transaction, a COMMIT answered with an error has rolled the
transaction back; every other error is a statement error (the transaction stays open).  Whoever hands such a connection back to the pool must therefore roll back first: the check observes
the transaction state of every connection at the moment it is released, and runs each case under one of two pools (part of the
generated case): `aiomysql` (closes a connection released inside a transaction, as aiomysql.Pool.release does) and `reuse` (a pool
that hands the connection out again as it is: the next START TRANSACTION on it implicitly commits what was pending).
"""
from __future__ import annotations

from vlib import hostenv
from vlib.runner import Result

PROPERTY = 'C27'
LEVEL = 'fault_enumeration'
RULE = ('operation shapes: @transaction(db) bodies of 1-5 statements (insert / update / update-all / delete / select / bulk '
        'insert / CALL / append to the key-less log table) and every single-statement Database entry point (execute_update, execute_insertone, execute_many '
        '[bulk INSERT = one statement; UPDATE = one statement per row], check_call_procedure, just_execute, '
        'execute_and_fetchone, select_and_fetchone, execute_and_fetchall, select_and_fetchall) on a table preloaded with '
        '{1:10, 2:20} and an empty log table; fault = (attempt a in 1..3, position in {acquire, BEGIN, statement k, COMMIT}, error in {OperationalError '
        '1040/1213/2003/2013/1045/1644/1062/1205, InternalError 1205/1105, IntegrityError 1062, ProgrammingError 1064, RuntimeError, '
        'CancelledError}). EXHAUSTIVE: every fixed shape x a x position x error, attempts < a being failed by a deadlock after the '
        'last statement, each case under the pool named by (shape, a, position, error) parity [aiomysql | reuse]; GENERATED '
        '(Hypothesis): random bodies with 2-4 faults at arbitrary (attempt, position) and jitter draws, pool drawn; and the '
        'production *after_write*: a @transaction body whose first statement is a write that succeeds on the preloaded table, 1-4 more '
        'statements, and in each of attempts 1..a (a in 1..3) one retried error -- every retried (class, code) pair: OperationalError '
        '1040/1205/1213/2003/2013, InternalError 1205 -- at a drawn position AFTER that write (statement k >= 1 or COMMIT), plus 0-2 '
        'arbitrary further faults. Server side (hook): 1213, 2013 and any MySQL error answering COMMIT roll the whole transaction back '
        'before the error is raised, 1205 and every other error at a statement leave the transaction open with the earlier writes '
        'pending. '
        'asyncio.sleep runs on a virtual clock; the back-off jitter comes from the case. Oracle (reference interpreter over a dict, '
        'written from the statement): the operation is attempted again iff the injected/intrinsic error is transient (deadlock 1213, '
        'lock wait timeout 1205, lost connection 2013, too many connections 1040, cannot connect 2003); any other error propagates '
        'after exactly one attempt; outcome = model outcome; effect exactly once at the data level: final tables (t and the multiset '
        'of log rows, including whatever is still pending on a pooled connection) = the writes of exactly the one committed attempt, '
        'nothing at all when the operation gave up; every acquired connection released exactly once, none left in use, and every '
        'connection is OUTSIDE a transaction with nothing pending at the moment it is handed back to the pool; k-th back-off sleep within '
        '[min(60s, 2^k/2 s), min(60s, 2^k s)]. Classes: fault_after_successful_write (a fault at a statement/COMMIT position that follows '
        '>= 1 successful write of the same attempt), split by what the server did (…_stmt_rollback_only = 1205 & statement errors, '
        '…_txn_rolled_back = 1213/2013) and by error (…_OE1205, …_IE1205, …); retried_after_pending_writes (such a fault was transient and '
        'the operation went on to another attempt); pool_aiomysql / pool_reuse; gave_up_after_writes_nothing_visible; '
        'excluded_reuse_pool_client_interrupted_commit (a plan with RuntimeError / CancelledError at COMMIT is run under the aiomysql '
        'pool whatever was drawn, see ASSUMPTIONS). Non-trivial: a fault fired after >= 1 write of its attempt.')
ASSUMPTIONS = [
    'a fault at COMMIT is modelled as "the commit did not happen" (the hook fires before the engine commits); a commit that succeeded '
    'on the server but whose acknowledgement was lost is not modelled',
    'faults during ROLLBACK are not injected',
    'Database.execute_and_fetchall / select_and_fetchall are async generators and are NOT wrapped by retry_transient_mysql_errors in the '
    'code (rows already yielded cannot be taken back); for them the retry clause is not judged (either behaviour accepted), the '
    'not-retried-otherwise, atomicity and connection clauses are',
    'lock wait timeout is judged transient whichever pymysql class carries code 1205 (pymysql>=0.10 raises OperationalError for it)',
    'minimysql executes transactions one at a time; deadlocks / lock waits / lost connections exist only as injected errors',
    'server-side effect of an injected error on the open transaction, applied by the fault hook in checks/c27.py before the error is '
    'raised, follows the MySQL reference manual (InnoDB Error Handling): 1213 deadlock -> whole transaction rolled back; 1205 lock wait '
    'timeout -> only the failing statement is rolled back, the transaction stays open (innodb_rollback_on_timeout=OFF, the default); 2013 '
    'lost connection -> the server ends the session and rolls its transaction back (the client-side connection object stays usable: a '
    'ROLLBACK sent on it is answered, faults during ROLLBACK are out of scope); duplicate key / syntax / SIGNAL and all other statement '
    'errors -> statement rolled back, transaction open; 1040 / 2003 (connection establishment) injected at a statement position and the '
    'client-side RuntimeError / CancelledError have no server-side effect (transaction open); any MySQL error answering COMMIT -> the '
    'transaction is rolled back (a failed commit is rolled back by the server; COMMIT takes no row locks, so a statement-level 1205 '
    'cannot arise there)',
    'RuntimeError / CancelledError injected at the COMMIT position (COMMIT never sent) leave the transaction open; gear.database does '
    'not roll back after a failing COMMIT and hands the connection back as it is, which aiomysql.Pool.release answers by closing it. '
    'Nothing real interrupts COMMIT on the client side (Transaction._aexit is shielded), so this is accepted: such plans always run under '
    'the aiomysql pool (class excluded_reuse_pool_client_interrupted_commit counts the redirected draws) and the '
    'released-inside-a-transaction clause is waived for that one attempt (class client_interrupted_commit_relies_on_pool_close)',
    'the injected error replaces the statement (the hook fires before it executes), which is what "the failing statement is rolled back" '
    'amounts to; a statement that partly executed and was undone is covered by minimysql statement atomicity (trusted)',
    'pool `reuse` stands for any pool that does not inspect the transaction status on release (the property is stated at the '
    'gear.database level: every attempt is closed by COMMIT or ROLLBACK before its connection is handed back); pool `aiomysql` closes '
    'such a connection, so there the defect shows as a connection released inside a transaction, not as data',
    'START TRANSACTION on a connection that still has a transaction open commits it implicitly (MySQL: statements that cause an '
    'implicit commit); minimysql implements this',
]
TRUSTED = ['vlib/minimysql (statement atomicity, ROLLBACK, implicit commit at START TRANSACTION, release-closes-open-transaction as aiomysql does)', 'vlib/aiosched.py virtual loop',
           'reference interpreter `model()` in checks/c27.py']

INITIAL = {1: 10, 2: 20}

# ---- error catalogue: name -> (class name, code, transient per the statement)
ERRORS = {
    'OE1040': ('OperationalError', 1040, True),
    'OE1213': ('OperationalError', 1213, True),
    'OE2003': ('OperationalError', 2003, True),
    'OE2013': ('OperationalError', 2013, True),
    'OE1205': ('OperationalError', 1205, True),     # what pymysql >= 0.10 (pinned: 1.1.2) raises for a lock wait timeout
    'IE1205': ('InternalError', 1205, True),        # what the code expects (pymysql < 0.10)
    'OE1045': ('OperationalError', 1045, False),
    'OE1644': ('OperationalError', 1644, False),
    'OE1062': ('OperationalError', 1062, False),
    'IE1105': ('InternalError', 1105, False),
    'IG1062': ('IntegrityError', 1062, False),
    'PE1064': ('ProgrammingError', 1064, False),
    'RUNTIME': ('RuntimeError', None, False),
    'CANCEL': ('CancelledError', None, False),
}
ERR_NAMES = list(ERRORS)

SQL = {
    'ins': 'INSERT INTO t (id, v) VALUES (%s, %s)',
    'upd': 'UPDATE t SET v = v + %s WHERE id = %s',
    'updall': 'UPDATE t SET v = v + %s',
    'del': 'DELETE FROM t WHERE id = %s',
    'sel': 'SELECT id, v FROM t ORDER BY id',
    'sel1': 'SELECT COUNT(*) AS n FROM t',
    'call': 'CALL put(%s, %s)',
    'log': 'INSERT INTO log (tag) VALUES (%s)',
}
WRITES = ('ins', 'upd', 'updall', 'del', 'many', 'call', 'log')
POOLS = ('aiomysql', 'reuse')
RETRIED = ('OE1205', 'IE1205', 'OE1213', 'OE2013', 'OE1040', 'OE2003')     # every (class, code) pair the statement calls transient


def server_effect(errname, pos=0):
    """What the server has done to the session's open transaction when it reports this error at this position (see ASSUMPTIONS)."""
    cls, code, _t = ERRORS[errname]
    if code is None:
        return 'client_side'            # RuntimeError / CancelledError: the server saw nothing, the transaction stays open
    if code in (1213, 2013) and cls == 'OperationalError':
        return 'txn_rolled_back'
    if pos == 'commit':
        return 'txn_rolled_back'        # a COMMIT answered with an error has rolled the transaction back
    return 'stmt_rollback_only'


def effective_pool(case):
    """The pool the case runs under.  A CLIENT-side interruption of COMMIT (RuntimeError / CancelledError raised instead of sending it)
    leaves the transaction open and gear.database hands the connection back as it is, relying on aiomysql.Pool.release to close it
    (not a defect against the pool it is written for, and nothing real produces such an interruption: _aexit is shielded): those
    plans always run under the aiomysql pool and the released-inside-a-transaction clause is not applied to that attempt."""
    if any(p == 'commit' and ERRORS[e][1] is None for _a, p, e in case['faults']):
        return 'aiomysql'
    return case.get('pool', 'aiomysql')


STREAM_MODES = ('db_fetchall', 'db_selectall')
MODES = ('tx', 'tx_ro', 'db_update', 'db_insertone', 'db_many_ins', 'db_many_upd', 'db_call', 'db_just', 'db_fetchone',
         'db_selectone', 'db_fetchall', 'db_selectall')

SHAPES = [
    ('tx', [['upd', 1, 1]]),
    ('tx', [['ins', 3, 30]]),
    ('tx', [['del', 2]]),
    ('tx', [['sel']]),
    ('tx', [['ins', 3, 30], ['upd', 3, 1]]),
    ('tx', [['upd', 1, 1], ['sel'], ['del', 2]]),
    ('tx', [['ins', 3, 30], ['ins', 4, 40], ['upd', 1, 5], ['del', 2], ['sel1']]),
    ('tx', [['many', [[3, 1], [4, 2]]], ['updall', 1]]),
    ('tx', [['upd', 1, 1], ['ins', 1, 0]]),
    ('tx', [['call', 3, 30], ['upd', 3, 1]]),
    ('tx', [['call', 1, 0], ['sel']]),
    ('tx', [['del', 1], ['del', 2], ['ins', 1, 99], ['ins', 2, 98]]),
    ('tx', [['log', 1], ['log', 2], ['log', 3]]),
    ('tx', [['log', 7], ['ins', 3, 30], ['sel'], ['upd', 3, 1], ['log', 7]]),
    ('tx', [['upd', 2, 5], ['log', 4]]),
    ('tx_ro', [['sel'], ['sel1']]),
    ('db_update', [['upd', 1, 1]]),
    ('db_update', [['updall', 3]]),
    ('db_update', [['del', 1]]),
    ('db_update', [['ins', 5, 50]]),
    ('db_insertone', [['ins', 5, 50]]),
    ('db_insertone', [['ins', 1, 0]]),
    ('db_many_ins', [['many', [[5, 1], [6, 2], [7, 3]]]]),
    ('db_many_ins', [['many', [[5, 1], [1, 2]]]]),
    ('db_many_upd', [['upd', 1, 1], ['upd', 2, 2], ['upd', 1, 3]]),
    ('db_call', [['call', 3, 30]]),
    ('db_call', [['call', 1, 0]]),
    ('db_just', [['del', 2]]),
    ('db_just', [['updall', 1]]),
    ('db_just', [['log', 9]]),
    ('db_insertone', [['log', 9]]),
    ('db_fetchone', [['sel1']]),
    ('db_fetchone', [['upd', 2, 2]]),
    ('db_selectone', [['sel1']]),
    ('db_fetchall', [['sel']]),
    ('db_selectall', [['sel']]),
]


def positions(body):
    return ['acquire', 'begin'] + list(range(len(body))) + ['commit']


# ---------------------------------------------------------------------------------------------- reference model
class _Fail(Exception):
    def __init__(self, name):
        self.name = name


def apply_stmt(state, st, log=None):
    """-> True if the statement wrote something; raises _Fail('IG1062') on an intrinsic duplicate key; `state` (table t) and `log`
    (the rows of the log table, a list of tags) are mutated only when the whole statement succeeds (statement atomicity)."""
    k = st[0]
    if k == 'log':
        log.append(st[1])
        return True
    if k == 'ins':
        if st[1] in state:
            raise _Fail('IG1062')
        state[st[1]] = st[2]
        return True
    if k == 'many':
        new = dict(state)
        for i, v in st[1]:
            if i in new:
                raise _Fail('IG1062')
            new[i] = v
        state.clear()
        state.update(new)
        return bool(st[1])
    if k == 'upd':
        if st[1] in state and st[2] != 0:
            state[st[1]] += st[2]
            return True
        return False
    if k == 'updall':
        if st[1] != 0 and state:
            for i in state:
                state[i] += st[1]
            return True
        return False
    if k == 'del':
        return state.pop(st[1], None) is not None
    if k == 'call':
        if st[1] in state:
            return False       # rc = 1, nothing written
        state[st[1]] = st[2]
        return True
    return False


def model(mode, body, faults, retrying=True):
    """-> dict(attempts, body_calls, outcome=('ok',)|('raise', errname), table, log, fired_after_write, after_write=[(attempt,
    position, error)] faults that fired at a statement / COMMIT position following >= 1 successful write of the same attempt)."""
    fmap = {}
    for a, p, e in faults:
        fmap.setdefault((a, p if isinstance(p, str) else int(p)), e)
    committed = dict(INITIAL)
    committed_log = []
    attempts = 0
    body_calls = 0
    fired_after_write = False
    after_write = []

    def out(outcome):
        return dict(attempts=attempts, body_calls=body_calls, outcome=outcome, table=committed, log=committed_log,
                    fired_after_write=fired_after_write, after_write=after_write)
    while True:
        attempts += 1
        work = dict(committed)
        wlog = list(committed_log)
        wrote = False
        err = None
        call_rc = 0
        try:
            for p in ('acquire', 'begin'):
                if (attempts, p) in fmap:
                    raise _Fail(fmap[(attempts, p)])
            body_calls += 1
            for k, st in enumerate(body):
                if (attempts, k) in fmap:
                    if wrote:
                        fired_after_write = True
                        after_write.append((attempts, k, fmap[(attempts, k)]))
                    raise _Fail(fmap[(attempts, k)])
                try:
                    w = apply_stmt(work, st, wlog)
                except _Fail:
                    if wrote:
                        fired_after_write = True
                    raise
                if st[0] == 'call' and not w:
                    call_rc = 1
                wrote = wrote or w
            if (attempts, 'commit') in fmap:
                if wrote:
                    fired_after_write = True
                    after_write.append((attempts, 'commit', fmap[(attempts, 'commit')]))
                raise _Fail(fmap[(attempts, 'commit')])
            committed = work
            committed_log = wlog
        except _Fail as f:
            err = f.name
        if err is None:
            if mode == 'db_call' and call_rc:
                return out(('raise', 'CALLERROR'))
            return out(('ok',))
        if ERRORS[err][2] and retrying and attempts < 50:
            continue
        return out(('raise', err))


# ---------------------------------------------------------------------------------------------- execution on the real code
_template = None


def _engine():
    global _template
    from vlib.minimysql import Engine
    if _template is None:
        eng = Engine()
        s = eng.connect()
        s.execute('CREATE TABLE t (id INT PRIMARY KEY, v INT)')
        s.execute('CREATE TABLE log (n INT NOT NULL AUTO_INCREMENT PRIMARY KEY, tag INT)')
        s.execute('''CREATE PROCEDURE put(IN in_id INT, IN in_v INT)
BEGIN
  DECLARE n INT;
  SELECT COUNT(*) INTO n FROM t WHERE id = in_id;
  IF n = 0 THEN
    INSERT INTO t (id, v) VALUES (in_id, in_v);
    SELECT 0 AS rc;
  ELSE
    SELECT 1 AS rc, 'exists' AS message;
  END IF;
END''')
        for i, v in INITIAL.items():
            s.execute('INSERT INTO t (id, v) VALUES (%s, %s)', (i, v))
        eng.close_session(s)
        _template = eng
    return _template.fork()


class _Rand:
    def __init__(self, draws):
        self.draws = list(draws) or [0]
        self.i = 0

    def randrange(self, n):
        d = self.draws[self.i % len(self.draws)]
        self.i += 1
        return {0: 0, 1: n - 1, 2: n // 2, 3: n // 3}[d % 4]

    def __getattr__(self, k):
        import random
        return getattr(random, k)


def make_error(name):
    import asyncio
    import pymysql
    cls, code, _t = ERRORS[name]
    if cls == 'RuntimeError':
        return RuntimeError('injected')
    if cls == 'CancelledError':
        return asyncio.CancelledError()
    return getattr(pymysql.err, cls)(code, f'injected {name}')


def classify(exc):
    """exception raised by the operation -> catalogue name (or a descriptive string)."""
    import asyncio
    import pymysql
    import gear.database as gd
    if isinstance(exc, gd.CallError):
        return 'CALLERROR'
    if isinstance(exc, asyncio.CancelledError):
        return 'CANCEL'
    if isinstance(exc, RuntimeError) and exc.args == ('injected',):
        return 'RUNTIME'
    if isinstance(exc, pymysql.err.MySQLError):
        for name, (cls, code, _t) in ERRORS.items():
            if type(exc).__name__ == cls and exc.args and exc.args[0] == code:
                return name
    return f'{type(exc).__name__}{exc.args!r}'[:120]


def bounds(k, base=1000, mx=60000):
    c = base * (1 << min(k, 30))
    return min(mx, c // 2), min(mx, c)


async def _run_body(tx, body):
    for st in body:
        k = st[0]
        if k == 'ins':
            await tx.execute_insertone(SQL['ins'], (st[1], st[2]))
        elif k == 'many':
            await tx.execute_many(SQL['ins'], [tuple(x) for x in st[1]])
        elif k == 'upd':
            await tx.execute_update(SQL['upd'], (st[2], st[1]))
        elif k == 'updall':
            await tx.execute_update(SQL['updall'], (st[1],))
        elif k == 'del':
            await tx.just_execute(SQL['del'], (st[1],))
        elif k == 'sel':
            async for _row in tx.execute_and_fetchall(SQL['sel']):
                pass
        elif k == 'sel1':
            await tx.execute_and_fetchone(SQL['sel1'])
        elif k == 'call':
            await tx.execute_and_fetchone(SQL['call'], (st[1], st[2]))
        elif k == 'log':
            await tx.execute_insertone(SQL['log'], (st[1],))
        else:
            raise AssertionError(k)


def _args(st):
    k = st[0]
    if k in ('ins', 'call'):
        return (st[1], st[2])
    if k == 'upd':
        return (st[2], st[1])
    if k in ('updall', 'del', 'log'):
        return (st[1],)
    return None


def valid_case(case):
    mode, body = case['mode'], case['body']
    if mode not in MODES or not body or case.get('pool', 'aiomysql') not in POOLS:
        return False
    kinds = [s[0] for s in body]
    if mode == 'tx':
        return 1 <= len(body) <= 5
    if mode == 'tx_ro':
        return all(k in ('sel', 'sel1') for k in kinds)
    if mode == 'db_many_upd':
        return all(k == 'upd' for k in kinds)
    if len(body) != 1:
        return False
    k = kinds[0]
    return {'db_update': k in ('upd', 'updall', 'del', 'ins', 'log'), 'db_insertone': k in ('ins', 'log'), 'db_many_ins': k == 'many',
            'db_call': k == 'call', 'db_just': k in ('upd', 'updall', 'del', 'ins', 'log'), 'db_fetchone': k in ('sel1', 'upd', 'call'),
            'db_selectone': k == 'sel1', 'db_fetchall': k == 'sel', 'db_selectall': k == 'sel'}[mode]


def execute(case):
    """Run the case on the real gear.database.  -> observation dict."""
    hostenv.prepare_services()
    import asyncio
    import gear.database as gd
    from hailtop.utils import utils as U
    from vlib.minimysql import driver
    from vlib.aiosched import new_loop, close_loop

    mode, body = case['mode'], case['body']
    pool_mode = effective_pool(case)
    fmap = {}
    for a, p, e in case['faults']:
        fmap.setdefault((a, p if isinstance(p, str) else int(p)), e)
    eng = _engine()
    driver.install()
    driver.set_engine(eng)
    obs = dict(attempt_times=[], body_calls=0, fired=[], acquired=0, released=0, double_release=0, foreign_release=0,
               released_in_txn=[], implicit_commits=0)
    st = dict(attempt=0, k=0)
    loop = new_loop()

    def hook(sess, phase, sql):
        if phase == 'acquire':
            st['attempt'] += 1
            st['k'] = 0
            obs['attempt_times'].append(loop.time())
            pos = 'acquire'
        elif phase == 'begin':
            pos = 'begin'
        elif phase == 'commit':
            pos = 'commit'
        elif phase == 'statement':
            pos = st['k']
            st['k'] += 1
        else:
            return
        if phase == 'begin' and sess is not None and (sess.in_txn or sess.undo):
            obs['implicit_commits'] += 1        # START TRANSACTION on a connection whose previous transaction was never closed
        e = fmap.get((st['attempt'], pos))
        if e is not None:
            obs['fired'].append([st['attempt'], pos, e])
            if sess is not None and server_effect(e, pos) == 'txn_rolled_back':
                # deadlock victim / lost connection / failed COMMIT: the server has rolled the whole transaction back before the
                # client sees the error.  Everything else (1205 lock wait timeout included) leaves the transaction open: only the
                # failing statement -- which the raise below replaces -- is undone.
                eng.rollback(sess)
                eng.gate.release(sess)
            raise make_error(e)

    saved_random = U.random
    U.random = _Rand(case.get('jitter', [0]))
    try:
        async def main():
            db = gd.Database()
            await db.async_init(maxsize=3)
            pool = db.pool
            out = set()
            real_acquire, real_release = pool._acquire, pool.release

            async def _acquire():
                conn = await real_acquire()
                obs['acquired'] += 1
                out.add(conn)
                return conn

            def release(conn):
                if conn in out:
                    out.discard(conn)
                    obs['released'] += 1
                elif conn is not None:
                    obs['double_release'] += 1
                if conn is not None and not conn.closed and (conn.session.in_txn or conn.session.undo):
                    # handed back inside a transaction: the attempt that used it was closed neither by COMMIT nor by ROLLBACK
                    if fmap.get((st['attempt'], 'commit')) in ('RUNTIME', 'CANCEL') and obs['fired'] and obs['fired'][-1][1] == 'commit':
                        obs['client_interrupted_commit'] = obs.get('client_interrupted_commit', 0) + 1      # see effective_pool
                    else:
                        obs['released_in_txn'].append([st['attempt'], len(conn.session.undo)])
                    if pool_mode == 'reuse' and conn in pool._used:
                        # a pool that does not look at the transaction status: the connection goes back as it is
                        pool._used.discard(conn)
                        pool._free.append(conn)
                        pool._wakeup()
                        return real_release(None)
                return real_release(conn)
            pool._acquire = _acquire
            pool.release = release
            eng.fault_hook = hook

            async def op():
                if mode in ('tx', 'tx_ro'):
                    @gd.transaction(db, read_only=(mode == 'tx_ro'))
                    async def f(tx):
                        obs['body_calls'] += 1
                        await _run_body(tx, body)
                        return 'done'
                    return await f()
                s0 = body[0]
                if mode == 'db_update':
                    return await db.execute_update(SQL[s0[0]], _args(s0))
                if mode == 'db_insertone':
                    return await db.execute_insertone(SQL[s0[0]], _args(s0))
                if mode == 'db_many_ins':
                    return await db.execute_many(SQL['ins'], [tuple(x) for x in s0[1]])
                if mode == 'db_many_upd':
                    return await db.execute_many(SQL['upd'], [_args(s) for s in body])
                if mode == 'db_call':
                    return await db.check_call_procedure(SQL['call'], _args(s0))
                if mode == 'db_just':
                    return await db.just_execute(SQL[s0[0]], _args(s0))
                if mode == 'db_fetchone':
                    return await db.execute_and_fetchone(SQL[s0[0]], _args(s0))
                if mode == 'db_selectone':
                    return await db.select_and_fetchone(SQL['sel1'])
                if mode == 'db_fetchall':
                    return [r async for r in db.execute_and_fetchall(SQL['sel'])]
                if mode == 'db_selectall':
                    return [r async for r in db.select_and_fetchall(SQL['sel'])]
                raise AssertionError(mode)

            try:
                v = await op()
                obs['outcome'] = ('ok',)
                obs['value'] = v if isinstance(v, (int, str, type(None))) else repr(v)[:200]
            except BaseException as e:  # noqa: B902 - CancelledError is one of the injected faults
                obs['outcome'] = ('raise', classify(e))
                e.__traceback__ = None
            obs['end_time'] = loop.time()
            for _ in range(6):          # let the background connection-release tasks run
                await asyncio.sleep(0)
            eng.fault_hook = None
            obs['pending_release_tasks'] = len(db.connection_release_task_manager.tasks)
            obs['in_use'] = len(pool._used)
            obs['out'] = len(out)
            obs['open_txn_sessions'] = sum(1 for s in eng.sessions if s.in_txn or s.undo)
            obs['pending_writes'] = sum(len(s.undo) for s in eng.sessions)
            obs['gate_owner'] = eng.gate.owner is not None
            # Data-level reading.  minimysql keeps uncommitted writes in place (undo log), so this reading INCLUDES what is still
            # pending on pooled connections -- exactly what their next START TRANSACTION would commit implicitly.
            s = eng.connect()
            try:
                obs['table'] = {r['id']: r['v'] for r in s.query('SELECT id, v FROM t')}
                obs['log'] = sorted(r['tag'] for r in s.query('SELECT tag FROM log'))
            finally:
                eng.close_session(s)
            pool._acquire, pool.release = real_acquire, real_release
            await db.async_close()

        from vlib.aiosched import Deadlock, Livelock
        try:
            loop.run_until_complete(main())
        except (Deadlock, Livelock) as e:
            obs['hang'] = f'{type(e).__name__}: {e}'[:300]
    finally:
        U.random = saved_random
        eng.fault_hook = None
        obs['leaked_tasks'] = close_loop(loop)
    return obs


def run_case(case):
    fails = []
    mode, body, faults = case['mode'], case['body'], case['faults']
    if not valid_case(case):
        return False, ['invalid_case_skipped'], []
    exp = model(mode, body, faults, retrying=True)
    obs = execute(case)
    if obs.get('hang'):
        return False, [f'mode_{mode}', 'hang'], [('operation-hangs', 'the operation returns or raises',
                                                  f'{mode} body={body} faults={faults} pool={case.get("pool", "aiomysql")}: {obs["hang"]}')]
    stream = mode in STREAM_MODES
    if stream and len(obs['attempt_times']) != exp['attempts']:
        exp = model(mode, body, faults, retrying=False)     # accepted alternative for async-generator reads (see ASSUMPTIONS)
    pool_mode = effective_pool(case)
    classes = {f'mode_{mode}', f'outcome_{exp["outcome"][0]}', f'attempts_{min(exp["attempts"], 4)}', f'pool_{pool_mode}'}
    for a, p, e in obs['fired']:
        classes.add(f'fired_{e}')
        classes.add('fired_at_' + (p if isinstance(p, str) else 'statement'))
        if not isinstance(p, str) and p >= 1:
            classes.add('fired_at_statement_ge1')
    for a, p, e in exp['after_write']:
        # a fault placed behind >= 1 successful write of the same attempt: the connection holds pending writes when the error arrives
        classes.add('fault_after_successful_write')
        classes.add('fault_after_successful_write_' + server_effect(e, p))
        classes.add('fault_after_successful_write_' + e)
        classes.add('fault_after_successful_write_at_' + ('commit' if p == 'commit' else 'statement'))
        if ERRORS[e][2] and a < exp['attempts']:
            classes.add('retried_after_pending_writes')
            classes.add('retried_after_pending_writes_' + e)
    if pool_mode != case.get('pool', 'aiomysql'):
        classes.add('excluded_reuse_pool_client_interrupted_commit')
    if obs.get('client_interrupted_commit'):
        classes.add('client_interrupted_commit_relies_on_pool_close')
    if exp['outcome'][0] == 'raise' and exp['fired_after_write']:
        classes.add('gave_up_after_writes_nothing_visible')
    if stream and exp['attempts'] == 1 and obs['fired'] and ERRORS[obs['fired'][0][2]][2]:
        classes.add('stream_transient_not_retried')
    nontrivial = bool(exp['fired_after_write'])
    n_att = len(obs['attempt_times'])
    desc = f'{mode} body={body} faults={faults} pool={pool_mode}'
    fired = obs['fired']
    last = fired[-1] if fired else None

    # ---- retry decision / invocation count
    if n_att < exp['attempts']:
        # the operation gave up on an error the statement calls transient
        lastname = obs['outcome'][1] if obs['outcome'][0] == 'raise' else None
        if lastname == 'OE1205':
            sig = 'lock-wait-timeout-OperationalError-1205-not-retried'
        elif lastname in ERRORS and ERRORS[lastname][2]:
            sig = f'transient-not-retried-{lastname}'
        else:
            sig = 'gave-up-early'
        fails.append((sig, 'a transactional operation is retried after deadlocks, lock-wait timeouts, lost connections and connection limits',
                      f'{desc}: {n_att} attempt(s), expected {exp["attempts"]}; outcome {obs["outcome"]} (expected {exp["outcome"]})'))
    elif n_att > exp['attempts']:
        idx = exp['attempts'] - 1
        culprit = next((f for f in fired if f[0] == idx + 1), None)
        cname = culprit[2] if culprit else (exp['outcome'][1] if exp['outcome'][0] == 'raise' else 'none')
        fails.append((f'retried-nontransient-{cname}', 'is not retried after any other error',
                      f'{desc}: attempted {n_att} times, expected {exp["attempts"]} (attempt {idx + 1} ended with {cname})'))
    else:
        if tuple(obs['outcome']) != tuple(exp['outcome']):
            if obs['outcome'][0] == 'ok' and exp['outcome'][0] == 'raise':
                sig = 'error-swallowed'
            elif obs['outcome'][0] == 'raise' and exp['outcome'][0] == 'ok':
                sig = 'spurious-error'
            else:
                sig = 'wrong-error'
            fails.append((sig, 'any other error propagates to the caller; success is returned',
                          f'{desc}: outcome {obs["outcome"]}, expected {exp["outcome"]}'))
        if mode in ('tx', 'tx_ro') and obs['body_calls'] != exp['body_calls']:
            fails.append(('body-call-count', 'the body is invoked once per attempt that obtained a transaction',
                          f'{desc}: body invoked {obs["body_calls"]} times, expected {exp["body_calls"]}'))
    # ---- atomicity / effect exactly once, at the data level (t and the multiset of log rows; pending writes of pooled connections
    # count: see execute)
    got = (obs['table'], obs['log'])
    want = (exp['table'], sorted(exp['log']))

    def show(x):
        return f't={sorted(x[0].items())} log={x[1]}'
    if got != want and n_att == exp['attempts']:
        extra = ''
        if last is not None:
            extra = f'; last fault {last}'
        if obs['pending_writes']:
            extra += f'; {obs["pending_writes"]} write(s) of it still pending on a pooled connection'
        if obs['implicit_commits']:
            extra += f'; {obs["implicit_commits"]} START TRANSACTION implicitly committed a previous attempt'
        dup = exp['outcome'][0] == 'ok' and any(obs['log'].count(x) > sorted(exp['log']).count(x) for x in set(obs['log']))
        gave_up = exp['outcome'][0] == 'raise'
        sig = 'writes-applied-twice' if dup else 'gave-up-but-writes-visible' if gave_up and want == (INITIAL, []) else 'partial-writes'
        fails.append((sig, 'no retried or failed attempt leaves partial writes behind',
                      f'{desc}: tables {show(got)}, expected {show(want)}{extra}'))
    elif got != want:
        # attempt count already wrong: still judge atomicity against "some prefix of attempts committed exactly once"
        ok = [(dict(INITIAL), [])]
        for r in (True, False):
            m2 = model(mode, body, faults, retrying=r)
            ok.append((m2['table'], sorted(m2['log'])))
        if got not in ok:
            fails.append(('partial-writes', 'no retried or failed attempt leaves partial writes behind',
                          f'{desc}: tables {show(got)} are neither the initial tables nor one committed attempt'))
    # ---- connections
    if obs['acquired'] != obs['released'] or obs['double_release'] or obs['in_use'] or obs['out'] or obs['pending_release_tasks']:
        fails.append(('connection-leak', 'every acquired connection is released exactly once',
                      f'{desc}: acquired {obs["acquired"]}, released {obs["released"]}, released twice {obs["double_release"]}, '
                      f'still in use {obs["in_use"]}, release tasks pending {obs["pending_release_tasks"]}'))
    if obs['released_in_txn']:
        a0, pend = obs['released_in_txn'][0]
        culprit = next((f for f in fired if f[0] == a0), None)
        fails.append(('connection-released-inside-transaction', 'no retried or failed attempt leaves partial writes behind: every attempt '
                      'is closed by COMMIT or ROLLBACK before its connection goes back to the pool',
                      f'{desc}: the connection of attempt {a0} was handed back to the pool inside an open transaction with {pend} '
                      f'pending row change(s) (fault of that attempt: {culprit}); a pool that reuses it commits them at the next START '
                      f'TRANSACTION, aiomysql drops the connection'))
    if obs['implicit_commits']:
        fails.append(('implicit-commit-of-failed-attempt', 'no retried or failed attempt leaves partial writes behind',
                      f'{desc}: {obs["implicit_commits"]} START TRANSACTION statement(s) ran on a connection that still had a transaction '
                      f'open and committed it implicitly'))
    if obs['open_txn_sessions'] or obs['gate_owner']:
        fails.append(('open-transaction-left', 'no connection is left inside a transaction',
                      f'{desc}: {obs["open_txn_sessions"]} session(s) still in a transaction, gate held: {obs["gate_owner"]}'))
    if obs['leaked_tasks']:
        fails.append(('leaked-task', 'no background task outlives the operation', f'{desc}: {obs["leaked_tasks"]} task(s) pending'))
    # ---- back-off
    times = obs['attempt_times']
    for k in range(1, len(times)):
        ms = (times[k] - times[k - 1]) * 1000.0
        lo, hi = bounds(k)
        if not (lo - 1e-3 <= ms <= hi + 1e-3):
            fails.append(('backoff-bounds', 'sleeps between tries within the jittered exponential bounds',
                          f'{desc}: retry {k} slept {ms:.3f} ms, bounds [{lo}, {hi}]'))
            break
    if exp['attempts'] == 1 and n_att == 1 and obs.get('end_time', 0) != (times[0] if times else obs.get('end_time', 0)):
        fails.append(('slept-before-raise', 'a non-transient error propagates at once', f'{desc}: time advanced without a retry'))
    return nontrivial, sorted(classes), fails


# ---------------------------------------------------------------------------------------------- enumeration / generation
def enum_cases(shape_idx):
    mode, body = SHAPES[shape_idx]
    pos = positions(body)
    last_stmt = len(body) - 1
    multi = mode == 'tx' and len(body) >= 2
    n = 0
    for a in (1, 2, 3):
        prefix = [[b, last_stmt, 'OE1213'] for b in range(1, a)]
        for pi, p in enumerate(pos):
            for ei, e in enumerate(ERR_NAMES):
                n += 1
                # multi-statement transactions: a fault at the first attempt under BOTH pools, otherwise alternating
                pools = POOLS if (multi and a == 1) else (POOLS[(shape_idx + a + pi + ei) % 2],)
                for pool in pools:
                    yield dict(mode=mode, body=body, faults=prefix + [[a, p, e]], jitter=[(a + len(e)) % 4], pool=pool)
    # a lock wait timeout behind the writes of EVERY earlier attempt (the prefix above uses deadlocks)
    if multi:
        for e in ('OE1205', 'IE1205'):
            for pool in POOLS:
                yield dict(mode=mode, body=body, faults=[[1, last_stmt, e], [2, 'commit', e], [3, max(1, last_stmt - 1), e]],
                           jitter=[1], pool=pool)
    for pool in POOLS:
        yield dict(mode=mode, body=body, faults=[], jitter=[0], pool=pool)


def plan(tier):
    n = 2000 if tier == 'quick' else 40000
    groups = [[] for _ in range(8)]
    for i in range(len(SHAPES)):
        groups[i % 8].append(i)
    return [dict(kind='enum', shapes=g) for g in groups] + [dict(kind='hyp', n=n) for _ in range(8)]


def _strategy():
    from hypothesis import strategies as st
    ids = st.integers(1, 5)
    dv = st.sampled_from([-2, 1, 3])
    stmt = st.one_of(
        st.tuples(st.just('ins'), ids, st.integers(0, 9)).map(list),
        st.tuples(st.just('upd'), ids, dv).map(list),
        st.tuples(st.just('updall'), dv).map(list),
        st.tuples(st.just('del'), ids).map(list),
        st.just(['sel']), st.just(['sel1']),
        st.tuples(st.just('call'), ids, st.integers(0, 9)).map(list),
        st.tuples(st.just('many'), st.lists(st.tuples(st.integers(1, 7), st.integers(0, 9)).map(list), min_size=1, max_size=3)).map(list),
        st.tuples(st.just('log'), st.integers(0, 3)).map(list),
    )
    tx = st.tuples(st.just('tx'), st.lists(stmt, min_size=1, max_size=5))
    # a statement that certainly writes when it is the FIRST of a transaction on the preloaded tables {1:10, 2:20} / empty log
    fresh = st.integers(3, 5)
    first_write = st.one_of(
        st.tuples(st.just('log'), st.integers(0, 3)).map(list),
        st.tuples(st.just('ins'), fresh, st.integers(0, 9)).map(list),
        st.tuples(st.just('upd'), st.integers(1, 2), dv).map(list),
        st.tuples(st.just('updall'), dv).map(list),
        st.tuples(st.just('del'), st.integers(1, 2)).map(list),
        st.tuples(st.just('call'), fresh, st.integers(0, 9)).map(list),
        st.tuples(st.just('many'), st.lists(st.tuples(st.integers(3, 7), st.integers(0, 9)).map(list), min_size=1, max_size=3,
                                            unique_by=lambda x: x[0])).map(list),
    )
    tx_w = st.tuples(st.just('tx'), st.tuples(first_write, st.lists(stmt, min_size=1, max_size=4)).map(lambda t: [t[0]] + t[1]))
    upd = st.tuples(st.just('upd'), ids, dv).map(list)
    ins = st.tuples(st.just('ins'), ids, st.integers(0, 9)).map(list)
    many = st.tuples(st.just('many'), st.lists(st.tuples(st.integers(1, 7), st.integers(0, 9)).map(list), min_size=1, max_size=4)).map(list)
    single = st.one_of(
        st.tuples(st.just('db_update'), st.one_of(upd, ins, st.tuples(st.just('del'), ids).map(list)).map(lambda s: [s])),
        st.tuples(st.just('db_insertone'), ins.map(lambda s: [s])),
        st.tuples(st.just('db_many_ins'), many.map(lambda s: [s])),
        st.tuples(st.just('db_many_upd'), st.lists(upd, min_size=1, max_size=4)),
        st.tuples(st.just('db_call'), st.tuples(st.just('call'), ids, st.integers(0, 9)).map(list).map(lambda s: [s])),
        st.tuples(st.just('db_just'), st.one_of(upd, st.tuples(st.just('del'), ids).map(list)).map(lambda s: [s])),
        st.tuples(st.just('db_fetchone'), st.one_of(upd, st.just(['sel1'])).map(lambda s: [s])),
        st.tuples(st.just('db_fetchall'), st.just([['sel']])),
    )
    shape = st.one_of(tx, tx, single)
    jit = st.lists(st.integers(0, 3), min_size=1, max_size=4)
    pools = st.sampled_from(POOLS)

    def any_fault(body):
        transient = [e for e in ERR_NAMES if ERRORS[e][2]]
        return st.tuples(st.integers(1, 3), st.sampled_from(positions(body)),
                         st.one_of(st.sampled_from(transient), st.sampled_from(ERR_NAMES))).map(list)

    def faults_for(sh):
        mode, body = sh
        return st.builds(lambda fs, j, pl: dict(mode=mode, body=body, faults=fs, jitter=j, pool=pl),
                         st.lists(any_fault(body), min_size=2, max_size=4), jit, pools)

    def after_write_for(sh):
        # production *after_write*: in each of the attempts 1..a one retried error at a position BEHIND the first statement (which
        # certainly wrote), i.e. the error reaches a connection that holds pending writes; then 0-2 arbitrary further faults (first
        # fault per (attempt, position) wins, so the constructed ones stay in force)
        mode, body = sh
        behind = list(range(1, len(body))) + ['commit']
        one = st.tuples(st.sampled_from(behind), st.sampled_from(RETRIED))
        return st.builds(lambda fs, extra, j, pl: dict(mode=mode, body=body, jitter=j, pool=pl,
                                                      faults=[[i + 1, p, e] for i, (p, e) in enumerate(fs)] + extra),
                         st.lists(one, min_size=1, max_size=3), st.lists(any_fault(body), max_size=2), jit, pools)
    return st.one_of(shape.flatmap(faults_for), tx_w.flatmap(after_write_for))


def run_shard(spec, seed, tier):
    from vlib.runner import known_signatures
    res = Result()
    if spec['kind'] == 'enum':
        res.exhaustive = True
        known = set(known_signatures(PROPERTY))
        for si in spec['shapes']:
            for case in enum_cases(si):
                nt, cls, fl = run_case(case)
                res.case(case, nt, cls)
                for s, c, m in fl:
                    if s in known:
                        res.known_hits[s] = res.known_hits.get(s, 0) + 1
                    else:
                        res.fail(s, c, m, case)
        return res
    from vlib.hyp import search
    search(res, PROPERTY, _strategy(), run_case, spec['n'], seed)
    return res


def replay(case):
    nt, cls, fl = run_case(case)
    return [dict(signature=s, clause=c, message=m, case=case) for s, c, m in fl]
