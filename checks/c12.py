"""C12 — resource requests are never under-provisioned.

Every generated job resource request is pushed through the REAL resource section of batch.front_end.front_end._create_jobs
(after the REAL job validator, as the route handlers do) on a batchsim World whose inst_colls / pools / product tables were
rewritten to a generated configuration.  The outcome (inserted jobs row + stored spec, or the 400 reason) is judged by an
oracle written from the property statement and the documented per-core memory / machine-type / storage-limit tables, all
hand-copied below; none of the repository's conversion functions is called by the oracle.
"""
from __future__ import annotations

import asyncio
import contextvars
import copy
import json
import os
import traceback
from fractions import Fraction

from vlib import hostenv
from vlib.runner import Result

PROPERTY = 'C12'
LEVEL = 'exploration'
RULE = ('case = cloud (gcp | azure, front_end.CLOUD patched per case) x generated configuration (1-6 pools: worker_type and '
        'worker_cores from the cloud\'s documented tables, preemptible, label in {"",x}, local-SSD vs external disk obeying the '
        'driver\'s pool-config form rules, boot disk, some pools / the job-private collection deliberately of the other cloud, '
        'generated resource rates; configuration loaded alternately by InstanceCollectionConfigs.create and .refresh) x 1-12 requests, 3 in 4 aimed at one configured pool (its label, preemptibility, packable cpu values up to and beyond worker_cores); '
        'when the configuration has a pool of the case\'s cloud whose worker_cores C is not a power of two (gcp 96; azure D48, E20/E48, F48/F72) 1 request in 4 '
        'is aimed at that pool\'s window (P2, C], P2 = largest power of two below C: cpu mostly small and packable, else P2 .. C +- 250m, C+1, 2*P2; '
        'memory = the pool\'s per-core share of P2-0.25 .. C+0.25 cores to the mcpu (bytes, Ki, Mi, MiB, Gi, M, G spellings rounded up) and the exact '
        'window edges +-1 byte - requests that fit one worker but that no packable core count <= C can hold, class nonpow2_window '
        '(counted per request whose needed cores lie in the window of some candidate pool, however it was generated) '
        '(resources dict: cpu / memory / storage strings from the size grammar incl. '
        'invalid and sub-mcpu values, values on and 1 byte around every pool\'s power-of-two memory and core boundaries, '
        'lowmem|standard|highmem, storage 0 / tiny / ~10Gi / around the cloud maximum / huge, machine_type valid / other cloud / '
        'bogus, pool_label, preemptible, forbidden combinations, jvm process). Each request = one validate_and_clean_jobs + one '
        '_create_jobs call; result read back from jobs row + stored spec file. Non-trivial case: some accepted request was '
        'granted more cores than it asked for (memory-driven / packability adjustment) or had >= 2 matching candidate pools; '
        'distinct by canonical case. '
        'REQUESTS IN FLIGHT DURING THE PERIODIC REFRESH (generated-concurrency mode, as World.op_par does it for the SQL-level checks): 1 '
        'request in 5 carries par = {sched, start, with?}: the front end\'s own periodic task body front_end._refresh(app) '
        '(InstanceCollectionConfigs.refresh of the app\'s live configs object) and the _create_jobs call of that request - 1 in 4 times '
        'together with a second job-creation request - run as concurrent asyncio tasks on the virtual loop; task i first yields start[i] '
        'times (0-4; task 0 = the refresh), then every SQL statement any of them sends is a schedule point at which sched (0-6 ints 0-4 = '
        'number of sleep(0) yields) decides who goes next. The pool rows are not touched. 3 in 4 of these requests are built to be held by '
        'an existing pool of the case\'s cloud (packable cpu <= worker_cores, the pool\'s memory class or bytes within the per-core share of '
        'a packable core count, small storage, the pool\'s label and preemptibility), the rest come from the general request generator. '
        'Each answer is judged by the same oracle as a sequential one (in particular: rejected as unsatisfiable only if no configured '
        'collection could hold it) and, unless the validator rejected it, the same request is then repeated sequentially (fresh job id, same '
        'pool rows) and must get the same answer (status + documented cause, or collection + granted cores + stored resources); a refresh '
        'that raises is a failure. Classes: refresh_with_requests_in_flight, one_/two_requests_during_refresh, request_during_refresh, '
        'request_during_refresh_aimed_at_existing_pool, request_started_between_refresh_statements / '
        'refresh_started_between_request_statements (the statements really alternated), same_answer_as_sequential.')
ASSUMPTIONS = [
    'cpu requests are quantised to whole mcpu by floor (parse_cpu_in_mcpu contract, checked by C25); "granted cores >= request" is '
    'judged against that quantised value (a request such as "0.2505" is served with 250 mcpu; counted in class sub_mcpu_truncated)',
    'per-core memory table as documented in the repo: gcp n1 standard 3840 MiB, highmem 6656 MiB, highcpu 924 MiB; azure D 4096, E 8192, '
    'F 2048 MiB; storage limits 64 TiB (gcp) / 32 TiB (azure); minimum non-zero disk 10 GiB',
    'pool configurations obey what driver/main.py pool_config_update accepts (local SSD xor external disk, unreserved disk >= 0, '
    'azure boot disk 30 GB); legacy un-regioned products (compute/n1-preemptible, disk/pd-ssd, ...) exist in latest_product_versions '
    'as migration 043 creates them in every deployment',
    'azure is exercised by setting batch.front_end.front_end.CLOUD = "azure" for the case (the module constant is read from the '
    'environment at import); everything else is the unmodified front end',
    'transactions execute one at a time (minimysql); one request per _create_jobs call, update never committed',
    'in-flight mode: interleavings are explored at SQL statement boundaries (and task arrival) of one front-end process; the refresh is '
    'the only writer of the configuration object and the inst_colls / pools / resources / latest_product_versions rows do not change '
    'while requests are in flight, so the sequential answer is the only acceptable one',
    'machine_type "" may be read either as an unknown machine type (400) or as no machine type; only a crash is reported for it',
    'a crash carrying the stack signature of one of the two known non-power-of-two-pool findings is attributed to that finding only when the '
    'finding\'s trigger holds by the oracle\'s own brute force: the request is resolved by pricing (no machine type, no named memory class) and '
    'some candidate pool of the offending kind can hold it with a packable core count <= worker_cores (only then does the real selection reach '
    'price_per_hour for that pool); the same crash outside the trigger is reported as granted-beyond-worker:* (class crash_outside_known_trigger)',
]
TRUSTED = ['vlib/minimysql (jobs insert + triggers), vlib/batchsim World start-up', 'documented tables and brute-force feasibility '
           'search in checks/c12.py', 'checks/c25.py reference recogniser/exact parser (independent of hailtop parse.py)',
           'submit_during_refresh in checks/c12.py (concurrent tasks, engine.sched_hook schedule points, statement order by task context)']

MIB = 1024 ** 2
GIB = 1024 ** 3

# ------------------------------------------------------------------------------------------------------------------------
# documented tables (hand-copied from the cloud documentation quoted in the repo comments; NOT imported from the repo)
DOC = {
    'gcp': dict(
        memclass={'lowmem': 'highcpu', 'standard': 'standard', 'highmem': 'highmem'},
        per_core_mib={'standard': 3840, 'highmem': 6656, 'highcpu': 924},
        pool_cores={'highcpu': [2, 4, 8, 16, 32, 64, 96], 'standard': [1, 2, 4, 8, 16, 32, 64, 96],
                    'highmem': [2, 4, 8, 16, 32, 64, 96]},
        max_storage_gib=64 * 1024,
    ),
    'azure': dict(
        memclass={'lowmem': 'F', 'standard': 'D', 'highmem': 'E'},
        per_core_mib={'D': 4096, 'E': 8192, 'F': 2048},
        pool_cores={'D': [2, 4, 8, 16, 32, 48, 64], 'E': [2, 4, 8, 16, 20, 32, 48, 64], 'F': [2, 4, 8, 16, 32, 48, 64, 72]},
        max_storage_gib=32 * 1024,
    ),
}


def _gcp_machines():
    t = {}
    for c in [1, 2, 4, 8, 16, 32, 64]:
        t[f'n1-standard-{c}'] = (c, c * 3840 * MIB)
    for c in [2, 4, 8, 16, 32, 64, 96]:
        t[f'n1-highmem-{c}'] = (c, c * 6656 * MIB)
        t[f'n1-highcpu-{c}'] = (c, c * 924 * MIB)
    for k in list(t):
        t[k + '+nvidia-tesla-t4+1'] = t[k]
    for c in [4, 8, 12, 16, 24, 32, 48, 96]:
        t[f'g2-standard-{c}'] = (c, 4 * c * GIB)
    for n in [1, 2, 4, 8]:
        t[f'a2-highgpu-{n}g'] = (12 * n, 85 * n * GIB)
        t[f'a2-ultragpu-{n}g'] = (12 * n, 170 * n * GIB)
    t['a2-megagpu-16g'] = (96, 1360 * GIB)
    return t


def _azure_machines():
    t = {}
    for c in DOC['azure']['pool_cores']['D']:
        for f in ('ds', 's'):
            t[f'Standard_D{c}{f}_v4'] = (c, 4 * c * GIB)
    for c in DOC['azure']['pool_cores']['E']:
        for f in ('ds', 's'):
            t[f'Standard_E{c}{f}_v4'] = (c, 8 * c * GIB)
    for c in DOC['azure']['pool_cores']['F']:
        t[f'Standard_F{c}s_v2'] = (c, 2 * c * GIB)
    return t


MACHINES = {'gcp': _gcp_machines(), 'azure': _azure_machines()}
AZURE_DISK_NUMBERS = ['1', '2', '3', '4', '6', '10', '15', '20', '30', '40', '50', '60', '70', '80']
MEMCLASSES = ('lowmem', 'standard', 'highmem')
RES_KEYS = ('cpu', 'memory', 'storage', 'machine_type', 'pool_label', 'preemptible')
JP_NAME = 'jp'


def other(cloud):
    return 'azure' if cloud == 'gcp' else 'gcp'


# ------------------------------------------------------------------------------------------------------------------------
# independent reading of a request
def _exact(s, kind):
    from checks.c25 import exact
    return exact(s, kind)


def _cpu_fraction_mcpu(s):
    from checks.c25 import ref_parse
    r = ref_parse(s, 'cpu')
    if r is None:
        return None
    num, unit = r
    v = Fraction(num)
    if unit == 'm':
        v = v / 1000
    return v * 1000


def wellformed(req):
    """What the documented job schema accepts for the resources section (own recogniser)."""
    res = req.get('res')
    if res is None:
        return True
    if not isinstance(res, dict):
        return False
    for k, v in res.items():
        if k not in RES_KEYS:
            return False
        if k in ('cpu', 'storage'):
            if not isinstance(v, str) or _exact(v, k) is None:
                return False
        elif k == 'memory':
            if not isinstance(v, str) or (v not in MEMCLASSES and _exact(v, 'memory') is None):
                return False
        elif k in ('machine_type', 'pool_label'):
            if not isinstance(v, str):
                return False
        elif k == 'preemptible':
            if type(v) is not bool:
                return False
    return True


def valid_mcpu(m):
    if m is None or m <= 0 or (4 * m) % 1000 != 0:
        return False
    q = 4 * m // 1000
    return q & (q - 1) == 0


def causes(req, cloud):
    """Documented validation causes whose predicate holds for this (well-formed) request."""
    res = req.get('res') or {}
    out = set()
    mt = res.get('machine_type')
    has_mt = 'machine_type' in res
    if has_mt and mt not in MACHINES[cloud]:
        out.add('unknown-machine-type')
    if has_mt and mt and ('cpu' in res or 'memory' in res):
        out.add('cpu-mem-with-machine-type')
    if has_mt and mt and res.get('pool_label'):
        out.add('label-with-machine-type')
    if req.get('jvm'):
        if 'cpu' in res and _exact(res['cpu'], 'cpu') not in (1000, 2000, 4000, 8000):
            out.add('jvm-cpu')
        if res.get('memory') == 'lowmem':
            out.add('jvm-lowmem')
        if has_mt:
            out.add('jvm-machine-type')
    if not has_mt and not valid_mcpu(_exact(res.get('cpu', '1'), 'cpu')):
        out.add('bad-cpu')
    return out


REASONS = [('unknown machine type', 'unknown-machine-type'),
           ('cannot specify cpu and memory with machine_type', 'cpu-mem-with-machine-type'),
           ('cannot specify pool label with machine_type', 'label-with-machine-type'),
           ('invalid cpu for jvm jobs', 'jvm-cpu'),
           ('jvm jobs cannot be on lowmem machines', 'jvm-lowmem'),
           ('jvm jobs may not specify machine_type', 'jvm-machine-type'),
           ('cpu must be a power of two with a min of 0.25', 'bad-cpu'),
           ('storage must be convertable to bytes', 'bad-storage'),
           ('are unsatisfiable', 'unsat')]


def classify_reason(reason):
    for needle, cause in REASONS:
        if needle in (reason or ''):
            return cause
    return None


def interpret(req, cloud):
    """-> dict(kind='jp'|'pool', ...) for a request with no validation cause."""
    res = req.get('res') or {}
    doc = DOC[cloud]
    storage = _exact(res.get('storage', '0Gi'), 'storage')
    pre = res.get('preemptible', True)
    if 'machine_type' in res:
        cores, mem = MACHINES[cloud][res['machine_type']]
        return dict(kind='jp', machine_type=res['machine_type'], cores=cores, mem=mem, storage=storage, pre=pre)
    cpu_s = res.get('cpu', '1')
    mcpu = _exact(cpu_s, 'cpu')
    mem_s = res.get('memory', 'standard')
    if mem_s in doc['memclass']:
        wt = doc['memclass'][mem_s]
        mem = Fraction(mcpu * doc['per_core_mib'][wt] * MIB, 1000)
    else:
        wt = None
        mem = _exact(mem_s, 'memory')
    return dict(kind='pool', mcpu=mcpu, cpu_exact=_cpu_fraction_mcpu(cpu_s), wt=wt, mem=mem, storage=storage, pre=pre,
                label=res.get('pool_label') or '')


def core_share(cloud, wt, mcpu):
    return Fraction(mcpu * DOC[cloud]['per_core_mib'][wt] * MIB, 1000)


def pool_candidates(case, it):
    cloud = case['cloud']
    return [(i, p) for i, p in enumerate(case['pools'])
            if p['cloud'] == cloud and bool(p['pre']) == bool(it['pre']) and p['label'] == it['label']
            and (it['wt'] is None or p['wt'] == it['wt'])]


def feasible_in_pool(cloud, p, it):
    """Brute force over the packable core counts of one worker."""
    if it['storage'] > DOC[cloud]['max_storage_gib'] * GIB:
        return None
    c = 250
    while c <= p['cores'] * 1000:
        if c >= it['mcpu'] and core_share(cloud, p['wt'], c) >= it['mem']:
            return c
        c *= 2
    return None


def is_pow2(n):
    return n > 0 and n & (n - 1) == 0


def pow2_below(n):
    """Largest power of two strictly below n (n >= 2)."""
    p = 1
    while p * 2 < n:
        p *= 2
    return p


def in_nonpow2_window(cloud, p, it):
    """The request fits the cores and memory of one worker of pool p, but no packable (250 mcpu x 2^k) core count that fits
    the worker can hold it: its needed cores lie in (largest power of two below worker_cores, worker_cores].  Only pools whose
    worker_cores is not a power of two have such a window; packability would round the grant beyond the worker."""
    top = p['cores'] * 1000
    return (not is_pow2(p['cores']) and it['storage'] <= DOC[cloud]['max_storage_gib'] * GIB
            and feasible_in_pool(cloud, p, it) is None and it['mcpu'] <= top and core_share(cloud, p['wt'], top) >= it['mem'])


# The two known crash findings (known_findings.json) and the exact trigger condition of each: the cheapest-price selection
# prices (price_per_hour) a candidate pool only after that pool answered the request with a grant, so the crash is that
# finding only if some candidate pool of the offending kind can hold the request on one worker.  A crash with the same
# signature outside its trigger means a pool that cannot hold the request was granted and priced - a different failure.
KNOWN_CRASH_TRIGGER = {
    'crash:AssertionError:batch/instance_config.py:quantified_resources':
        lambda cloud, p: not is_pow2(p['cores']) and not (cloud == 'gcp' and p['wt'] == 'standard' and p['cores'] == 96),
    'crash:AssertionError:gcp/instance_config.py:create':
        lambda cloud, p: cloud == 'gcp' and p['wt'] == 'standard' and p['cores'] == 96,
}


def pricing_view(case, req):
    """-> (it, candidates) if the request is one the front end resolves by pricing candidate pools (no validation cause, no
    machine type, no named memory class), else (None, [])."""
    cloud = case['cloud']
    res = req.get('res')
    if isinstance(res, dict) and res.get('machine_type') == '':
        req = dict(req, res={k: v for k, v in res.items() if k != 'machine_type'})
    if causes(req, cloud):
        return None, []
    it = interpret(req, cloud)
    if it['kind'] != 'pool':
        return None, []
    return it, pool_candidates(case, it)


# ------------------------------------------------------------------------------------------------------------------------
# configuration
def normalise_pool(p):
    """Apply the pool-config form rules of driver/main.py to a generated pool (never filters, only repairs)."""
    p = dict(p)
    cloud = p['cloud']
    cores = p['cores']
    if p['ssd']:
        size = 375 if cloud == 'gcp' else int(cores * {'D': 37.5, 'E': 37.5, 'F': 8}[p['wt']])
        if size - 30 - 5 * cores < 0:
            p['ssd'] = False
    if p['ssd']:
        p['ext'] = 0
    else:
        p['ext'] = max(int(p.get('ext') or 0), 30 + 5 * cores, 1)
        if cloud == 'azure':
            p['ext'] = min(p['ext'], 32 * 1024)
    if cloud == 'azure':
        p['boot'] = 30
    else:
        p['boot'] = max(10, int(p.get('boot') or 10))
    return p


def _rate(case, i):
    r = case.get('rates') or [1]
    return float(r[i % len(r)]) * 1e-9


async def install_config(w, case):
    m = w.m
    s = w.engine.connect()
    try:
        s.execute('DELETE FROM pools')
        s.execute('DELETE FROM inst_colls')
        for i, p in enumerate(case['pools']):
            name = f'p{i}'
            s.execute('INSERT INTO inst_colls (`name`, is_pool, boot_disk_size_gb, max_instances, max_live_instances, cloud, '
                      'max_new_instances_per_autoscaler_loop, autoscaler_loop_period_secs, worker_max_idle_time_secs) '
                      'VALUES (%s, 1, %s, 10, 8, %s, 10, 15, 30)', (name, p['boot'], p['cloud']))
            s.execute('INSERT INTO pools (`name`, worker_type, worker_cores, worker_local_ssd_data_disk, '
                      'worker_external_ssd_data_disk_size_gb, enable_standing_worker, standing_worker_cores, preemptible, '
                      'standing_worker_max_idle_time_secs, job_queue_scheduling_window_secs, min_instances, label) '
                      'VALUES (%s, %s, %s, %s, %s, 0, %s, %s, 7200, 150, 0, %s)',
                      (name, p['wt'], p['cores'], int(bool(p['ssd'])), p['ext'], p['cores'], int(bool(p['pre'])), p['label']))
        s.execute('INSERT INTO inst_colls (`name`, is_pool, boot_disk_size_gb, max_instances, max_live_instances, cloud, '
                  'max_new_instances_per_autoscaler_loop, autoscaler_loop_period_secs, worker_max_idle_time_secs) '
                  'VALUES (%s, 0, %s, 10, 8, %s, 10, 15, 30)', (JP_NAME, 30 if case['jp_cloud'] == 'azure' else 10, case['jp_cloud']))
        # legacy (un-regioned) gcp products: select_cheapest_price_pool prices with location = region, and
        # region_from_location('us-central1') == 'us', so every gcp price lookup falls back to these (as in production)
        prods = []
        k = 0
        for p in ('preemptible', 'nonpreemptible'):
            for fam in ('compute', 'memory'):
                prods.append((f'{fam}/n1-{p}', _rate(case, k)))
                k += 1
        prods.append(('disk/local-ssd', _rate(case, k)))
        prods.append(('disk/pd-ssd', _rate(case, k + 1)))
        if case['cloud'] == 'azure' or any(p['cloud'] == 'azure' for p in case['pools']):
            for j, (mt, (cores, _mem)) in enumerate(sorted(MACHINES['azure'].items())):
                for q, pre in enumerate(('spot', 'regular')):
                    prods.append((f'az/vm/{mt}/{pre}/eastus', _rate(case, j + q) * cores * (1 + 2 * q)))
            for fam in ('E', 'P'):
                for j, n in enumerate(AZURE_DISK_NUMBERS):
                    prods.append((f'az/disk/{fam}{n}_LRS/eastus', _rate(case, j + 3)))
            prods.append(('az/ip-fee/1024', _rate(case, 5)))
            prods.append(('az/service-fee', _rate(case, 6)))
        for prod, rate in prods:
            s.execute('INSERT INTO latest_product_versions (product, version, sku) VALUES (%s, %s, %s)', (prod, '1', None))
            s.execute('INSERT INTO resources (resource, rate) VALUES (%s, %s)', (prod + '/1', rate))
        s.execute('UPDATE resources SET deduped_resource_id = resource_id WHERE deduped_resource_id IS NULL')
    finally:
        w.engine.close_session(s)
    # both ways the front end obtains its configuration: the periodic refresh() of the start-up object, or a fresh create()
    if len(case['pools']) % 2:
        await w.app['inst_coll_configs'].refresh(w.db)
    else:
        w.app['inst_coll_configs'] = await m.icc.InstanceCollectionConfigs.create(w.db)


# ------------------------------------------------------------------------------------------------------------------------
def build_spec(idx, req, jar_prefix):
    if req.get('jvm'):
        process = {'type': 'jvm', 'jar_spec': {'type': 'jar_url', 'value': jar_prefix + '/c12.jar'}, 'command': ['x']}
    else:
        process = {'type': 'docker', 'command': ['true'], 'image': 'ubuntu'}
    spec = {'job_id': idx, 'process': process, 'always_run': False, 'absolute_job_group_id': 0}
    if req.get('res') is not None:
        spec['resources'] = copy.deepcopy(req['res'])
    return spec


def _is_not_supported(e):
    from vlib.minimysql import NotSupported
    seen = set()
    while e is not None and id(e) not in seen:
        if isinstance(e, NotSupported):
            return True
        seen.add(id(e))
        e = e.__cause__ or e.__context__
    return False


def _crash_signature(e):
    c = e
    while c.__cause__ is not None:
        c = c.__cause__
    frames = traceback.extract_tb(c.__traceback__)
    root = os.path.realpath(hostenv.REPO)
    inner = None
    for fr in frames:
        fn = os.path.realpath(fr.filename)
        if fn.startswith(root) or fn.startswith(hostenv.REPO):
            inner = fr
    if inner is None:
        return None, None      # nothing of the repository on the stack: a harness problem, not a finding
    where = f'{"/".join(inner.filename.split(os.sep)[-2:])}:{inner.name}'
    return f'crash:{type(c).__name__}:{where}', f'{type(c).__name__}: {str(c)[:300]} at {where}'


async def submit_call(w, case, bid, uid, idx, req, jar_prefix):
    """One request through the real validator + _create_jobs.  -> outcome dict (kind 'ok' still without what was stored)."""
    m = w.m
    from hailtop.utils.validate import ValidationError
    from batch.front_end.validate import validate_and_clean_jobs
    spec = build_spec(idx, req, jar_prefix)
    try:
        validate_and_clean_jobs([spec])
    except ValidationError as e:
        return dict(kind='validator', reason=getattr(e, 'reason', str(e)))
    try:
        await m.fe._create_jobs(w.userdata('u1'), [spec], bid, uid, w.app)
    except m.web.HTTPException as e:
        return dict(kind='http', status=e.status, reason=getattr(e, 'reason', None) or getattr(e, 'text', None))
    except Exception as e:  # noqa
        if _is_not_supported(e):
            raise
        sig, msg = _crash_signature(e)
        if sig is None:
            raise
        return dict(kind='crash', signature=sig, message=msg)
    return dict(kind='ok', jid=idx)      # update 1 of a fresh batch starts at job id 1


async def readback(w, bid, out):
    """what an accepted request left behind: the jobs row and the stored spec"""
    if out['kind'] != 'ok':
        return out
    m = w.m
    jid = out['jid']
    rows = w.q('SELECT inst_coll, cores_mcpu, spec, state FROM jobs WHERE batch_id = %s AND job_id = %s', (bid, jid))
    if len(rows) != 1:
        return dict(kind='ok', missing_row=True)
    token, start = await m.sw.SpecWriter.get_token_start_id(w.db, bid, jid)
    stored = json.loads(await w.app['file_store'].read_spec_file(bid, token, start, jid))
    return dict(kind='ok', inst_coll=rows[0]['inst_coll'], cores_mcpu=rows[0]['cores_mcpu'], db_spec=json.loads(rows[0]['spec']),
                resources=stored.get('resources'))


async def submit(w, case, bid, uid, idx, req, jar_prefix):
    return await readback(w, bid, await submit_call(w, case, bid, uid, idx, req, jar_prefix))


# ------------------------------------------------------------------------------------------------------------------------
# requests in flight while the front end's periodic refresh of the configuration runs
_TAG = contextvars.ContextVar('verif_c12_task_tag', default=None)


async def submit_during_refresh(w, case, bid, uid, items, jar_prefix, sched, starts):
    """items: [(job index, request)] (one or two).  The front end's own periodic task body (front_end._refresh(app) ->
    InstanceCollectionConfigs.refresh(db) of the app's configs object) and the job-creation calls run as concurrent asyncio tasks on the
    world's virtual loop; task i first yields starts[i] times (task 0 = the refresh), then every SQL statement any of them sends is a
    schedule point at which `sched` (small ints = number of sleep(0) yields) decides who goes next - as World.op_par does it.  The
    pool rows are not touched.  -> (outcomes, refresh error | None, statement order [(tag, sql)])"""
    m = w.m
    sched = list(sched)
    pos = [0]
    order = []

    async def shook(sess, sql):
        k = sched[pos[0] % len(sched)] if sched else 0
        pos[0] += 1
        for _ in range(k):
            await asyncio.sleep(0)

    def fhook(sess, phase, sql):
        if phase == 'statement':
            order.append((_TAG.get(), ' '.join(str(sql).split())[:50]))

    async def tagged(tag, delay, mk):
        _TAG.set(tag)          # this task's context (and that of every task it spawns, e.g. the gather inside refresh)
        for _ in range(delay):
            await asyncio.sleep(0)
        return await mk()

    async def do_refresh():
        f = getattr(m.fe, '_refresh', None)
        if f is not None:
            await f(w.app)
        else:
            await w.app['inst_coll_configs'].refresh(w.db)

    def delay(i):
        return int(starts[i]) if i < len(starts) else 0
    eng = w.engine
    saved_f, saved_s = eng.fault_hook, getattr(eng, 'sched_hook', None)
    eng.fault_hook, eng.sched_hook = fhook, shook
    try:
        tr = asyncio.ensure_future(tagged('refresh', delay(0), do_refresh))
        ts = [asyncio.ensure_future(tagged(f'req{j}', delay(j + 1),
                                           lambda idx=idx, req=req: submit_call(w, case, bid, uid, idx, req, jar_prefix)))
              for j, (idx, req) in enumerate(items)]
        got = await asyncio.gather(tr, *ts, return_exceptions=True)
    finally:
        eng.fault_hook, eng.sched_hook = saved_f, saved_s
    rerr = None
    if isinstance(got[0], BaseException):
        if _is_not_supported(got[0]) or not isinstance(got[0], Exception):
            raise got[0]
        sig, msg = _crash_signature(got[0])
        if sig is None:
            raise got[0]
        rerr = (sig, msg)
    outs = []
    for o in got[1:]:
        if isinstance(o, BaseException):
            raise o
        outs.append(await readback(w, bid, o))
    return outs, rerr, order


def same_answer(a, b):
    """is the answer given while the refresh was in flight the one the same request gets sequentially?"""
    if a['kind'] != b['kind']:
        return False
    if a['kind'] == 'http':
        return a['status'] == b['status'] and classify_reason(a['reason']) == classify_reason(b['reason'])
    if a['kind'] == 'crash':
        return a['signature'] == b['signature']
    if a['kind'] == 'ok':
        return all(a.get(k) == b.get(k) for k in ('missing_row', 'inst_coll', 'cores_mcpu', 'resources'))
    return True


def _short(out):
    if out['kind'] == 'ok':
        return f"placed in {out.get('inst_coll')!r} with {out.get('cores_mcpu')} mcpu, resources {out.get('resources')}"
    if out['kind'] == 'http':
        return f"HTTP {out['status']} {out['reason']!r}"
    if out['kind'] == 'crash':
        return f"raised {out['message']}"
    return f"validator: {out.get('reason')!r}"


def judge(case, req, out):
    """-> (classes, nontrivial, failures[(signature, clause, message)])"""
    cloud = case['cloud']
    doc = DOC[cloud]
    cls = ['req']
    fails = []
    desc = f'cloud={cloud} request={json.dumps(req, sort_keys=True)}'

    def fail(sig, clause, msg):
        fails.append((sig, clause, f'{msg}; {desc}; pools={json.dumps(case["pools"])} jp_cloud={case["jp_cloud"]}'))

    wf = wellformed(req)
    if out['kind'] == 'validator':
        cls.append('validator_rejected')
        if wf:
            fail('validator-rejects-wellformed', 'rejections are among the documented validation causes',
                 f'job validator rejected a well-formed resources section: {out["reason"]}')
        return cls, False, fails
    if not wf:
        fail('validator-accepts-illformed', 'ill-formed resource strings are rejected by validation',
             'job validator accepted an ill-formed resources section')
        return cls, False, fails
    cs = causes(req, cloud)
    if (req.get('res') or {}).get('machine_type') == '' and out['kind'] != 'crash':
        # an empty machine_type may legitimately be read either as a bogus machine type or as "no machine type"
        if out['kind'] == 'http' and classify_reason(out['reason']) in cs:
            cls.append('rej_' + classify_reason(out['reason']))
            return cls, False, fails
        req = dict(req, res={k: v for k, v in req['res'].items() if k != 'machine_type'})
        cs = causes(req, cloud)
    if out['kind'] == 'crash':
        cls.append('crash')
        sig = out['signature']
        pit, pcands = pricing_view(case, req)
        if pit is not None and any(in_nonpow2_window(cloud, p, pit) for _, p in pcands):
            cls.append('nonpow2_window')
        trigger = KNOWN_CRASH_TRIGGER.get(sig)
        if trigger is not None and not (pit is not None and pit['wt'] is None and any(
                trigger(cloud, p) and feasible_in_pool(cloud, p, pit) is not None for _, p in pcands)):
            # same stack as a known finding, but its trigger condition does not hold: not that finding
            cls.append('crash_outside_known_trigger')
            inwin = [f'p{i}' for i, p in pcands if trigger(cloud, p) and in_nonpow2_window(cloud, p, pit)] if pit is not None else []
            fail('granted-beyond-worker:' + sig.split(':')[-1], 'granted cores fit on one worker (a pool that cannot hold the request '
                 'on one worker is never granted / priced)',
                 f'_create_jobs raised {out["message"]}, which happens only when a pool of that kind answered the request with a '
                 f'grant, but no such candidate pool can hold the request with a packable core count <= worker_cores'
                 + (f' (request lies in the non-power-of-two window of {inwin}: needs more than the largest power of two below '
                    f'worker_cores, packability rounds it beyond the worker)' if inwin else ''))
            return cls, False, fails
        fail(sig, 'every request is either rejected (400) or placed',
             f'_create_jobs raised instead of answering: {out["message"]} (documented causes holding: {sorted(cs)})')
        return cls, False, fails
    if out['kind'] == 'http' and out['status'] != 400:
        fail(f'unexpected-status-{out["status"]}', 'every request is either rejected (400) or placed', f'HTTP {out["status"]} {out["reason"]}')
        return cls, False, fails
    cause = classify_reason(out['reason']) if out['kind'] == 'http' else None
    if out['kind'] == 'http' and cause is None:
        fail('undocumented-rejection', 'rejections are among the documented validation causes', f'400 with reason {out["reason"]!r}')
        return cls, False, fails
    if cs:
        # some documented validation cause holds: must be rejected, with a cause that does hold
        if out['kind'] == 'ok':
            fail('accepted-despite:' + sorted(cs)[0], 'a request violating a documented validation rule is rejected',
                 f'accepted although {sorted(cs)} hold(s): placed in {out.get("inst_coll")}')
        elif cause not in cs:
            fail(f'rejected-wrong-cause:{cause}', 'rejections are among the documented validation causes',
                 f'rejected with {out["reason"]!r} but only {sorted(cs)} hold(s)')
        else:
            cls.append('rej_' + cause)
        return cls, False, fails
    if cause is not None and cause != 'unsat':
        fail(f'rejected-wrong-cause:{cause}', 'rejections are among the documented validation causes',
             f'rejected with {out["reason"]!r} but its predicate does not hold on the request')
        return cls, False, fails

    it = interpret(req, cloud)
    max_gib = doc['max_storage_gib']
    nontrivial = False
    if it['storage'] > (max_gib - 1) * GIB and it['storage'] <= (max_gib + 1) * GIB:
        cls.append('storage_near_max')
    if it['kind'] == 'jp':
        cls.append('jp_request')
        feasible = case['jp_cloud'] == cloud and it['storage'] <= max_gib * GIB
        if cause == 'unsat':
            cls.append('unsat')
            if feasible:
                fail('unsat-but-feasible:job-private', 'rejected as unsatisfiable only if no matching collection could satisfy it',
                     f'machine_type request rejected although the job-private collection ({case["jp_cloud"]}) can hold it')
            return cls, False, fails
        cls.append('accepted_jp')
        r = out.get('resources') or {}
        if out.get('missing_row') or out.get('inst_coll') != JP_NAME or case['jp_cloud'] != cloud:
            fail('inst-coll-mismatch:job-private', 'chosen collection exists and matches cloud / machine type',
                 f'machine_type request placed in {out.get("inst_coll")!r}')
            return cls, False, fails
        if out['cores_mcpu'] != it['cores'] * 1000 or r.get('cores_mcpu') != out['cores_mcpu']:
            fail('jp-cores-mismatch', 'job-private cores equal the machine type\'s cores',
                 f'granted {out["cores_mcpu"]} / spec {r.get("cores_mcpu")} mcpu, machine has {it["cores"]} cores')
        if r.get('memory_bytes') != it['mem']:
            fail('jp-memory-mismatch', 'job-private memory equals the machine type\'s documented memory',
                 f'granted {r.get("memory_bytes")} bytes, machine has {it["mem"]}')
        _storage_clauses(fail, r, it, max_gib, jp=True)
        ms = out['db_spec'][4] if isinstance(out.get('db_spec'), list) and len(out['db_spec']) > 4 else None
        if ms != [it['machine_type'], int(bool(it['pre'])), r.get('storage_gib')]:
            fail('row-spec-disagree', 'jobs row and stored spec agree', f'db machine_spec {ms} vs spec resources {r}')
        return cls, False, fails

    cls.append('pool_request')
    if it['cpu_exact'] != it['mcpu']:
        cls.append('sub_mcpu_truncated')
    cands = pool_candidates(case, it)
    feas = [(i, p, feasible_in_pool(cloud, p, it)) for i, p in cands]
    feas = [(i, p, c) for i, p, c in feas if c is not None]
    if len(cands) >= 2:
        cls.append('multi_candidate')
    if any(it['mcpu'] == p['cores'] * 1000 for _, p in cands):
        cls.append('cpu_eq_worker_cores')
    if any(in_nonpow2_window(cloud, p, it) for _, p in cands):
        cls.append('nonpow2_window')
    if cause == 'unsat':
        cls.append('unsat')
        if not cands:
            cls.append('unsat_no_candidate')
        if feas:
            i, p, c = feas[0]
            fail('unsat-but-feasible:pool', 'rejected as unsatisfiable only if no matching collection could satisfy it',
                 f'rejected, but pool p{i} {p} fits it with {c} mcpu (memory share {int(core_share(cloud, p["wt"], c))} bytes >= '
                 f'{it["mem"]}, storage {it["storage"]} <= {max_gib} GiB)')
        return cls, len(cands) >= 2, fails
    cls.append('accepted_pool')
    r = out.get('resources') or {}
    name = out.get('inst_coll')
    chosen = [(i, p) for i, p in enumerate(case['pools']) if f'p{i}' == name]
    if out.get('missing_row') or not chosen:
        fail('inst-coll-mismatch:unknown', 'chosen collection exists', f'placed in {name!r}, not a configured pool')
        return cls, False, fails
    i, p = chosen[0]
    for what, bad in (('cloud', p['cloud'] != cloud), ('preemptible', bool(p['pre']) != bool(it['pre'])),
                      ('label', p['label'] != it['label']), ('worker_type', it['wt'] is not None and p['wt'] != it['wt'])):
        if bad:
            fail(f'inst-coll-mismatch:{what}', 'chosen collection matches cloud / preemptibility / label / named worker type',
                 f'placed in p{i} {p} whose {what} does not match the request')
    if p['cloud'] != cloud:
        return cls, False, fails     # the other cloud's tables do not apply; nothing further can be judged
    g = out['cores_mcpu']
    if r.get('cores_mcpu') != g:
        fail('row-spec-disagree', 'jobs row and stored spec agree', f'jobs.cores_mcpu {g} vs spec {r.get("cores_mcpu")}')
    if r.get('preemptible') != bool(it['pre']):
        fail('row-spec-disagree', 'jobs row and stored spec agree', f'spec preemptible {r.get("preemptible")} vs request {it["pre"]}')
    if g < it['mcpu']:
        fail('under-cores', 'granted cores >= requested', f'granted {g} mcpu < requested {it["mcpu"]}')
    if g > p['cores'] * 1000:
        fail('over-worker-cores', 'granted cores fit on one worker', f'granted {g} mcpu > worker {p["cores"]} cores')
    q, rem = divmod(g, 250)
    if g <= 0 or rem != 0 or q & (q - 1) != 0:
        fail('not-packable', 'pool cores are a power of two x 250 mcpu', f'granted {g} mcpu')
    mb = r.get('memory_bytes')
    if not isinstance(mb, int) or mb < it['mem']:
        fail('under-memory', 'granted memory >= requested', f'granted {mb} bytes < requested {it["mem"]} (cores {g} on {p["wt"]})')
    elif g > 0 and mb > core_share(cloud, p['wt'], g):
        fail('memory-exceeds-core-share', 'granted memory fits on one worker (<= the documented per-core share of the granted cores)',
             f'granted {mb} bytes > {g} mcpu x {doc["per_core_mib"][p["wt"]]} MiB/core')
    _storage_clauses(fail, r, it, max_gib, jp=False)
    if g > it['mcpu']:
        cls.append('cores_raised_by_memory' if core_share(cloud, p['wt'], max(it['mcpu'], 250)) < it['mem'] else 'cores_raised_other')
        nontrivial = True
    if len(cands) >= 2:
        nontrivial = True
    return cls, nontrivial, fails


def _storage_clauses(fail, r, it, max_gib, jp):
    sg = r.get('storage_gib')
    if not isinstance(sg, int) or sg * GIB < it['storage']:
        fail('under-storage', 'granted storage >= requested', f'granted {sg} GiB < requested {it["storage"]} bytes')
    elif sg > max_gib:
        fail('storage-over-limit', 'granted storage is within the cloud\'s disk limit', f'granted {sg} GiB > {max_gib}')
    elif jp and sg < 10:
        fail('jp-storage-below-minimum', 'a job-private instance gets at least the 10 GiB minimum disk', f'granted {sg} GiB')
    elif not jp and it['storage'] > 0 and sg < 10:
        fail('storage-below-minimum', 'a non-zero storage request gets at least the 10 GiB minimum disk', f'granted {sg} GiB')


# ------------------------------------------------------------------------------------------------------------------------
def canonical(case):
    c = dict(case)
    c['pools'] = [normalise_pool(p) for p in case['pools']]
    return c


async def _run(case):
    from vlib.batchsim.world import World
    case = canonical(case)
    w = World(n_tokens=1, users=('u1',))
    await w.start()
    m = w.m
    saved_cloud = m.fe.CLOUD
    classes = [f'cloud_{case["cloud"]}']
    fails = []
    nontrivial = False
    try:
        m.fe.CLOUD = case['cloud']
        await install_config(w, case)
        r = await w.apply(['batch', 0, 0])
        if not r.get('ok'):
            raise RuntimeError(f'harness: cannot create batch: {r}')
        bid = r['value']
        reqs = case['reqs']
        n_par = sum(1 + 2 * int(isinstance(r['par'].get('with'), dict)) for r in reqs if r.get('par') is not None)
        # job ids 1..len(reqs) for the requests, the ids after them for the sequential repetition of every request that was in flight
        # together with a refresh
        uid, _sg, sj = await m.fe._create_batch_update(bid, 'c12', len(reqs) + n_par, 0, 'u1', w.db)
        if sj != 1:
            raise RuntimeError(f'harness: unexpected start job id {sj}')
        jar = m.fe.ACCEPTABLE_QUERY_JAR_URL_PREFIX
        nxt = len(reqs)

        def take(cls, nt, fl, ctxt=''):
            nonlocal nontrivial
            classes.extend(cls)
            nontrivial = nontrivial or nt
            for f in fl:
                if f[0] not in [g[0] for g in fails]:
                    fails.append((f[0], f[1], f[2] + ctxt))
        k = 0
        while k < len(reqs):
            req = reqs[k]
            par = req.get('par')
            if par is None:
                out = await submit(w, case, bid, uid, k + 1, req, jar)
                take(*judge(case, req, out))
                k += 1
                continue
            # ---- this request (and the next one, if it joins) is in flight while the periodic refresh runs; pool rows unchanged
            items = [(k + 1, req)]
            if isinstance(par.get('with'), dict):
                nxt += 1
                items.append((nxt, par['with']))
            sched, starts = par.get('sched') or [], par.get('start') or []
            outs, rerr, order = await submit_during_refresh(w, case, bid, uid, items, jar, sched, starts)
            tags = [t for t, _q in order]
            rpos = [i for i, t in enumerate(tags) if t == 'refresh']
            ctxt = (f' [request in flight together with InstanceCollectionConfigs.refresh: arrival delays {list(starts)}, yields per '
                    f'statement {list(sched)}; statements in the order sent: {order}]')
            classes.append('refresh_with_requests_in_flight')
            if 'case_with_refresh_in_flight' not in classes:
                classes.append('case_with_refresh_in_flight')
            classes.append({1: 'one_request_during_refresh', 2: 'two_requests_during_refresh'}[len(items)])
            if rerr is not None:
                take(['refresh_crashed'], False, [('refresh-crash:' + rerr[0].split(':', 1)[-1], 'the periodic refresh of an unchanged '
                                                  'configuration succeeds', f'refresh raised {rerr[1]}')], ctxt)
            aimed = 0
            for j, ((idx, rq), out) in enumerate(zip(items, outs)):
                cls, nt, fl = judge(case, rq, out)
                cls.append('request_during_refresh')
                mine = [i for i, t in enumerate(tags) if t == f'req{j}']
                if mine and rpos and rpos[0] < mine[0] < rpos[-1]:
                    cls.append('request_started_between_refresh_statements')
                elif mine and rpos and mine[0] < rpos[0] < mine[-1]:
                    cls.append('refresh_started_between_request_statements')
                pit, pcands = pricing_view(case, rq) if wellformed(rq) else (None, [])
                if pit is not None and any(feasible_in_pool(case['cloud'], p, pit) is not None for _, p in pcands):
                    cls.append('request_during_refresh_aimed_at_existing_pool')
                    aimed += 1
                take(cls, nt, fl, ctxt)
                if out['kind'] == 'validator' or fl:
                    continue
                # the same request again, sequentially, against the same pool rows: the answer must be the same
                nxt += 1
                out2 = await submit(w, case, bid, uid, nxt, rq, jar)
                if not same_answer(out, out2):
                    take(['answer_differs_during_refresh'], False,
                         [('refresh-changes-answer:' + out['kind'] + '-vs-' + out2['kind'],
                           'a request handled while the periodic refresh re-reads an unchanged configuration is answered as it is answered '
                           'without the refresh', f'during the refresh: {_short(out)}; sequentially afterwards, same pool rows: {_short(out2)}; '
                           f'cloud={case["cloud"]} request={json.dumps(rq, sort_keys=True)}; pools={json.dumps(case["pools"])}')], ctxt)
                else:
                    classes.append('same_answer_as_sequential')
            if aimed:
                classes.append('refresh_with_request_aimed_at_existing_pool')
            k += 1
    finally:
        m.fe.CLOUD = saved_cloud
        await w.close()
    return nontrivial, classes, fails


def run_case(case):
    from vlib.aiosched import new_loop, close_loop
    loop = new_loop()
    try:
        return loop.run_until_complete(_run(case))
    finally:
        close_loop(loop)


# ------------------------------------------------------------------------------------------------------------------------
# generators
def strategies(cloud):
    from hypothesis import strategies as st
    doc = DOC[cloud]
    odoc = DOC[other(cloud)]
    max_gib = doc['max_storage_gib']

    # Value pools are plain Python lists indexed by drawn integers (cheap to draw, shrink towards the first = simplest entry).
    _ints = {}

    def upto(n):
        if n not in _ints:
            _ints[n] = st.integers(0, n)
        return _ints[n]

    def pick(draw, xs):
        return xs[draw(upto(len(xs) - 1))]

    FRACS = ['0', '00', '25', '250', '2505', '5', '50', '500', '75', '125', '1', '001', '9999', '0004', '3']
    BAD_GRAMMAR = ['', ' ', '1 ', ' 1', '-1', '1e3', '1,5', '.', '1.', 'abc', '١', '1\n', '0x10', 'Gi', '1gi', '1 Gi', '1Gb', '1iB', 'ten']
    UNITS = ['', 'K', 'Ki', 'M', 'Mi', 'G', 'Gi', 'T', 'Ti', 'P', 'Pi']
    CPU_COMMON = ['1', '0.25', '0.5', '2', '4', '8', '16', '32', '64', '128', '250m', '1000m', '+1', '01', '1.0', '0.250', '.25', '.5',
                  '256', '1024', '0.2505', '0.25049', '1.0004', '250.5m', '2000.9m']
    CPU_INVALID = ['3', '0', '0.0', '0m', '0.1', '0.125', '0.2', '0.2499', '0.9999', '1.5', '6', '12', '20', '48', '72', '96', '100m',
                   '1m', '249m', '251m', '1001m', '0.3', '5', '96000m']
    MEM_COMMON = ['1Gi', '0', '1', '0Gi', '100Mi', '0.5Gi', '3.75Gi', '3840Mi', '3841Mi', '4G', '4Gi', '4.001Gi', '6.5Gi', '7Gi', '8Gi',
                  '13Gi', '16Gi', '30Gi', '60Gi', '60.01Gi', '104Gi', '240Gi', '256Gi', '360Gi', '416Gi', '512Gi', '624Gi', '625Gi',
                  '1Ti', '1P', '9999Pi', '+2G', '2GB', '2GiB', '924Mi', '925Mi', '1848Mi', '1849Mi']
    mx = max_gib * GIB
    STORAGE_SMALL = ['0', '0Gi', '1Gi', '10Gi', '20Gi', '100Gi', '0.0Gi', '1', '1Ki', '5Gi', '9Gi', '9.99Gi', '10.01Gi', '10G', '11Gi',
                     '10241Mi', str(10 * GIB), str(10 * GIB + 1), str(10 * GIB - 1), '375Gi', '376Gi', '1Ti', '1000.5Gi']
    STORAGE_BIG = [f'{max_gib}Gi', f'{max_gib - 1}Gi', f'{max_gib + 1}Gi', f'{max_gib // 1024}Ti', f'{max_gib // 1024}.001Ti',
                   f'{max_gib // 1024}.0Ti', str(mx), str(mx + 1), str(mx - 1), f'{max_gib - 1}.5Gi', f'{max_gib}.0001Gi',
                   f'{odoc["max_storage_gib"]}Gi', f'{odoc["max_storage_gib"] + 1}Gi', '70T', '35T', '36T', '71T', '1Pi', '999P', '65Ti',
                   '33Ti', '100000Gi', '99999999999999999999']
    own_m = sorted(MACHINES[cloud])
    OTHER_M = sorted(MACHINES[other(cloud)]) + 2 * ['n1-standard-3', 'n1-standard-96', 'n1-highmem-1', 'n2-standard-4', 'N1-standard-1',
                                                     'n1-standard-1 ', 'Standard_D3ds_v4', 'Standard_D2ds_v5', 'standard', 'highmem', 'x', '']
    ILL = {'cpu': BAD_GRAMMAR + [1, 0.5, None, True], 'memory': BAD_GRAMMAR + ['Standard', 'low', 'highmem ', 3, None],
           'storage': BAD_GRAMMAR + [10, None], 'machine_type': [7, None], 'pool_label': [0, None],
           'preemptible': [1, 0, 'true', None], 'gpu': [1], 'cloud': ['gcp', 'azure']}
    ILL_KEYS = sorted(ILL)

    def mcpu_str(m, style):
        """A cpu string worth exactly m mcpu (m a multiple of 250)."""
        if style == 0:
            return f'{m}m'
        q, r = divmod(m, 1000)
        if r == 0:
            return [str(q), f'{q}.0', f'+{q}', f'0{q}'][style % 4]
        return f'{q}.{r:03d}'.rstrip('0') if style % 2 else (f'{q}.{r:03d}' if q else f'.{r:03d}'.rstrip('0'))

    _pool_lists = {}

    def pool_lists(p):
        key = (p['cloud'], p['wt'], p['cores'])
        if key in _pool_lists:
            return _pool_lists[key]
        d = DOC[p['cloud']]
        per = d['per_core_mib'][p['wt']] * MIB
        top = p['cores'] * 1000
        pack = []
        c = 250
        while c <= top:
            pack.append(c)
            c *= 2
        cpus = [1000] if 1000 in pack else []
        cpus += pack + [top, top, 2 * top]
        bnd = []
        c = 250
        while c <= 2 * top:
            b = c * per // 1000
            bnd += [str(b + 1), str(b), str(b - 1), str(b + 1), f'{b // MIB}Mi', f'{b // MIB + 1}Mi', f'{b / GIB + 0.001:.3f}Gi']
            c *= 2
        tb = p['cores'] * per
        bnd += [str(tb), str(tb + 1), f'{tb // MIB}Mi', f'{tb // MIB + 1}Mi', str(tb // 2 + 1), str(tb * 3 // 4), str(tb * 3 // 8)]
        mine = [k for k, v in d['memclass'].items() if v == p['wt']]
        _pool_lists[key] = (cpus, bnd, mine * 4 + list(MEMCLASSES))
        return _pool_lists[key]

    _win_lists = {}

    def win_lists(p):
        """Values around the window (P2, C] of a pool whose worker_cores C is not a power of two (P2 = largest power of two
        below C): requests that fit one worker but that no packable core count <= C can hold."""
        key = (p['cloud'], p['wt'], p['cores'])
        if key in _win_lists:
            return _win_lists[key]
        per = DOC[p['cloud']]['per_core_mib'][p['wt']] * MIB
        C, P2 = p['cores'], pow2_below(p['cores'])
        small = [250, 250, 1000, 1000, 500, 2000, P2 * 500, P2 * 1000]                 # packable: memory decides
        wcpu = [P2 * 1000, P2 * 1000 + 250, (P2 + 1) * 1000, (P2 + C) // 2 * 1000, (C - 1) * 1000, C * 1000 - 250, C * 1000, C * 1000,
                C * 1000 + 250, (C + 1) * 1000, 2 * P2 * 1000]
        wmem = [P2 * per, P2 * per + 1, P2 * per + MIB, (P2 + 1) * per, (P2 + C) // 2 * per, (P2 + C) * per // 2 + 1, (C - 1) * per,
                C * per - 1, C * per, C * per, C * per + 1, (C + 1) * per, 2 * P2 * per]
        _win_lists[key] = (small, wcpu, wmem, per, C, P2)
        return _win_lists[key]

    def mem_str(b, style):
        """A memory string worth b bytes (styles 0, 1) or the smallest value of a coarser unit that is >= b."""
        if style == 0:
            return str(b)
        if style == 1:
            return f'+{b}'
        if style == 2:
            return f'{-(-b // 1024)}Ki'
        if style == 3:
            return f'{-(-b // MIB)}Mi'
        if style == 4:
            return f'{-(-b // MIB)}MiB'
        if style == 5:
            return f'{-(-b * 1000 // GIB) // 1000}.{-(-b * 1000 // GIB) % 1000:03d}Gi'
        if style == 6:
            return f'{-(-b // 10 ** 6)}M'
        return f'{-(-b // 10 ** 7) // 100}.{-(-b // 10 ** 7) % 100:02d}G'

    def gen_win_cpu(draw, p):
        small, wcpu, _wmem, _per, _C, _P2 = win_lists(p)
        k = draw(upto(9))
        if k < 6:
            return mcpu_str(pick(draw, small), draw(upto(5)))
        if k < 9:
            return mcpu_str(pick(draw, wcpu), draw(upto(5)))
        return gen_cpu(draw, p)

    def gen_win_mem(draw, p):
        _small, _wcpu, wmem, per, C, P2 = win_lists(p)
        k = draw(upto(9))
        if k < 3:
            return mem_str(pick(draw, wmem), draw(upto(7)))
        if k < 9:
            # a per-core share of P2 - 0.25 .. C + 0.25 cores, to the mcpu
            eq = P2 * 1000 - 250 + draw(upto((C - P2) * 1000 + 500))
            return mem_str(eq * per // 1000, draw(upto(7)))
        return gen_mem(draw, p)

    def gen_number(draw):
        if draw(upto(1)):
            return f'{draw(upto(130))}.{pick(draw, FRACS)}'
        return str(draw(upto(999)))

    def gen_cpu(draw, p):
        cpus, _bnd, _cls = pool_lists(p)
        k = draw(upto(9))
        if k < 7:
            return mcpu_str(pick(draw, cpus), draw(upto(5)))
        if k == 7:
            return pick(draw, CPU_COMMON)
        if k == 8:
            return pick(draw, CPU_INVALID)
        return gen_number(draw) + pick(draw, ['', 'm'])

    def gen_mem(draw, p):
        _cpus, bnd, cls = pool_lists(p)
        k = draw(upto(9))
        if k < 3:
            return pick(draw, cls)
        if k < 7:
            return pick(draw, bnd)
        if k < 9:
            return pick(draw, MEM_COMMON)
        return gen_number(draw) + pick(draw, UNITS) + pick(draw, ['', '', 'B'])

    def gen_storage(draw):
        k = draw(upto(9))
        if k < 5:
            return pick(draw, STORAGE_SMALL)
        if k < 8:
            return pick(draw, STORAGE_BIG)
        return gen_number(draw) + pick(draw, ['', 'Ki', 'Mi', 'Gi', 'G', 'Ti', 'T']) + pick(draw, ['', '', 'B'])

    def gen_placeable(draw, p):
        """a request that pool p can hold, by construction: packable cpu <= worker_cores, the pool's own memory class or a byte count
        within the per-core share of some packable core count, small storage, the pool's label and preemptibility"""
        per = DOC[p['cloud']]['per_core_mib'][p['wt']] * MIB
        pack = []
        c = 250
        while c <= p['cores'] * 1000:
            pack.append(c)
            c *= 2
        mine = [k for k, v in DOC[p['cloud']]['memclass'].items() if v == p['wt']]
        res = {}
        k = draw(upto(5))
        cpu = pick(draw, pack[:draw(upto(len(pack) - 1)) + 1])
        if k != 5:
            res['cpu'] = mcpu_str(cpu, draw(upto(5)))
        else:
            cpu = 1000
        if k in (0, 1, 5):
            res['memory'] = pick(draw, mine)
        elif k in (2, 3):
            c2 = pick(draw, [x for x in pack if x >= cpu])             # memory-driven: needs c2 >= cpu cores of this pool
            res['memory'] = mem_str(max(1, c2 * per // 1000 - draw(upto(3)) * MIB), draw(upto(7)))
        else:
            res['memory'] = mem_str(max(1, cpu * per // 1000 - draw(upto(2))), draw(upto(3)))
        if draw(upto(2)) == 0:
            res['storage'] = pick(draw, ['0', '10Gi', '1Gi', '20Gi', '100Gi', '375Gi'])
        if p['label'] or draw(upto(1)):
            res['pool_label'] = p['label']
        if not p['pre'] or draw(upto(1)):
            res['preemptible'] = bool(p['pre'])
        return {'res': res, 'jvm': False}

    @st.composite
    def req_st(draw, pools):
        # 1 request in 5 is IN FLIGHT TOGETHER WITH THE PERIODIC REFRESH of the configuration (its own generated schedule); 3 in 4 of
        # those are aimed at an existing pool of the case's cloud and can be held by it, by construction
        mode = draw(upto(9))
        if mode < 8:
            return req_body(draw, pools)
        own = [q for q in pools if q['cloud'] == cloud]
        if own and draw(upto(3)) < 3:
            r = gen_placeable(draw, own[draw(upto(len(own) - 1))])
        else:
            r = req_body(draw, pools)
        r['par'] = {'sched': [draw(upto(4)) for _ in range(draw(upto(6)))], 'start': [draw(upto(4)), draw(upto(4)), draw(upto(4))]}
        if draw(upto(3)) == 0:
            # a second job-creation request in flight at the same time
            r['par']['with'] = gen_placeable(draw, own[draw(upto(len(own) - 1))]) if own and draw(upto(1)) else req_body(draw, pools)
        return r

    def req_body(draw, pools):
        shape = draw(upto(23))
        if shape == 0:
            return {'res': pick(draw, [None, {}]), 'jvm': bool(draw(upto(1)))}
        p = pools[draw(upto(len(pools) - 1))]      # the pool this request is aimed at
        res = {}
        with_mt = shape in (1, 2, 3, 4)
        forbidden = shape == 4
        aimed = draw(upto(7)) < 6
        npw = [q for q in pools if q['cloud'] == cloud and not is_pow2(q['cores'])] if shape >= 18 else []
        if npw:
            # aimed at the window of a pool whose worker_cores is not a power of two: fits one worker, but only with a
            # core count between the largest power of two below worker_cores and worker_cores (and values just around it)
            p = npw[draw(upto(len(npw) - 1))]
            if draw(upto(9)) < 8:
                res['cpu'] = gen_win_cpu(draw, p)
            res['memory'] = gen_win_mem(draw, p)
            if draw(upto(9)) < 3:
                res['storage'] = gen_storage(draw)
            if p['label'] or draw(upto(1)):
                res['pool_label'] = p['label']
            if not p['pre'] or draw(upto(1)):
                res['preemptible'] = bool(p['pre'])
            return {'res': res, 'jvm': draw(upto(11)) == 0}
        if with_mt:
            res['machine_type'] = pick(draw, own_m) if draw(upto(4)) < 4 else pick(draw, OTHER_M)
        if (not with_mt and draw(upto(9)) < 8) or (forbidden and draw(upto(1))):
            res['cpu'] = gen_cpu(draw, p)
        if (not with_mt and draw(upto(9)) < 8) or (forbidden and draw(upto(1))):
            res['memory'] = gen_mem(draw, p)
        if draw(upto(9)) < 6:
            res['storage'] = gen_storage(draw)
        if with_mt:
            if draw(upto(9)) < 2:
                res['pool_label'] = pick(draw, ['', 'x', 'x', 'y'])
            if draw(upto(9)) < 5:
                res['preemptible'] = bool(draw(upto(1)))
        elif aimed:
            if p['label'] or draw(upto(1)):
                res['pool_label'] = p['label']
            if not p['pre'] or draw(upto(1)):
                res['preemptible'] = bool(p['pre'])
        else:
            if draw(upto(1)):
                res['pool_label'] = pick(draw, ['', 'x', 'x', 'y'])
            if draw(upto(1)):
                res['preemptible'] = bool(draw(upto(1)))
        if shape == 5:     # one ill-formed field: must die in the validator
            k = pick(draw, ILL_KEYS)
            res[k] = pick(draw, ILL[k])
        return {'res': res, 'jvm': draw(upto(11)) == 0}

    def gen_pool(draw):
        c = cloud if draw(upto(5)) < 5 else other(cloud)
        d = DOC[c]
        wt = pick(draw, sorted(d['pool_cores']))
        return normalise_pool(dict(cloud=c, wt=wt, cores=pick(draw, d['pool_cores'][wt]), pre=bool(draw(upto(1))),
                                   label=pick(draw, ['', '', 'x']), ssd=bool(draw(upto(1))), ext=pick(draw, [0, 100, 375, 1000, 4000]),
                                   boot=pick(draw, [10, 10, 20, 100])))

    @st.composite
    def case_st(draw):
        pools = [gen_pool(draw) for _ in range(1 + draw(upto(5)))]
        rates = [1 + draw(upto(39)) for _ in range(1 + draw(upto(5)))]
        return dict(cloud=cloud, pools=pools, jp_cloud=cloud if draw(upto(5)) < 5 else other(cloud), rates=rates,
                    reqs=draw(st.lists(req_st(pools), min_size=1, max_size=12)))

    return case_st()


# ------------------------------------------------------------------------------------------------------------------------
def plan(tier):
    n = 300 if tier == 'quick' else 6000
    clouds = ['gcp'] * 10 + ['azure'] * 6
    return [dict(kind='hyp', cloud=c, n=n) for c in clouds]


def run_shard(spec, seed, tier):
    from vlib.hyp import search
    res = Result()
    search(res, PROPERTY, strategies(spec['cloud']), run_case, spec['n'], seed)
    return res


def replay(case):
    nt, cls, fl = run_case(case)
    return [dict(signature=s, clause=c, message=m, case=case) for s, c, m in fl]
