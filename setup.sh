#!/bin/sh
# MANIFEST.setup_cmd — offline build of what the checks need (wheels -> /verif/.deps) + engine self-tests.
HERE="$(cd "$(dirname "$0")" && pwd)"
cd "$HERE" || exit 2
export PIP_NO_INDEX=1
mkdir -p .deps
if [ ! -d .deps/numpy ] || [ ! -d .deps/mpmath ] || [ ! -d .deps/jsonschema ]; then
  /venv/bin/pip install --quiet --no-index --find-links /opt/veriftools/wheels --target .deps numpy mpmath jsonschema atheris || exit 2
fi
/venv/bin/python -c "import hypothesis" 2>/dev/null || /venv/bin/pip install --quiet --no-index --find-links /opt/veriftools/wheels hypothesis || exit 2
export PYTHONHASHSEED=0 PYTHONDONTWRITEBYTECODE=1 PYTHONPATH="$HERE"
if [ -f vlib/selftest.py ]; then /venv/bin/python -m vlib.selftest || exit 2; fi
echo setup ok
