#!/bin/sh
# Re-run every kept seeded change (seeded/<name>/patch.diff) against the current checks; one line per change.  JOBS parallel runs.
cd "$(dirname "$0")/.." || exit 2
ls -d seeded/C* | xargs -P "${JOBS:-4}" -I{} sh -c '
  n=$(basename {}); id=$(echo $n | cut -c1-3)
  out=$(tools/mutate.py $id --patch {}/patch.diff 2>&1 | tail -1)
  echo "$n $out"'
