#!/venv/bin/python
"""Turn a kept seeded change into a deterministic regression case: run the check against the patched scratch copy, take the shrunk
failing case(s), keep the smallest one that HOLDS on the unchanged tree and FAILS on the patched copy when replayed, and store it as
corpus/<ID>/seed-<NAME>.json (corpus cases are replayed first by every run of the check).
usage: tools/seed2corpus.py NAME [--seed N]        (NAME = directory under seeded/)"""
import argparse, glob, json, os, shutil, subprocess, sys, tempfile

ap = argparse.ArgumentParser()
ap.add_argument('name')
ap.add_argument('--seed', default='1')
a = ap.parse_args()
VERIF = os.path.dirname(os.path.dirname(os.path.abspath(__file__)))
cid = a.name[:3]
patch = os.path.join(VERIF, 'seeded', a.name, 'patch.diff')
out = os.path.join(VERIF, 'corpus', cid, f'seed-{a.name}.json')
if os.path.exists(out) and not os.environ.get('S2C_FORCE'):
    print(f'{a.name} already pinned')
    sys.exit(0)
tmp = tempfile.mkdtemp(prefix='s2c-')
try:
    verdict = None
    for seed in (a.seed, '2', '3'):
        r = subprocess.run([os.path.join(VERIF, 'tools', 'mutate.py'), cid, '--patch', patch, '--seed', seed],
                           env=dict(os.environ, VERIF_REPLAY_DIR=tmp), capture_output=True, text=True)
        verdict = {0: 'KILLED', 1: 'SURVIVED'}.get(r.returncode, 'HARNESS-ERROR')
        if verdict != 'SURVIVED':
            break
    kept = None
    if verdict == 'KILLED':
        cands = []
        for f in glob.glob(os.path.join(tmp, cid, '*.json')):
            d = json.load(open(f))
            cands.append((len(json.dumps(d['case'], default=repr)), f, d))
        for _, f, d in sorted(cands, key=lambda x: x[0])[:4]:
            cf = os.path.join(tmp, 'cand.json')
            json.dump({'property': cid, 'case': d['case']}, open(cf, 'w'), default=repr)
            clean = subprocess.run([os.path.join(VERIF, 'check'), cid, '--replay', cf], capture_output=True, text=True)
            if clean.returncode != 0:
                continue                      # does not hold on the unchanged tree (e.g. a known-finding case): not a regression case
            pat = subprocess.run([os.path.join(VERIF, 'tools', 'mutate.py'), cid, '--patch', patch, '--replay', cf],
                                 capture_output=True, text=True)
            if pat.returncode == 0:           # mutate: 0 == killed
                os.makedirs(os.path.dirname(out), exist_ok=True)
                json.dump({'case': d['case'], 'note': f'regression: seeded change {a.name} ({d.get("signature")}); holds on the unchanged tree'},
                          open(out, 'w'), default=repr)
                kept = d.get('signature')
                break
    print(f'{a.name} {verdict} corpus={"yes:" + str(kept) if kept else "no"}')
finally:
    shutil.rmtree(tmp, ignore_errors=True)
