"""Per-property metadata for MANIFEST.json (edited by hand; MANIFEST.json is generated from it)."""

ENGINES = [
    {'name': 'runner', 'path': 'vlib/runner.py', 'serves_properties': ['*'],
     'kind_free_text': 'CLI, 16-process shard pool, Hypothesis collect-then-shrink driver (vlib/hyp.py), known-finding matching, replay + evidence writer'},
    {'name': 'hostenv', 'path': 'vlib/hostenv.py', 'serves_properties': ['*'],
     'kind_free_text': 'imports the repo Python from /repo via sys.path, stub modules for absent third-party packages, synthetic version modules'},
]

NOT_APPLICABLE = {}

CHECKS = {
    'C25': dict(
        level='exploration',
        technique='exhaustive grids + Hypothesis grammar-based generation against an exact Fraction oracle and a hand-written recogniser (differential client/server/reference)',
        text='All d.ddd x unit and 0..4096 x unit strings are enumerated exhaustively and thousands of grammar/near-grammar strings are generated per run; '
             'each is compared with exact rational arithmetic and with the server validator. Held-on-everything-explored; the enumerated grids are complete.',
        note='Trusts the Fraction oracle and the hand-written recogniser in checks/c25.py; "exact value" = decimal literal as a rational times the unit factor.'),
    'C16': dict(
        level='exploration',
        technique='exhaustive op-sequence enumeration (small capacities) + Hypothesis op lists, drained on a harness-owned asyncio loop, against statement invariants and a deque reference model',
        text='Every acquire/release sequence up to a length bound is enumerated for capacities 1-3(4) and thousands of longer random sequences for capacity 1-16; '
             'after each op the real FIFOWeightedSemaphore (through the context-manager form the worker uses) is compared with the safety/FIFO/liveness invariants.',
        note='Single-threaded asyncio, so op order is the whole schedule space; trusts vlib/aiosched.py. Waiter cancellation is not in the statement and not generated.'),
    'C40': dict(
        level='exploration',
        technique='exhaustive + Hypothesis histories of enter/finish/fail/cancel (including cancel racing a grant) on a harness-owned loop; invariant oracle on value, wait list and liveness',
        text='All op sequences up to length 5-6 for max<=3 plus tens of thousands of random ones for max<=16; after every op value == max - held, no fitting waiter blocked; at the end value == max and the wait list is empty.',
        note='Trusts vlib/aiosched.py; grant order is not checked (not promised). Found and fixed a capacity leak on waiter cancellation (known_findings.json).'),
    'C24': dict(
        level='exploration',
        technique='Hypothesis-generated arrival patterns under a virtual clock; sliding-window invariant + closed-form work-conserving reference schedule (multiset comparison)',
        text='40k arrival patterns per quick run (counts 1-5, four window lengths, bursts/ties on an exactly representable grid); admits are checked against the window bound and a reference T_k = max(a_k, T_{k-count}+W).',
        note='time.time and loop time are one virtual clock; trusts vlib/aiosched.py and the closed-form reference.'),
}
