"""Per-property metadata for MANIFEST.json (edited by hand; MANIFEST.json is generated from it)."""

ENGINES = [
    {'name': 'runner', 'path': 'vlib/runner.py', 'serves_properties': ['*'],
     'kind_free_text': 'CLI, 16-process shard pool, Hypothesis collect-then-shrink driver (vlib/hyp.py), known-finding matching, replay + evidence writer'},
    {'name': 'hostenv', 'path': 'vlib/hostenv.py', 'serves_properties': ['*'],
     'kind_free_text': 'imports the repo Python from /repo via sys.path, stub modules for absent third-party packages, synthetic version modules'},
]

NOT_APPLICABLE = {}

CHECKS = {
    'C25': dict(
        level='exploration',
        technique='exhaustive grids + Hypothesis grammar-based generation against an exact Fraction oracle and a hand-written recogniser (differential client/server/reference)',
        text='All d.ddd x unit and 0..4096 x unit strings are enumerated exhaustively and thousands of grammar/near-grammar strings are generated per run; '
             'each is compared with exact rational arithmetic and with the server validator. Held-on-everything-explored; the enumerated grids are complete.',
        note='Trusts the Fraction oracle and the hand-written recogniser in checks/c25.py; "exact value" = decimal literal as a rational times the unit factor.'),
}
