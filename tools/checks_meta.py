"""Per-property metadata for MANIFEST.json (edited by hand; MANIFEST.json is generated from it)."""

ENGINES = [
    {'name': 'runner', 'path': 'vlib/runner.py', 'serves_properties': ['*'],
     'kind_free_text': 'CLI, 16-process shard pool, Hypothesis collect-then-shrink driver (vlib/hyp.py), known-finding matching, replay + evidence writer'},
    {'name': 'hostenv', 'path': 'vlib/hostenv.py', 'serves_properties': ['*'],
     'kind_free_text': 'imports the repo Python from /repo via sys.path, stub modules for absent third-party packages, synthetic version modules'},
]

NOT_APPLICABLE = {}

ENGINES += [
    {'name': 'aiosched', 'path': 'vlib/aiosched.py', 'serves_properties': ['C16', 'C20', 'C21', 'C24', 'C26', 'C40'],
     'kind_free_text': 'asyncio event loop with harness-owned virtual clock and explicit drain/advance (schedule = op order)'},
    {'name': 'minimysql', 'path': 'vlib/minimysql/', 'serves_properties': ['C01', 'C02', 'C03', 'C04', 'C05', 'C06', 'C07', 'C08', 'C09', 'C10', 'C11', 'C12', 'C14', 'C27', 'C39', 'C41'],
     'kind_free_text': 'in-memory interpreter for the MySQL 8 dialect subset used by the batch service; executes the repository\'s own triggers/procedures/queries behind fake pymysql/aiomysql drivers'},
    {'name': 'batchsim', 'path': 'vlib/batchsim/', 'serves_properties': ['C01', 'C02', 'C03', 'C04', 'C05', 'C06', 'C07', 'C08', 'C09', 'C10', 'C12', 'C14', 'C39', 'C41'],
     'kind_free_text': 'the real batch front-end and driver Python (create/commit/cancel, schedule/start/complete, scheduler and canceller loop bodies, clean-up jobs) wired to minimysql in one process; histories are JSON op lists'},
    {'name': 'jvmslice', 'path': 'vlib/jvmslice.py', 'serves_properties': ['C31', 'C34', 'C37'],
     'kind_free_text': 'cuts named definitions out of the repository\'s Scala sources, compiles them with the bundled Scala 3 compiler and runs them in a JVM as a differential partner'},
    {'name': 'hailenv', 'path': 'vlib/hailenv.py', 'serves_properties': ['C31', 'C32', 'C33', 'C34', 'C35', 'C36', 'C38'],
     'kind_free_text': 'imports the hail Python package without an engine (PEG shim for parsimonious, FakeBackend); vlib/hailgen.py holds the shared type/value generators'},
]

CHECKS = {
    'C25': dict(
        level='exploration',
        technique='exhaustive grids + Hypothesis grammar-based generation against an exact Fraction oracle and a hand-written recogniser (differential client/server/reference)',
        text='All d.ddd x unit and 0..4096 x unit strings are enumerated exhaustively and thousands of grammar/near-grammar strings are generated per run; '
             'each is compared with exact rational arithmetic and with the server validator. Held-on-everything-explored; the enumerated grids are complete.',
        note='Trusts the Fraction oracle and the hand-written recogniser in checks/c25.py; "exact value" = decimal literal as a rational times the unit factor. For every string all three parsers are called in turn and the judged parser again: no answer may depend on which parser saw the string before.'),
    'C16': dict(
        level='exploration',
        technique='exhaustive op-sequence enumeration (small capacities) + Hypothesis op lists, drained on a harness-owned asyncio loop, against statement invariants and a deque reference model',
        text='Every acquire/release sequence up to a length bound is enumerated for capacities 1-3(4) and thousands of longer random sequences for capacity 1-16; '
             'after each op the real FIFOWeightedSemaphore (through the context-manager form the worker uses) is compared with the safety/FIFO/liveness invariants.',
        note='Single-threaded asyncio, so op order is the whole schedule space; trusts vlib/aiosched.py. Waiter cancellation is not in the statement and not generated. Ops can share one event-loop step (two releases, an arrival in the step of a release) and a holder can release-and-reacquire in one task step; grant order is judged as a set prefix there.'),
    'C40': dict(
        level='exploration',
        technique='exhaustive + Hypothesis histories of enter/finish/fail/cancel (including cancel racing a grant) on a harness-owned loop; invariant oracle on value, wait list and liveness',
        text='All op sequences up to length 5-6 for max<=3 plus tens of thousands of random ones for max<=16; after every op value == max - held, no fitting waiter blocked; at the end value == max and the wait list is empty.',
        note='Trusts vlib/aiosched.py; grant order is not checked (not promised). Found and fixed a capacity leak on waiter cancellation (known_findings.json).'),
    'C24': dict(
        level='exploration',
        technique='Hypothesis-generated arrival patterns under a virtual clock; sliding-window invariant + closed-form work-conserving reference schedule (multiset comparison)',
        text='40k arrival patterns per quick run (counts 1-5, four window lengths, bursts/ties on an exactly representable grid); admits are checked against the window bound and a reference T_k = max(a_k, T_{k-count}+W).',
        note='time.time and loop time are one virtual clock; trusts vlib/aiosched.py and the closed-form reference.'),
    'C20': dict(
        level='exploration',
        technique='Hypothesis-generated completion/failure/cancellation plans over gate-driven tasks on a harness-owned asyncio loop; invariant + outcome oracle; tracking semaphore attributes the known over-release',
        text='~19k plans per quick run over flat, nested (Copier-shaped) and online gathers with the caller holding a slot; checks the running-at-once bound (also on a second gather on the same semaphore), result order, exception contract, cancel-and-wait and task leaks at the instant control returns.',
        note='Single-threaded asyncio; trusts vlib/aiosched.py. One known finding (semaphore over-release on error exit) is compensated per case and counted; two defects found were fixed. A task raising CancelledError itself is judged in return_exceptions mode; an outside coroutine submits follow-up work just before a task finishes (races the pool exit); an unstarted pool task at return counts as work left behind.'),
    'C21': dict(
        level='exploration',
        technique='Hypothesis sequences from a labelled exception catalogue (with raise-from chains) under a virtual clock and harness-chosen jitter; exhaustive grid for delay_ms_for_try',
        text='Invocation counts, outcomes and every sleep are compared with the statement for the async, debug-string, delayed-warning and sync variants; delay_ms_for_try is enumerated for tries 0..100 x extreme jitter x six base/max pairs.',
        note='Catalogue labels come from the documentation comments in utils.py (not from calling is_transient_error); random.randrange/time.sleep replaced in the module namespace.'),
    'C26': dict(
        level='exploration',
        technique='Hypothesis op lists (lookup / load_ok / load_fail / cancel / advance) on a harness-owned loop with a virtual monotonic clock; invariant oracle with per-lookup load attribution',
        text='32k histories per quick run with 1-3 slots, 4 keys and clock steps at L-1, L, L+1; checks capacity, freshness, single-flight and that a lookup fails only for its own load failure or its own cancellation.',
        note='prometheus timing wrapper replaced by a pass-through; trusts vlib/aiosched.py. Found and fixed: cancelling one caller failed its co-waiters.'),
    'C31': dict(
        level='exploration',
        technique='Hypothesis type/name generation + BMP single-character enumeration; Python round-trips and a differential against the real IRLexer/StringEscapeUtils cut from the Scala sources and compiled (jvmslice)',
        text='~67k cases per quick run: dtype(str/pretty/repr(t)) == t, unescape(escape(s)) == s, and the compiled engine lexer must tokenise every emitted type string / identifier into the predicted token skeleton with the same names.',
        note='Trusts the PEG shim (re vs regex module), the slicer and its 2 stubs, Scala 3 vs 2.12 on this code. Five known findings (escape mismatches between Python and the engine lexer) are listed in known_findings.json.'),
    'C32': dict(
        level='exploration',
        technique='Hypothesis (type, value) generation from vlib/hailgen.py plus a deterministic grid; round-trip oracle through text JSON with Hail value equality (NaN == NaN, -0.0 distinct)',
        text='~21k well-typed nested values per quick run through _convert_to_json_na -> json.dumps -> loads -> _convert_from_json_na and the _to_json/_from_json pair; result must be equal and typecheck.',
        note='Trusts hailgen builders/canon equality and hailenv. Two defects found were fixed (tdict missing values; Struct field named self).'),
    'C33': dict(
        level='exploration',
        technique='Hypothesis (type, value) generation; round-trip oracle plus a layout differential: an independent decoder parameterised by the EType descriptor parsed from EType.fromPythonTypeEncoding in the Scala source',
        text='~18k values per quick run: _from_encoding(_to_encoding(v)) == v with all bytes consumed, and the reference decoder driven by the engine-declared descriptor must consume exactly the same bytes and yield v.',
        note='The engine\'s generated decoders are not executed; per-EType layout semantics are a trusted transcription; descriptor parser fails closed (exit 2) if the Scala function changes shape. Plus 2k sequences sharing one type-object tree: encodes that raise part-way (missing field, wrong type, out of range) before well-formed values; every successful encode must equal a fresh type object\'s bytes.'),
    'C34': dict(
        level='exploration',
        technique='exhaustive grids + Hypothesis boundary search; differential between Python byte-level call packing and compiled slices of Call.scala / Genotype.scala, plus an exact integer reference',
        text='All calls j,k <= 64 x ploidy x phase, gt-index bijection on [0,10^6) and the top 10^5 below 2^29, generated calls/words up to the 2^29 limit: same 32-bit word on both sides, each side decodes the other, allele-pair <-> index is a bijection in VCF order.',
        note='Trusts the slicer, <=5-line stubs, Scala 3 vs 2.12 on integer code, the isqrt reference. Calls outside the range both sides document are counted, not judged.'),
    'C37': dict(
        level='exploration',
        technique='the engine\'s Scala statistical functions run as compiled source slices against exact-integer / fixed-point / mpmath references over exhaustive small grids and Hypothesis-generated tables',
        text='10^4 dense 2x2 tables, generated tables up to 3000 per cell, HWE triples exhaustive to 25^3 plus generated to 5000: p-values, statistics, odds ratios and CI limits against their definitions with stated tolerances; p in [0,1]; NaN exactly where degenerate.',
        note='pchisqtail is substituted (commons-math3 for jdistlib); Scala 3 compile of 2.12 source; references in checks/c37.py. One known finding (uniroot absolute tolerance) is listed. The slicer pulls in sibling members the sliced functions newly refer to. Every judged Hardy-Weinberg call is preceded by a related call in the same JVM.'),
    'C15': dict(
        level='exploration',
        technique='exhaustive subset/shape grids + Hypothesis spec generation; round-trip oracle through json for every batch format version',
        text='All subsets of a 12-region universe (two id ranges), all singletons/pairs over ids 1..63, a spec-shape grid x versions 1..7 and ~18k generated specs/region selections: the compact db form gives back the same secrets, service account, io flags and machine spec; bitsets decode to the same region set and fit a signed BIGINT.',
        note='Oracle is the field projection of the spec written in checks/c15.py; specs are generated in the shape front_end._create_jobs passes to db_spec.'),
    'C19': dict(
        level='exploration',
        technique='exhaustive small grid + Hypothesis size-controlled spec lists against flatten / order / limit predicates on the real Batch._create_bunches',
        text='~32k inputs per quick run (0-40 job groups, 0-200 jobs, sizes at limit-1, count and byte limits down to 1): concatenated bunches equal groups-then-jobs byte-for-byte, no empty bunch, every bunch within both limits.',
        note='Caller preconditions (every spec below the byte limit, positive limits) hold by construction; orjson is a json-backed shim. The Batch is built through the real client (real __init__); five sequence shards run 2-7 calls on one Batch (recurring id()s, specs edited in place, failed submit then retry through the real submit against a recording fake server).'),
    'C22': dict(
        level='exploration',
        technique='Hypothesis-generated source trees and transfer sets run through the real Copier on temp dirs with part/buffer sizes forced to 1..64 bytes; reference model of the documented destination rules',
        text='~4-5k copies per quick run incl. multi-part files with short last parts, directory merges, all treat_dest_as modes and error classes; the model reproduces all 324 rows of the repository\'s own copy_test_specs table, which are also run through the real copier.',
        note='Trusts the reference model (validated 324/324 against the repo spec table) and host FS read-back. Racy/conflicting transfers get weak checks only. Two defects found were fixed. Generated transient faults (0-3 per case, 9 error kinds) at every file-system call of the copy (listing call / iteration, status, size, open, read, create, write, close, makedirs, multi-part pieces) with zero retry delay; three calls outside every retry wrapper fail loudly and are accepted (see ASSUMPTIONS).'),
    'C23': dict(
        level='exploration',
        technique='Hypothesis + exhaustive grid of ranged reads over the real Local/Google/S3/Azure FS classes with provider fakes honouring documented range semantics',
        text='~22k reads per quick run (object sizes 0-300 and 70000, every start/length incl. last byte, empty ranges, beyond-end; open_from, read_from, read_range with both end_inclusive values).',
        note='Fakes encode RFC 7233 / boto / Azure SDK range semantics (assumption); no real cloud is contacted. Two Azure findings are listed as known.'),
    'C28': dict(
        level='exploration',
        technique='exhaustive enumeration of all strings <= 5 over a 12-symbol adversarial alphabet + Hypothesis mutation of accepted names (+ atheris in the thorough tier); two hand-written recognisers compared in both directions',
        text='283k strings per quick run through is_valid_username, validate_credentials_secret_name_input and the insert_new_user/check_valid_new_user path; accept/reject must equal the statement-derived recognisers.',
        note='Trusts the recognisers in checks/c28.py and the fake transaction on the insert_new_user path. Found and fixed: trailing newline accepted by the secret-name regex. The create request is also delivered for a user row that already exists (retry / duplicate delivery).'),
    'C29': dict(
        level='exploration',
        technique='exhaustive component grid (scheme x slashes x userinfo x host x port x tail, two deploy configs) + Hypothesis grammar-aware mutation (+ atheris in thorough); one-directional differential against an independent WHATWG-style URL resolver',
        text='1.15M candidate next URLs per quick run: whenever validate_next_page_url accepts, the independently resolved scheme must be http(s)/relative and the host one of the four service hosts.',
        note='Trusts the resolver in checks/c29.py (IDNA approximated by NFKC + lower-casing) and a fixed deploy config. Found and fixed: non-http schemes were accepted. Plus 2.4k request sequences through the real login / signup / oauth2callback / creating / logout handlers over a stand-in for aiohttp_session that saves the session also when the handler raises HTTPException: every redirect Location after a login flow must be allowed, whatever earlier requests of that session were answered.'),
    'C17': dict(
        level='exploration',
        technique='Hypothesis-generated pipelines (programs as data) built through the public Batch DSL and executed by the real LocalBackend (bash subprocesses); execution log checked against a topological-order / skip-propagation model',
        text='~350 pipelines per quick run with creation order unrelated to the DAG, explicit and resource-induced edges, cycles and failing commands: job ids and the run log respect dependencies, cycles are rejected before anything runs, exactly the documented jobs are skipped.',
        note='Real subprocesses, no docker image; the skip rule is the LocalBackend rule (direct dependency failed or skipped, always_run shields).'),
    'C18': dict(
        level='exploration',
        technique='Hypothesis-generated pipelines submitted through the real ServiceBackend._async_run against a recording fake batch client; harness-owned token/uid draws make path collisions searchable; known defects excluded by construction in guarded shards',
        text='~16k pipelines of Bash and Python jobs per quick run (~70% contain a PythonJob, ~50% a call, ~38% a converted result; PythonResults, their as_str/as_repr/as_json files and the pickled function / argument files are resources too): producer upload location == consumer download location, consumer is a child of the producer, every reference replaced by its quoted local path and nothing else, distinct resources have distinct paths.',
        note='ServiceBackend is instantiated without network (fake client/fs); dill is a pickle-backed shim, so PythonJob callables are module-level functions of the check and no python job is executed; five known findings are listed (four unguarded shards re-find them, twelve guarded shards search behind them); one defect (job token dedup) was fixed; builtin callables (run() raises from inspect.getsource) are excluded by construction and counted until that finding is listed.'),
    'C30': dict(
        level='exploration',
        technique='Hypothesis-generated event histories (pushes, reviews, labels, statuses, batch completions, target moves, delayed delivery) plus a generated fault plan (any GitHub / Batch client call fails before taking effect: 5xx, 403, timeout, disconnect; single call or outage) against a ground-truth fake GitHub/Batch with a monitor at the instant of PUT .../merge',
        text='6.7k histories per quick run (~75% reach a merge attempt) drive the real WatchedBranch/PR update, heal and merge code; every merge is judged against ground truth: approved, no blocking label, required checks green on the current head, test batch green for (head, current target), one merge per target sha.',
        note='Trusts vlib/fakegithub.py (REST/GraphQL/Batch/db fakes, no branch protection) and six replaced module globals of ci.github (shell/build config); a clause is strict only for facts CI has had the chance to read; faults fail before the effect (a served-then-lost response is outside the model, see DESIGN A.3). Two defects found were fixed.'),
    'C01': dict(
        level='exploration',
        technique='Hypothesis-generated service histories (JSON op lists) executed by the real front-end/driver code and the repository SQL on minimysql; after every op aggregates are recomputed from primary rows (reference recomputation, not a second implementation)',
        text='~1k histories per quick run (<= 43 ops; n_tokens 1/2/5 with harness-drawn shards): all eight user_inst_coll_resources columns and the job-group cancellable counters must equal the recomputation from job rows after every op.',
        note='Serializable at transaction granularity on an interpreter, not MySQL itself; INSERT..SELECT-from-target evaluated per row. Three known findings are excluded by construction (guards) and re-demonstrated from corpus/C01. Since seeded round 4 every history profile also draws `par` ops: two real calls in flight with a generated schedule at SQL statement boundaries (see DESIGN A.1); a pair that itself reaches a known finding\'s trigger ends the history unjudged.'),
    'C04': dict(
        level='exploration',
        technique='Hypothesis histories weighted to duplicated/late/stale worker messages, one case in four weaving a whole job life (pool or job-private) with a later update of its children committed at a generated point; lifecycle relation checked at every transaction boundary, tallies recomputed after every op',
        text='~1k histories per quick run: every job state change observed between two transactions must be in the allowed relation (terminal absorbing), and per-group completed/succeeded/failed/cancelled tallies must equal the count of terminal jobs in the subtree.',
        note='Same engine limits as C01; worker reports are only generated from active instances (endpoint precondition). Also judged: a complete / started / unschedule message naming a non-current attempt never changes the job row; deactivating an instance only moves jobs whose current attempt sits on it (scheduling-race production leaves stale attempts on other instances).'),
    'C05': dict(
        level='exploration',
        technique='Hypothesis histories with DAGs spread over several updates, all completion outcomes; dependency invariants recomputed from job_parents after every op',
        text='~1k histories per quick run: non-Pending => all parents terminal; no committed Pending job with all parents terminal; n_pending_parents exact; cancelled flag iff a parent did not succeed; cancelled non-always-run jobs never enter Creating/Running.',
        note='Same engine limits as C01. Chain productions commit later updates while parents are Creating / Running / Failed / Cancelled (diamonds with one failed and one live parent); legacy absolute same-update parents are generated.'),
    'C10': dict(
        level='exploration',
        technique='Hypothesis histories on pool and job-private instances (create/activate/deactivate/delete, schedule, creating, started, complete, unschedule, duplicates, stale attempts); free cores recomputed from attempts after every op and compared with table and in-memory values',
        text='~1k histories per quick run: for live instances free_cores_mcpu == cores - sum(un-ended attempt cores); inactive => all free; the driver Instance object agrees with the table.',
        note='Caller preconditions respected (worker endpoints only from active instances, unschedule only on active instances, mark_job_creating only for job-private pending instances). Same engine limits as C01. One known finding (cores of an attempt that ends on a still-pending instance are not credited), matched only for the exact uncredited amount. deactivate may lose its reply after the commit and be retried.'),
    'C41': dict(
        level='exploration',
        technique='Hypothesis histories weighted to late / never committed updates with parents in earlier updates, real scheduler and canceller loop bodies in between; direct invariants on uncommitted jobs + committed-only recomputation of counters, n_jobs and completeness',
        text='~1k histories per quick run (5 unguarded shards re-find the two known root causes, 11 guarded shards search behind them).',
        note='Same engine limits as C01. Two known findings (scheduler and mark_job_complete ignore batch_updates.committed). The first update is left open more often and cancelled before its commit (corpus/C41). A child released while another parent is unfinished is reported under its own signature, never attributed to the known finding (this is how the two-edit seeded change C05_r5 is caught).'),
    'C11': dict(
        level='exploration',
        technique='exhaustive small grid + Hypothesis demand multisets written as sharded rows into minimysql, the real PoolScheduler._compute_fair_share (incl. its GROUP BY/HAVING query) against an exact Fraction water-filling solver',
        text='~25k cases per quick run (<= 8 users, ties, zeros, negative/zero/small/large free cores, 1-5 token shards incl. negative shards, rows of another pool).',
        note='Tolerance 1 mcpu per user for the int(x + 0.5) rounding (derived slack 1/2). Trusts minimysql GROUP BY/HAVING and the solver.'),
    'C12': dict(
        level='exploration',
        technique='Hypothesis pool configurations x request strings through the real validator and front_end._create_jobs on batchsim; independent Fraction + brute-force feasibility oracle',
        text='~27k requests per quick run over gcp and azure: accepted => granted cores/memory/storage >= request and fit one worker in a matching collection; "unsatisfiable" => brute force finds no feasible collection.',
        note='Per-core memory and machine-type tables are hand-copied; fe.CLOUD patched per case. 1 request in 4 aims at the (largest power of two below worker_cores, worker_cores] window of a non-power-of-two pool. Two known crash findings (non-power-of-two pool cores) are matched only when their trigger holds under the brute-force oracle (a crash outside it is a new violation); one crash fixed.'),
    'C13': dict(
        level='exploration',
        technique='exhaustive enumeration of instance configurations (all valid gcp/azure machine types x disks x preemptible x locations x job_private) x generated packings; first-principles quantities and to_dict/from_dict/JSON round trips',
        text='~70k cases per quick run: sum of static quantities over any packing <= whole instance, whole-instance job billed exactly the instance, serialized configs bill identically.',
        note='Dynamic external storage excluded by definition; trusts first-principles quantities in checks/c13.py.'),
    'C14': dict(
        level='exploration',
        technique='every route of front_end.routes enumerated at run time x 13 caller kinds x id bindings x bodies, driven in-process through aiohttp _handle with the production middlewares on batchsim, plus generated request histories on one app instance (membership, account state, ownership and batches changing between requests, retries immediately and after virtual time); statement-derived allow/deny classes judged against the rows as they are at the moment of each request; snapshot + outbound-call + SQL-log comparison on denial',
        text='5.4k exhaustive requests + 1.6k generated + 644 request histories (164 systematic granted->revoked->retry->re-added->retry per route) per quick run: protected routes deny anonymous/inactive/strangers, owner-only mutations deny members, billing administration denies non-developers, and a denied request changes nothing.',
        note='Auth service faked at the client-session boundary; jinja rendering replaced by a JSON echo. The 10 s userdata cache is by design: for 10 s of virtual time after an account state change either state is accepted; membership and ownership must be honoured by the very next request. One defect (update token lookup without ownership check) was fixed.'),
    'C27': dict(
        level='fault_enumeration',
        technique='exhaustive single-fault enumeration (31 body shapes x attempt 1..3 x every position x 14 error kinds) + Hypothesis multi-fault plans injected through the fake driver into the real gear.database; dict reference model',
        text='Retried iff the injected error is transient (1040, 1205, 1213, 2003, 2013); other errors propagate after one attempt; table equals "exactly one committed attempt or none"; every connection released once.',
        note='A fault at COMMIT is modelled as commit-did-not-happen; streaming select helpers have no retry wrapper (documented). One defect (1205 as OperationalError) was fixed. The stand-in models statement-level rollback for 1205 and whole-transaction rollback for 1213/2013/COMMIT errors; connections are inspected at pool.release and an append-only log table makes a write applied twice visible; both pool behaviours (close vs reuse of an in-transaction connection) are cases.'),
    'C35': dict(
        level='translation_validation',
        technique='generated shared-node IR DAGs (expression API and direct ir constructors) rendered with CSERenderer and PlainRenderer; binder-identity scope checking, let-erasure comparison and differential evaluation in a reference interpreter',
        text='~4.5k DAGs per quick run incl. lets depending on lambda variables, agg/scan scopes and nested lambdas; both texts are parsed and related.',
        note='Trusts vlib/irtools.py (reader + binding table transcribed from Binds.scala/Env.scala) and the reference interpreter; aggregations and scans are evaluated over explicit row lists (Sum/Count/Collect/Take; filter/explode/group-by/per-element contexts), and a let that aggregates must sit under the context chain of each use. Six known signatures (two root causes).'),
    'C36': dict(
        level='exploration',
        technique='typed-program generation over the expression/Table/MatrixTable APIs without execution; an independent bottom-up type inferencer over the emitted IR text with rules written from the Scala InferType/TypeCheck/TableIR/MatrixIR',
        text='~3.6k programs per quick run (190k IR nodes): front-end dtype == inferred IR type for every node, Ref and table/matrix component; literals typecheck.',
        note='Typing rules and 32 registry signatures are hand-transcribed; node kinds outside the rule set are counted (0). One known finding (impute_type numpy widening). Mixed numeric expression containers and unifiers, widening folds / scans (accumulator binder vs Ref type), joins on non-leading keys; two defects found were fixed (ArrayExpression.contains, tbool and numpy.bool_). An object converted implicitly, changed in place and converted again must be described as it is now; a constructed literal must render (one known finding: struct members unified to the union of their fields).'),
    'C38': dict(
        level='exploration',
        technique='exhaustive + Hypothesis interval sizes on the real partitioning; op-list merge plans through the real new_combiner/run/step/save/load with provenance-tracking engine fakes and crash/resume injection',
        text='MT/chrM sizes 1-5000 exhaustive for both genomes, whole-genome sizes to 3e8; hundreds of merge plans each with ~6 resume points: one final dataset built from exactly the inputs, each once; saved plan is a fixed point.',
        note='Part (b) says nothing about the engine merge itself. Three defects found were fixed. Only uuid4 is harness-owned; the rest of the uuid module is real.'),
    'C02': dict(
        level='exploration',
        technique='Hypothesis histories weighted to attempts, heartbeats, late/duplicate completions, UTC day changes and compaction; all four billing aggregates recomputed from attempts x attempt_resources after every op',
        text='~1k histories per quick run: usage per job, per job group with descendants, per billing project+user and summed over days == sum quantity x max(rollup-start,0); per-day rows only change on the current UTC day; compaction changes no total.',
        note='Same engine limits as C01; RAND() token shards drawn by the harness. Compaction runs are paired (`par`) with the writers of the table they rewrite under generated schedules; corpus/C02 holds the minimal lost-update schedule.'),
    'C03': dict(
        level='fault_enumeration',
        technique='Hypothesis-generated report sequences (schedule, started, heartbeat, complete, unschedule, deactivate, duplicates, out-of-order timestamps) through the real procedures and the attempts_before_update trigger; before/after row relation per op',
        text='~1k histories per quick run: billed >= 0, bounded by end-start once ended, never decreases except on an earlier end / activation timeout, start only moves earlier, (end, reason) only change to an earlier end.',
        note='Fault sequences are generated, not exhaustively enumerated; observed per op (each op issues at most one UPDATE per attempt row). activation_timeout only on never-activated instances (caller precondition). The exceptions of the statement are judged by the report (op result), not the row: after an activation-timeout report every attempt on that instance must be billed 0; the canceller has a crash variant (driver stops between mark_job_complete and the instance deletion).'),
    'C06': dict(
        level='exploration',
        technique='Hypothesis histories with nested groups and multi-update submission; after every op every batch and visible job group is read through the real _get_batch/_get_job_group and compared with a recomputation over committed jobs',
        text='~800 histories per quick run: complete flag, n_jobs, four tallies, state string, time_completed and visibility of uncommitted groups.',
        note='Same engine limits as C01.'),
    'C07': dict(
        level='exploration',
        technique='Hypothesis histories weighted to cancels in every order with creation, scheduling and completion inside / beside / above the cancelled subtree; before/after snapshot relations + "request answered normally" clause',
        text='~1k histories per quick run (5 unguarded shards re-find the error-1242 finding, 11 guarded shards search behind it).',
        note='Same engine limits as C01; error 1242 semantics of minimysql has its own self-test. One known finding (is_job_cancelled returns one row per cancelled ancestor). Guards sit on the exact trigger (descendant first, then its ancestor); nested-cancel chain production with multi-request updates beneath generated groups; Creating->Running of a cancelled job is judged; a refusal by the foreign key (never-created group in the bunch) is not judged by status. Canceller passes can run while the shared worker pool is busy (pool size generated); a job never marked cancelled must not become Cancelled.'),
    'C08': dict(
        level='exploration',
        technique='schema-directed Hypothesis generation of create-fast / update-fast / jobs-create submissions with adversarial job and parent ids through the real aiohttp application on batchsim; structural validity + fair drive to completion; committed-state comparison on refusal',
        text='~640 multi-submission cases per quick run: an accepted submission only references existing earlier jobs and in-range ids and the committed batch reaches complete=true when every attempt succeeds; a refused submission leaves the committed-visible state unchanged.',
        note='Same engine limits as C01; dependencies on jobs of a never-committed update are counted, not judged. Found and fixed: ids outside the update range and self/later/missing parents were accepted.'),
    'C39': dict(
        level='exploration',
        technique='Hypothesis interleavings of the real scheduler loop, four canceller bodies, simulated workers (duplicate/late/stale reports), preemption and user cancels, followed by a fair closing phase to a fixpoint; safety invariants per op, bounded liveness at the fixpoint',
        text='~640 histories per quick run: running jobs always have exactly one current attempt, stale reports never change job state; at the fair fixpoint every committed job is terminal, batches complete, always-run jobs ran.',
        note='Liveness only as fixpoint detection under the stated fairness model at transaction granularity; round bound 60 => inconclusive. Known findings are excluded by construction. Batches whose completion the harness itself withholds (known-finding guard) or that depend on a never-committed update are not judged for liveness; the stale-report clause covers unschedule.'),
    'C09': dict(
        level='fault_enumeration',
        technique='Hypothesis pipelines for the real aioclient (jobs, parents, job groups, 1-3 submits, small bunch limits) through the real retrying Session into the real front-end app; per-request fault plan (lost response -> client retry, duplicate delivery); invariants + metamorphic comparison with the fault-free run',
        text='400 pipelines x fault plans per quick run (both fast path and multi-bunch path): no second batch/update, contiguous ordered id ranges, no double counting (n_jobs, scheduler counters), client ids == server ids, and the faulty run equals the fault-free run when all calls returned.',
        note='Duplicates are delivered after the first request completed (no concurrent duplicate inside one transaction window); a second client with its own batch is interleaved request-by-request under a generated turn schedule. Observation (not judged): a re-sent job-group bunch is answered 400 "not submitted in order".'),
}
