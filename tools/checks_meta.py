"""Per-property metadata for MANIFEST.json (edited by hand; MANIFEST.json is generated from it)."""

ENGINES = [
    {'name': 'runner', 'path': 'vlib/runner.py', 'serves_properties': ['*'],
     'kind_free_text': 'CLI, 16-process shard pool, Hypothesis collect-then-shrink driver (vlib/hyp.py), known-finding matching, replay + evidence writer'},
    {'name': 'hostenv', 'path': 'vlib/hostenv.py', 'serves_properties': ['*'],
     'kind_free_text': 'imports the repo Python from /repo via sys.path, stub modules for absent third-party packages, synthetic version modules'},
]

NOT_APPLICABLE = {}

CHECKS = {
    'C25': dict(
        level='exploration',
        technique='exhaustive grids + Hypothesis grammar-based generation against an exact Fraction oracle and a hand-written recogniser (differential client/server/reference)',
        text='All d.ddd x unit and 0..4096 x unit strings are enumerated exhaustively and thousands of grammar/near-grammar strings are generated per run; '
             'each is compared with exact rational arithmetic and with the server validator. Held-on-everything-explored; the enumerated grids are complete.',
        note='Trusts the Fraction oracle and the hand-written recogniser in checks/c25.py; "exact value" = decimal literal as a rational times the unit factor.'),
    'C16': dict(
        level='exploration',
        technique='exhaustive op-sequence enumeration (small capacities) + Hypothesis op lists, drained on a harness-owned asyncio loop, against statement invariants and a deque reference model',
        text='Every acquire/release sequence up to a length bound is enumerated for capacities 1-3(4) and thousands of longer random sequences for capacity 1-16; '
             'after each op the real FIFOWeightedSemaphore (through the context-manager form the worker uses) is compared with the safety/FIFO/liveness invariants.',
        note='Single-threaded asyncio, so op order is the whole schedule space; trusts vlib/aiosched.py. Waiter cancellation is not in the statement and not generated.'),
    'C40': dict(
        level='exploration',
        technique='exhaustive + Hypothesis histories of enter/finish/fail/cancel (including cancel racing a grant) on a harness-owned loop; invariant oracle on value, wait list and liveness',
        text='All op sequences up to length 5-6 for max<=3 plus tens of thousands of random ones for max<=16; after every op value == max - held, no fitting waiter blocked; at the end value == max and the wait list is empty.',
        note='Trusts vlib/aiosched.py; grant order is not checked (not promised). Found and fixed a capacity leak on waiter cancellation (known_findings.json).'),
    'C24': dict(
        level='exploration',
        technique='Hypothesis-generated arrival patterns under a virtual clock; sliding-window invariant + closed-form work-conserving reference schedule (multiset comparison)',
        text='40k arrival patterns per quick run (counts 1-5, four window lengths, bursts/ties on an exactly representable grid); admits are checked against the window bound and a reference T_k = max(a_k, T_{k-count}+W).',
        note='time.time and loop time are one virtual clock; trusts vlib/aiosched.py and the closed-form reference.'),
    'C20': dict(
        level='exploration',
        technique='Hypothesis-generated completion/failure/cancellation plans over gate-driven tasks on a harness-owned asyncio loop; invariant + outcome oracle; tracking semaphore attributes the known over-release',
        text='~19k plans per quick run over flat, nested (Copier-shaped) and online gathers with the caller holding a slot; checks the running-at-once bound (also on a second gather on the same semaphore), result order, exception contract, cancel-and-wait and task leaks at the instant control returns.',
        note='Single-threaded asyncio; trusts vlib/aiosched.py. One known finding (semaphore over-release on error exit) is compensated per case and counted; two defects found were fixed.'),
    'C21': dict(
        level='exploration',
        technique='Hypothesis sequences from a labelled exception catalogue (with raise-from chains) under a virtual clock and harness-chosen jitter; exhaustive grid for delay_ms_for_try',
        text='Invocation counts, outcomes and every sleep are compared with the statement for the async, debug-string, delayed-warning and sync variants; delay_ms_for_try is enumerated for tries 0..100 x extreme jitter x six base/max pairs.',
        note='Catalogue labels come from the documentation comments in utils.py (not from calling is_transient_error); random.randrange/time.sleep replaced in the module namespace.'),
    'C26': dict(
        level='exploration',
        technique='Hypothesis op lists (lookup / load_ok / load_fail / cancel / advance) on a harness-owned loop with a virtual monotonic clock; invariant oracle with per-lookup load attribution',
        text='32k histories per quick run with 1-3 slots, 4 keys and clock steps at L-1, L, L+1; checks capacity, freshness, single-flight and that a lookup fails only for its own load failure or its own cancellation.',
        note='prometheus timing wrapper replaced by a pass-through; trusts vlib/aiosched.py. Found and fixed: cancelling one caller failed its co-waiters.'),
}
