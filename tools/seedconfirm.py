#!/venv/bin/python
"""Confirm a seeded change produced by a sub-agent and run the matching check against it.

usage: tools/seedconfirm.py OUTDIR WORKTREE ID [--tier quick] [--keep]
  OUTDIR/ID/{patch.diff, demo.py|demo_test.py|demo.md, meta.json};  WORKTREE = a scratch git worktree of /repo (clean).
Steps: demo on the clean worktree (must pass), apply patch, py_compile touched files, pinned test suite (63 passed), demo (must
fail), revert; then ./check ID against a scratch copy with the patch (tools/mutate.py --patch).  Prints a JSON summary; with
--keep copies the artefacts to /verif/seeded/ID/ (adding what was run to meta.json).
"""
import argparse
import json
import os
import shutil
import subprocess
import sys

ap = argparse.ArgumentParser()
ap.add_argument('outdir')
ap.add_argument('worktree')
ap.add_argument('id')
ap.add_argument('--tier', default='quick')
ap.add_argument('--keep', action='store_true')
ap.add_argument('--name', default=None)
ap.add_argument('--dir', default=None, help='sub-directory of OUTDIR holding the artefacts (default: ID)')
a = ap.parse_args()
VERIF = os.path.dirname(os.path.dirname(os.path.abspath(__file__)))
d = os.path.join(a.outdir, a.dir or a.id)
patch = os.path.join(d, 'patch.diff')
wt = a.worktree


def sh(cmd, **kw):
    return subprocess.run(cmd, capture_output=True, text=True, **kw)


def run_demo():
    for name in ('demo.py', 'demo_test.py'):
        p = os.path.join(d, name)
        if os.path.exists(p):
            env = dict(os.environ, REPO_ROOT=wt)
            if name == 'demo_test.py':
                r = sh(['/venv/bin/python', '-m', 'pytest', '-q', '-p', 'no:cacheprovider', p], env=env, cwd=wt)
            else:
                r = sh(['/venv/bin/python', p, wt], env=env, cwd=wt)
            return r.returncode, (r.stdout + r.stderr).strip().splitlines()[-3:]
    return None, ['no executable demo (demo.md only)']


summary = {'id': a.id, 'outdir': d}
assert sh(['git', '-C', wt, 'status', '--porcelain']).stdout.strip() == '', 'worktree not clean'
summary['demo_clean'] = run_demo()
r = sh(['git', '-C', wt, 'apply', patch])
if r.returncode != 0:
    print('patch does not apply:', r.stderr)
    sys.exit(2)
try:
    files = [l[6:] for l in open(patch) if l.startswith('+++ b/')]
    summary['files'] = files
    bad = [f for f in files if f.endswith('.py') and sh(['/venv/bin/python', '-m', 'py_compile', os.path.join(wt, f)]).returncode != 0]
    summary['py_compile_failures'] = bad
    t = sh(['/venv/bin/python', '-m', 'pytest', '-q', '-p', 'no:cacheprovider', '--timeout=900', '--continue-on-collection-errors'], cwd=wt)
    summary['baseline_with_patch'] = (t.stdout.strip().splitlines() or ['?'])[-1]
    summary['demo_patched'] = run_demo()
finally:
    sh(['git', '-C', wt, 'checkout', '--', '.'])
c = sh([os.path.join(VERIF, 'tools', 'mutate.py'), a.id, '--patch', patch, '--tier', a.tier])
lines = (c.stdout + c.stderr).strip().splitlines()
summary['check'] = {'verdict': 'KILLED' if c.returncode == 0 else 'SURVIVED' if c.returncode == 1 else 'HARNESS-ERROR',
                    'tail': [l[:300] for l in lines if 'VIOLATION' in l or l.startswith(a.id + ' tier') or 'HARNESS' in l][-4:]}
print(json.dumps(summary, indent=1))
print('SEEDCONFIRM', a.dir or a.id, 'clean', summary['demo_clean'][0], 'patched', summary['demo_patched'][0], summary['baseline_with_patch'][:24],
      summary['check']['verdict'], (summary['check']['tail'] or [''])[-1][:160])
if a.keep:
    dst = os.path.join(VERIF, 'seeded', a.name or a.id)
    os.makedirs(dst, exist_ok=True)
    for f in os.listdir(d):
        shutil.copy(os.path.join(d, f), os.path.join(dst, f))
    mp = os.path.join(dst, 'meta.json')
    meta = json.load(open(mp)) if os.path.exists(mp) else {}
    meta['confirmed_by_verif'] = summary
    json.dump(meta, open(mp, 'w'), indent=1)
