#!/bin/sh
# Run every thorough tier once (seed from VERIF_SEED, default 1); print one line per check.  Exit 1 if any check is not quiet.
cd "$(dirname "$0")/.." || exit 2
./setup.sh >/dev/null 2>&1
bad=0
for id in ${IDS:-$(/venv/bin/python -c "import json;print(' '.join(c['property_id'] for c in json.load(open('MANIFEST.json'))['checks']))")}; do
  t0=$(date +%s)
  out=$(./check "$id" --tier thorough --no-evidence 2>&1); rc=$?
  t1=$(date +%s)
  echo "thorough $id rc=$rc wall=$((t1-t0))s $(echo "$out" | grep -E "^$id tier|VIOLATION|HARNESS" | tail -3 | tr '\n' ' ' | cut -c1-600)"
  [ $rc -ne 0 ] && bad=1
done
exit $bad
