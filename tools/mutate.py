#!/venv/bin/python
"""Sensitivity helper: run a check against a mutated scratch copy of the repo (never touches /repo).

usage: tools/mutate.py CHECK FILE 'old text' 'new text' [--count N] [--tier quick] [--seed N]
       tools/mutate.py CHECK --patch some.diff
Creates /tmp/vmut-<pid>/ (copies of the Python/SQL trees; hail/hail/src only if FILE is under it), applies the
replacement, runs ./check CHECK with VERIF_REPO pointing there and --no-evidence, prints the tail and the exit code,
removes the scratch copy.  Exit status: 0 if the check reported a VIOLATION (mutant killed), 1 if it stayed green,
2 on harness error.
"""
import argparse
import os
import shutil
import subprocess
import sys

ap = argparse.ArgumentParser()
ap.add_argument('check')
ap.add_argument('file', nargs='?')
ap.add_argument('old', nargs='?')
ap.add_argument('new', nargs='?')
ap.add_argument('--patch')
ap.add_argument('--count', type=int, default=1)
ap.add_argument('--tier', default='quick')
ap.add_argument('--seed', default='1')
ap.add_argument('--scala', action='store_true')
ap.add_argument('--shell', help='run this shell command (VERIF_REPO set to the mutated copy) instead of the check')
ap.add_argument('--replay', help='replay one case file against the mutated copy instead of running the tier')
a = ap.parse_args()

VERIF = os.path.dirname(os.path.dirname(os.path.abspath(__file__)))
dst = f'/tmp/vmut-{os.getpid()}'
os.makedirs(dst)
try:
    need_scala = a.scala or (a.file and a.file.startswith('hail/hail')) or bool(a.patch and ' b/hail/hail/' in open(a.patch).read())
    for d in ('hail/python', 'gear', 'batch', 'auth', 'ci', 'web_common'):
        os.makedirs(os.path.dirname(os.path.join(dst, d)) or dst, exist_ok=True)
        shutil.copytree(os.path.join('/repo', d), os.path.join(dst, d), symlinks=True,
                        ignore=shutil.ignore_patterns('__pycache__', 'node_modules'))
    shutil.copy('/repo/build.yaml', os.path.join(dst, 'build.yaml'))
    os.makedirs(os.path.join(dst, 'hail/hail'), exist_ok=True)
    for ent in os.listdir('/repo/hail/hail'):
        srcp, dstp = os.path.join('/repo/hail/hail', ent), os.path.join(dst, 'hail/hail', ent)
        if need_scala and os.path.isdir(srcp) and ent not in ('build', 'out', '.bloop', '.metals'):
            shutil.copytree(srcp, dstp, symlinks=True)
        else:
            os.symlink(srcp, dstp)
    if a.patch:
        r = subprocess.run(['git', 'apply', '--unsafe-paths', '--directory', dst, os.path.abspath(a.patch)], cwd='/',
                           capture_output=True, text=True)
        if r.returncode != 0:
            r = subprocess.run(['patch', '-p1', '-d', dst, '-i', os.path.abspath(a.patch)], capture_output=True, text=True)
        if r.returncode != 0:
            print('patch failed:', r.stdout, r.stderr)
            sys.exit(2)
    else:
        if os.path.isabs(a.file):
            a.file = os.path.relpath(a.file, '/repo')      # never touch /repo itself
        assert not a.file.startswith('..'), 'FILE must be inside the repository'
        p = os.path.join(dst, a.file)
        s = open(p).read()
        n = s.count(a.old)
        if n != a.count:
            print(f'mutate: expected {a.count} occurrence(s) of old text, found {n}')
            sys.exit(2)
        open(p, 'w').write(s.replace(a.old, a.new))
    env = dict(os.environ, VERIF_REPO=dst, VERIF_SEED=a.seed)
    if a.shell:
        sys.exit(subprocess.run(a.shell, shell=True, env=env, cwd=VERIF).returncode)
    args = ['--replay', os.path.abspath(a.replay)] if a.replay else ['--tier', a.tier, '--no-evidence']
    r = subprocess.run([os.path.join(VERIF, 'check'), a.check] + args, env=env,
                       capture_output=True, text=True)
    out = (r.stdout + r.stderr).strip().splitlines()
    print('\n'.join(out[-8:]))
    print(f'[mutate] check exit={r.returncode} -> {"KILLED" if r.returncode == 1 else "SURVIVED" if r.returncode == 0 else "HARNESS-ERROR"}')
    sys.exit({1: 0, 0: 1}.get(r.returncode, 2))
finally:
    shutil.rmtree(dst, ignore_errors=True)
