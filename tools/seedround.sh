#!/bin/sh
# tools/seedround.sh OUTDIR WORKTREE TAG  — confirm every variant directory under OUTDIR (names <ID><suffix>) and keep it as seeded/<ID>_<TAG><suffix>
out=$1; wt=$2; tag=$3
cd "$(dirname "$0")/.." || exit 2
for d in "$out"/C[0-9][0-9]*; do
  [ -f "$d/patch.diff" ] || continue
  b=$(basename "$d"); id=$(echo "$b" | cut -c1-3); suf=$(echo "$b" | cut -c4-)
  r=$(tools/seedconfirm.py "$out" "$wt" "$id" --dir "$b" --keep --name "${id}_${tag}${suf}" 2>&1)
  echo "$r" | grep "^SEEDCONFIRM\|patch does not apply\|worktree not clean\|Error" | tail -2
done
