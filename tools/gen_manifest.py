#!/venv/bin/python
"""Regenerate /verif/MANIFEST.json from tools/checks_meta.py (keeps it schema-valid at all times)."""
import json
import os
import sys

HERE = os.path.dirname(os.path.dirname(os.path.abspath(__file__)))
sys.path.insert(0, HERE)
sys.path.append(os.path.join(HERE, '.deps'))
from tools.checks_meta import CHECKS, NOT_APPLICABLE, ENGINES  # noqa: E402

props = [json.loads(l)['id'] for l in open(os.path.join(HERE, 'properties.jsonl'))]
checks = []
for pid in props:
    m = CHECKS.get(pid)
    if not m:
        continue
    if not os.path.exists(os.path.join(HERE, 'checks', pid.lower() + '.py')):
        raise SystemExit(f'{pid} registered without checks/{pid.lower()}.py')
    checks.append({
        'property_id': pid,
        'quick_cmd': f'./check {pid} --tier quick',
        'thorough_cmd': f'./check {pid} --tier thorough',
        'evidence_file': f'/verif/evidence/{pid}.json',
        'replay_cmd_template': f'./check {pid} --replay {{path}}',
        'engine': m.get('engine', 'runner'),
        'level_claimed': {'category': m['level'], 'text': m['text'], 'design_ref': f'DESIGN.md §3 {pid}'},
        'level_note': m['note'],
        'technique': m['technique'],
    })
na = []
for pid in props:
    if pid not in CHECKS:
        na.append({'property_id': pid, 'reason': NOT_APPLICABLE.get(pid, 'no check built yet in this round; see DESIGN.md')})
man = {
    'version': 1,
    'setup_cmd': './setup.sh',
    'hooks': {
        'guard': 'HAIL_VERIF',
        'enable': 'no source hooks: all instrumentation is external (monkeypatching, fake drivers, stub modules, slices compiled outside the tree)',
        'baseline_off_cmd': 'cd /repo && /venv/bin/python -m pytest -ra -q -p no:cacheprovider --timeout=900 --continue-on-collection-errors',
        'source_commits': [],
        'add_only': True,
    },
    'engines': ENGINES,
    'checks': checks,
    'not_applicable': na,
    'notes': 'Technique family: property-based testing and fuzzing. Entry point ./check <ID> [--tier quick|thorough] [--replay path]; '
             'exit 0 held / 1 VIOLATION / 2 harness error or inconclusive. known_findings.json lists genuine defects (known/fixed).',
}
try:
    import jsonschema
    schema = json.load(open('/root/.vp/MANIFEST.schema.json'))
    jsonschema.validate(man, schema)
except ImportError:
    pass
with open(os.path.join(HERE, 'MANIFEST.json'), 'w') as f:
    json.dump(man, f, indent=1)
print(f'MANIFEST.json: {len(checks)} checks, {len(na)} not_applicable')
