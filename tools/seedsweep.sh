#!/bin/sh
# run every registered check at several seeds; print one line per (check, seed) that is not clean
cd "$(dirname "$0")/.." || exit 2
./setup.sh >/dev/null 2>&1
for s in ${SEEDS:-2 3 4}; do
  for c in $(/venv/bin/python -c "import json;print(' '.join(x['property_id'] for x in json.load(open('MANIFEST.json'))['checks']))"); do
    out=$(VERIF_SEED=$s ./check $c --no-evidence 2>&1); rc=$?
    line=$(echo "$out" | grep "^$c tier" | tail -1)
    echo "seed=$s rc=$rc $line"
    if [ $rc -ne 0 ]; then echo "$out" | grep "VIOLATION\|HARNESS\|INCONCLUSIVE\|message:" | head -5; fi
  done
done
