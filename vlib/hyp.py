"""Hypothesis driver with collect-then-shrink.

check_fn(case) -> (nontrivial: bool, classes: iterable[str], failures: list[(signature, clause, message)])
The case must be JSON-able (or reprs are used for hashing/samples).
"""
from __future__ import annotations

import time

from hypothesis import HealthCheck, Phase, given, seed as hseed, settings
from hypothesis.errors import Unsatisfiable
try:
    from hypothesis.errors import FlakyFailure as _Flaky1
except ImportError:      # older hypothesis
    _Flaky1 = ()
from hypothesis.errors import Flaky as _Flaky2

from .runner import Result, known_signatures


class _Found(Exception):
    pass


def search(res: Result, prop: str, strategy, check_fn, n: int, seed: int, *, shrink=True, max_rounds=4,
           budget_s: float | None = None, to_json=lambda c: c, stateful_step_count=None):
    """Run up to `n` generated cases; collect distinct failure signatures, each shrunk."""
    suppress = set(known_signatures(prop))
    known = set(suppress)
    t_end = None if budget_s is None else time.time() + budget_s
    remaining = n
    rnd = 0
    while remaining > 0 and rnd < max_rounds:
        rnd += 1
        state = {'n': 0, 'last': None, 'in_shrink': False}
        phases = [Phase.generate] + ([Phase.shrink] if shrink else [])

        def body(case):
            if t_end is not None and time.time() > t_end and state['last'] is None:
                res.notes['budget_hit'] = 1
                return
            state['n'] += 1
            nontrivial, classes, failures = check_fn(case)
            jcase = to_json(case)
            res.case(jcase, nontrivial, classes)
            new = []
            for sig, clause, msg in failures:
                if sig in known:
                    res.known_hits[sig] = res.known_hits.get(sig, 0) + 1
                elif sig in suppress:
                    pass
                else:
                    new.append((sig, clause, msg))
            if new:
                state['last'] = (jcase, new)
                raise _Found(new[0][0])

        test = settings(max_examples=remaining, database=None, deadline=None, derandomize=False,
                        report_multiple_bugs=False, suppress_health_check=list(HealthCheck), phases=phases,
                        print_blob=False)(hseed(seed + rnd - 1)(given(strategy)(body)))
        try:
            test()
        except _Found:
            jcase, new = state['last']
            for sig, clause, msg in new:
                res.fail(sig, clause, msg, jcase)
                suppress.add(sig)
        except (_Flaky1, _Flaky2) if _Flaky1 else _Flaky2:
            # the failure was observed but did not recur on Hypothesis' re-execution: the code under test is schedule-dependent
            # (real threads).  The observed failing case is reported as it was seen.
            if state['last'] is not None:
                jcase, new = state['last']
                for sig, clause, msg in new:
                    res.fail(sig, clause, '[observed once, not reproduced on immediate re-execution] ' + str(msg), jcase)
                    suppress.add(sig)
                res.notes['flaky_failures'] = res.notes.get('flaky_failures', 0) + 1
            else:
                raise
        except Unsatisfiable:
            res.notes['unsatisfiable'] = 1
            break
        else:
            break
        remaining -= state['n']
    return res
