"""E3 batchsim — the Batch service (front end + driver) in one process on top of minimysql.

Every op executes REAL repository code (front_end._create_*, batch.cancel_job_group_in_db, driver.job.mark_job_*, Instance.*,
PoolScheduler.schedule_loop_body, Canceller.*_loop_body, driver.main clean-up/audit functions).  SQL is never re-typed here.
"""
from __future__ import annotations

import asyncio
import json
import types

from vlib import hostenv

_booted = None


class Mods:
    pass


def boot():
    """Import the repo modules once per process and route their time/randomness through the current Sim."""
    global _booted
    if _booted is not None:
        return _booted
    hostenv.prepare_services()
    from vlib.minimysql import driver as mdriver, schema as mschema
    import gear
    import gear.database
    from aiohttp import web
    import batch.front_end.front_end as fe
    import batch.batch as bb
    import batch.driver.job as dj
    import batch.driver.instance as di
    import batch.driver.canceller as dc
    import batch.driver.main as dm
    import batch.driver.instance_collection.pool as dp
    import batch.driver.instance_collection.base as dbase
    import batch.inst_coll_config as icc
    import batch.spec_writer as sw
    import hailtop.utils as hu
    m = Mods()
    m.mdriver, m.mschema, m.gear, m.web, m.fe, m.bb, m.dj, m.di, m.dc, m.dm, m.dp, m.dbase, m.icc, m.sw, m.hu = \
        mdriver, mschema, gear, web, fe, bb, dj, di, dc, dm, dp, dbase, icc, sw, hu
    m.cur = None

    def now():
        return m.cur.now_ms()

    for mod in (fe, dj, di, dc, dm, dp, dbase):
        if hasattr(mod, 'time_msecs'):
            mod.time_msecs = now

    class _Rand:
        @staticmethod
        def randint(a, b):
            return m.cur.draw_int(a, b)

        @staticmethod
        def random():
            return m.cur.draw_float()

        @staticmethod
        def randrange(n):
            return m.cur.draw_int(0, n - 1)

        @staticmethod
        def choice(xs):
            return xs[m.cur.draw_int(0, len(xs) - 1)]

        def __getattr__(self, k):
            import random
            return getattr(random, k)
    fe.random = _Rand()
    dp.random = _Rand()

    def _alnum(n=22, *, case=None):
        return m.cur.fresh_token(n)
    for mod in (dp, sw, di, dbase, fe, dj):
        if hasattr(mod, 'secret_alnum_string'):
            mod.secret_alnum_string = _alnum
    _booted = m
    return m


class FakeFileStore:
    def __init__(self):
        self.specs = {}
        self.status = {}

    async def write_spec_file(self, batch_id, token, data_bytes, offsets_bytes):
        self.specs[(batch_id, token)] = (data_bytes, offsets_bytes)

    async def read_spec_file(self, batch_id, token, start_job_id, job_id):
        data, offs = self.specs[(batch_id, token)]
        i = job_id - start_job_id
        a = int.from_bytes(offs[8 * i:8 * i + 8], 'little')
        b = int.from_bytes(offs[8 * i + 8:8 * i + 16], 'little')
        return data[a:b].decode()

    async def write_status_file(self, batch_id, job_id, attempt_id, status):
        self.status[(batch_id, job_id, attempt_id)] = status

    async def read_status_file(self, batch_id, job_id, attempt_id):
        return self.status[(batch_id, job_id, attempt_id)]

    async def delete_batch_logs(self, batch_id):
        pass

    async def delete_spec_file(self, batch_id, token):
        self.specs.pop((batch_id, token), None)

    async def close(self):
        pass


class FakeResponse:
    def __init__(self, status=200, body=None):
        self.status = status
        self._body = body or {}

    async def json(self):
        return self._body

    async def text(self):
        return json.dumps(self._body)

    async def __aenter__(self):
        return self

    async def __aexit__(self, *a):
        return False

    def release(self):
        pass


class FakeClientSession:
    """Records outbound HTTP; worker endpoints answer 200 unless the sim says otherwise."""

    def __init__(self, sim):
        self.sim = sim
        self.calls = []

    def _rec(self, method, url, kw):
        self.calls.append((method, url))
        hook = self.sim.http_hook
        if hook is not None:
            r = hook(method, url, kw)
            if r is not None:
                return r
        return FakeResponse()

    async def post(self, url, **kw):
        return self._rec('POST', url, kw)

    async def patch(self, url, **kw):
        return self._rec('PATCH', url, kw)

    async def delete(self, url, **kw):
        return self._rec('DELETE', url, kw)

    def get(self, url, **kw):
        return self._rec('GET', url, kw)

    async def get_read_json(self, url, **kw):
        r = self._rec('GET', url, kw)
        return await r.json()


class NullTaskManager:
    """ensure_future that never runs background loops (the harness calls loop bodies itself) but does run one-shot
    notification coroutines to completion later if asked."""

    def __init__(self):
        self.dropped = 0

    def ensure_future(self, coro):
        self.dropped += 1
        coro.close()

    def shutdown(self):
        pass

    async def shutdown_and_wait(self):
        pass


class App(dict):
    pass


class Sim:
    def __init__(self, *, n_tokens=2, users=('u1', 'u2'), seed_draws=None, worker_cores=16, start_ms=1_700_000_000_000,
                 buffered_insert_select=False, pool_par=8):
        self.m = boot()
        self.cfg = dict(n_tokens=n_tokens, users=list(users), worker_cores=worker_cores, buffered_insert_select=buffered_insert_select,
                        pool_par=pool_par)
        self._now = start_ms
        self.draws = list(seed_draws or [])
        self._draw_i = 0
        self._tok = 0
        self.http_hook = None
        self.instances = {}      # name -> real Instance
        self.engine = None

    # ---- harness-owned time and randomness -------------------------------------------------------
    def now_ms(self):
        return self._now

    def tick(self, ms=1):
        self._now += ms

    def _next_draw(self):
        if not self.draws:
            return 0
        v = self.draws[self._draw_i % len(self.draws)]
        self._draw_i += 1
        return v

    def draw_int(self, a, b):
        return a + self._next_draw() % (b - a + 1)

    def draw_float(self):
        return (self._next_draw() % 16) / 16.0

    def fresh_token(self, n):
        self._tok += 1
        s = f't{self._tok:x}'
        return s.rjust(n, 'z')[:max(n, len(s))]

    # ---- start-up ------------------------------------------------------------------------------
    async def start(self):
        m = self.m
        m.cur = self
        users = self.cfg['users']
        eng = m.mschema.new_batch_engine(hostenv.REPO, seed=True, n_tokens=self.cfg['n_tokens'], resources={},
                                         billing_projects={'bp1': list(users), 'bp2': [users[0]]},
                                         worker_cores=self.cfg['worker_cores'])
        self.engine = eng
        eng.clock = lambda: self._now / 1000.0
        eng.rand_source = self.draw_float
        # verdict semantics: per-row evaluation of INSERT..SELECT from the target table (see DESIGN, minimysql notes)
        eng.insert_select_same_table_buffered = bool(self.cfg.get('buffered_insert_select', False))
        s = eng.connect()
        try:
            # product versions and resources for everything an n1 instance config can name
            prods = ['service-fee', 'gcp-support-logs-specs-and-firewall-fees']
            for p in ('preemptible', 'nonpreemptible'):
                prods.append(f'ip-fee/{p}/1024')
                for region in ('us-central1', 'us-east1'):
                    prods += [f'compute/n1-{p}/{region}', f'memory/n1-{p}/{region}', f'disk/local-ssd/{p}/{region}']
            for region in ('us-central1', 'us-east1'):
                prods.append(f'disk/pd-ssd/{region}')
            for i, p in enumerate(prods):
                s.execute('INSERT INTO latest_product_versions (product, version, sku) VALUES (%s, %s, %s)', (p, '1', None))
                s.execute('INSERT INTO resources (resource, rate) VALUES (%s, %s)', (p + '/1', 1e-9 * (i + 1)))
            # one extra resource that dedups onto another id (exercises deduped_resource_id != resource_id)
            s.execute('INSERT INTO resources (resource, rate) VALUES (%s, %s)', ('compute/n1-preemptible/us-central1/0', 1e-9))
            s.execute('UPDATE resources SET deduped_resource_id = resource_id WHERE deduped_resource_id IS NULL')
            s.execute("UPDATE resources AS a INNER JOIN resources AS b ON b.resource = 'compute/n1-preemptible/us-central1/1' "
                      "SET a.deduped_resource_id = b.resource_id WHERE a.resource = 'compute/n1-preemptible/us-central1/0'")
        finally:
            eng.close_session(s)
        m.mdriver.set_engine(eng)
        self.db = m.gear.Database()
        await self.db.async_init(maxsize=8)
        app = App()
        self.app = app
        app['db'] = self.db
        app['n_tokens'] = self.cfg['n_tokens']
        app['frozen'] = False
        app['instance_id'] = 'testinstance'
        app['file_store'] = FakeFileStore()
        app['task_manager'] = NullTaskManager()
        self.client = FakeClientSession(self)
        app[m.gear.CommonAiohttpAppKeys.CLIENT_SESSION] = self.client
        app['client_session'] = self.client
        app['hail_credentials'] = types.SimpleNamespace(auth_headers=self._auth_headers)
        app['feature_flags'] = {'compact_billing_tables': True, 'oms_agent': False, 'dockerhub_proxy': False}
        app['inst_coll_configs'] = await m.icc.InstanceCollectionConfigs.create(self.db)
        regions = {}
        async for r in self.db.select_and_fetchall('SELECT region_id, region FROM regions'):
            regions[r['region']] = r['region_id']
        app['regions'] = regions
        app['scheduler_state_changed'] = m.hu.Notice()
        for k in ('cancel_batch_state_changed', 'delete_batch_state_changed', 'cancel_ready_state_changed',
                  'cancel_creating_state_changed', 'cancel_running_state_changed'):
            app[k] = asyncio.Event()
        resource_name_to_id = {}
        async for r in self.db.select_and_fetchall('SELECT resource, resource_id, deduped_resource_id FROM resources'):
            resource_name_to_id[r['resource']] = types.SimpleNamespace(resource_id=r['resource_id'],
                                                                       deduped_resource_id=r['deduped_resource_id'])
        app['resource_name_to_id'] = resource_name_to_id
        self.resource_names = sorted(resource_name_to_id)
        app['async_worker_pool'] = m.hu.AsyncWorkerPool(parallelism=self.cfg.get('pool_par', 8), queue_size=64)   # 1 = a saturated shared pool
        secret = types.SimpleNamespace(data={'key.json': 'e30=', 'token': 'dG9r', 'ca.crt': 'Y2E='})
        app['k8s_cache'] = types.SimpleNamespace(
            read_secret=self._read_secret(secret),
            read_service_account=self._read_sa(types.SimpleNamespace(secrets=None)))
        # driver objects: real InstanceCollectionManager + real Pools (background loops never started)
        icm = m.dbase.InstanceCollectionManager(self.db, 'batch-worker-default-', types.SimpleNamespace(), 'us-central1',
                                                ['us-central1', 'us-east1'])
        self.icm = icm
        self.pools = {}
        tm = NullTaskManager()
        for name, cfg in sorted(app['inst_coll_configs'].name_pool_config.items(), key=lambda kv: kv[0] != 'standard'):
            self.pools[name] = m.dp.Pool(app, self.db, icm, types.SimpleNamespace(), 'batch-worker-default-', cfg,
                                         app['async_worker_pool'], tm)
        # a minimal job-private collection (real base class, no autoscaler)
        jp = app['inst_coll_configs'].jpim_config
        self.jpim = m.dbase.InstanceCollection(self.db, icm, types.SimpleNamespace(), 'gcp', jp.name, 'batch-worker-default-',
                                              False, jp.max_instances, jp.max_live_instances, tm)
        self.jpim.scheduler_state_changed = asyncio.Event()
        app['driver'] = types.SimpleNamespace(inst_coll_manager=icm, job_private_inst_manager=self.jpim)
        self.canceller = m.dc.Canceller(app)
        self.product_versions = app['inst_coll_configs'].product_versions
        return self

    async def _auth_headers(self):
        return {'Authorization': 'Bearer x'}

    def _read_secret(self, secret):
        async def f(name, namespace):
            return secret
        return f

    def _read_sa(self, sa):
        async def f(name, namespace):
            return sa
        return f

    async def close(self):
        try:
            self.app['async_worker_pool'].shutdown()
        except Exception:
            pass
        try:
            # after an op died mid-iteration a streaming select may still hold its connection: do not wait for it forever
            await asyncio.wait_for(self.db.async_close(), 5)
        except BaseException as e:   # noqa
            if isinstance(e, asyncio.CancelledError):
                raise

    # ---- raw access for oracles ------------------------------------------------------------------
    def q(self, sql, args=()):
        s = self.engine.connect()
        try:
            return s.query(sql, args)
        finally:
            self.engine.close_session(s)

    def table(self, name):
        return self.q(f'SELECT * FROM {name}')

    def userdata(self, user):
        return {'username': user, 'hail_credentials_secret_name': f'{user}-gsa-key', 'tokens_secret_name': f'{user}-tokens',
                'is_developer': 0, 'is_service_account': 0, 'login_id': user, 'hail_identity': f'{user}@x', 'state': 'active'}
