"""Reference recomputations over database snapshots (no SQL, no model of what an op does).

Every oracle reads primary rows back (World.snap()) and recomputes aggregates / checks transition relations between consecutive
snapshots.  Oracle functions return lists of (signature, clause, message).
"""
from __future__ import annotations

import collections

TERMINAL = ('Success', 'Failed', 'Error', 'Cancelled')
LIVE = ('Ready', 'Creating', 'Running')


class View:
    def __init__(self, S):
        self.S = S
        self.batches = {r['id']: r for r in S['batches']}
        self.jobs = {(r['batch_id'], r['job_id']): r for r in S['jobs']}
        self.groups = {(r['batch_id'], r['job_group_id']): r for r in S['job_groups']}
        self.anc = collections.defaultdict(set)          # (b, g) -> {ancestor ids incl. self}
        for r in S['job_group_self_and_ancestors']:
            self.anc[(r['batch_id'], r['job_group_id'])].add(r['ancestor_id'])
        self.cancelled_groups = {(r['id'], r['job_group_id']) for r in S['job_groups_cancelled']}
        self.updates = {(r['batch_id'], r['update_id']): r for r in S['batch_updates']}
        self.parents = collections.defaultdict(list)
        for r in S['job_parents']:
            self.parents[(r['batch_id'], r['job_id'])].append(r['parent_id'])
        self.attempts = {(r['batch_id'], r['job_id'], r['attempt_id']): r for r in S['attempts']}

    def committed(self, b, u):
        r = self.updates.get((b, u))
        return bool(r and r['committed'])

    def group_cancelled(self, b, g):
        return any((b, a) in self.cancelled_groups for a in self.anc.get((b, g), {g}))

    def strict_ancestor_cancelled(self, b, g):
        return any((b, a) in self.cancelled_groups for a in self.anc.get((b, g), set()) if a != g)

    def marked_cancelled(self, j):
        return bool(j['cancelled']) or self.group_cancelled(j['batch_id'], j['job_group_id'])

    def job_cancelled(self, j):
        return (not j['always_run']) and self.marked_cancelled(j)

    def subtree(self, b, g):
        return {gg for (bb, gg), a in self.anc.items() if bb == b and g in a}

    def user(self, b):
        return self.batches[b]['user']


def _sum_by(rows, keyf, cols):
    out = collections.defaultdict(lambda: dict.fromkeys(cols, 0))
    for r in rows:
        k = keyf(r)
        for c in cols:
            out[k][c] += int(r[c] or 0)
    return out


UIC_COLS = ['n_ready_jobs', 'ready_cores_mcpu', 'n_running_jobs', 'running_cores_mcpu', 'n_creating_jobs',
            'n_cancelled_ready_jobs', 'n_cancelled_running_jobs', 'n_cancelled_creating_jobs']
CANC_COLS = ['n_ready_cancellable_jobs', 'ready_cancellable_cores_mcpu', 'n_creating_cancellable_jobs',
             'n_running_cancellable_jobs', 'running_cancellable_cores_mcpu']


def expected_user_counters(v: View):
    exp = collections.defaultdict(lambda: dict.fromkeys(UIC_COLS, 0))
    for (b, jid), j in v.jobs.items():
        if j['state'] not in LIVE or not v.committed(b, j['update_id']):
            continue
        e = exp[(v.user(b), j['inst_coll'])]
        c = v.job_cancelled(j)
        st = j['state']
        if st == 'Ready':
            if c:
                e['n_cancelled_ready_jobs'] += 1
            else:
                e['n_ready_jobs'] += 1
                e['ready_cores_mcpu'] += j['cores_mcpu']
        elif st == 'Running':
            if c:
                e['n_cancelled_running_jobs'] += 1
            else:
                e['n_running_jobs'] += 1
                e['running_cores_mcpu'] += j['cores_mcpu']
        else:
            if c:
                e['n_cancelled_creating_jobs'] += 1
            else:
                e['n_creating_jobs'] += 1
    return exp


def check_user_counters(v: View):
    """C01 part 1: user_inst_coll_resources (summed over tokens) == recomputation from job rows."""
    fails = []
    got = _sum_by(v.S['user_inst_coll_resources'], lambda r: (r['user'], r['inst_coll']), UIC_COLS)
    exp = expected_user_counters(v)
    for k in sorted(set(got) | set(exp)):
        g = got.get(k, dict.fromkeys(UIC_COLS, 0))
        e = exp.get(k, dict.fromkeys(UIC_COLS, 0))
        bad = {c: (g[c], e[c]) for c in UIC_COLS if g[c] != e[c]}
        if bad:
            fails.append(('user-counters', 'per-user per-inst_coll scheduler counters equal the recomputation from job states',
                          f'user/inst_coll {k}: (table, recomputed) differ in {bad}'))
            break
    return fails


def check_cancellable_counters(v: View):
    """C01 part 2: job_group_inst_coll_cancellable_resources == recomputation over the group's subtree."""
    fails = []
    got = _sum_by(v.S['job_group_inst_coll_cancellable_resources'],
                  lambda r: (r['batch_id'], r['update_id'], r['job_group_id'], r['inst_coll']), CANC_COLS)
    exp = collections.defaultdict(lambda: dict.fromkeys(CANC_COLS, 0))
    for (b, jid), j in v.jobs.items():
        if j['state'] not in LIVE or j['always_run'] or v.marked_cancelled(j):
            continue
        for a in v.anc.get((b, j['job_group_id']), {j['job_group_id']}):
            e = exp[(b, j['update_id'], a, j['inst_coll'])]
            if j['state'] == 'Ready':
                e['n_ready_cancellable_jobs'] += 1
                e['ready_cancellable_cores_mcpu'] += j['cores_mcpu']
            elif j['state'] == 'Running':
                e['n_running_cancellable_jobs'] += 1
                e['running_cancellable_cores_mcpu'] += j['cores_mcpu']
            else:
                e['n_creating_cancellable_jobs'] += 1
    for k in sorted(set(got) | set(exp)):
        b, u, g, ic = k
        if v.strict_ancestor_cancelled(b, g):
            continue        # rows below a cancelled ancestor are stale by design (clean-up is lazy); nobody reads them
        gg = got.get(k, dict.fromkeys(CANC_COLS, 0))
        e = exp.get(k, dict.fromkeys(CANC_COLS, 0))
        bad = {c: (gg[c], e[c]) for c in CANC_COLS if gg[c] != e[c]}
        if bad:
            fails.append(('cancellable-counters', 'job-group cancellable counters equal the recomputation over the group and its descendants',
                          f'(batch, update, group, inst_coll) {k}: (table, recomputed) differ in {bad}'))
            break
    return fails


# ------------------------------------------------------------------------------------------------
ALLOWED = {
    'Pending': {'Pending', 'Ready'},
    'Ready': {'Ready', 'Creating', 'Running'} | set(TERMINAL),
    'Creating': {'Creating', 'Running', 'Ready'} | set(TERMINAL),
    'Running': {'Running', 'Ready'} | set(TERMINAL),
}


def check_transitions(prev: View, cur: View):
    """C04: allowed lifecycle relation between consecutive snapshots; terminal states absorbing."""
    fails = []
    for k, j in cur.jobs.items():
        p = prev.jobs.get(k)
        if p is None:
            continue
        a, b = p['state'], j['state']
        if a in TERMINAL:
            if b != a:
                fails.append(('terminal-not-absorbing', 'terminal states are absorbing', f'job {k}: {a} -> {b}'))
        elif b not in ALLOWED[a]:
            fails.append(('illegal-transition', 'a job only moves Pending -> Ready -> Creating -> Running -> terminal (with the documented short cuts)',
                          f'job {k}: {a} -> {b}'))
    return fails[:1]


def check_transitions_txn(prev: dict, cur: dict):
    """C04 at transaction granularity: prev/cur map (batch, job) -> state."""
    for k, b in cur.items():
        a = prev.get(k)
        if a is None or a == b:
            continue
        if a in TERMINAL:
            return [('terminal-not-absorbing', 'terminal states are absorbing', f'job {k}: {a} -> {b}')]
        if b not in ALLOWED[a]:
            return [('illegal-transition', 'a job only moves Pending -> Ready -> Creating -> Running -> terminal (with the documented short cuts)',
                     f'job {k}: {a} -> {b} within one transaction')]
    return []


def check_terminal_absorbing(prev: View, cur: View):
    for k, j in cur.jobs.items():
        p = prev.jobs.get(k)
        if p is not None and p['state'] in TERMINAL and j['state'] != p['state']:
            return [('terminal-not-absorbing', 'terminal states are absorbing', f'job {k}: {p["state"]} -> {j["state"]}')]
    return []


def check_tallies(v: View):
    """C04/C06: job_groups_n_jobs_in_complete_states[g] == counts of terminal jobs of committed updates in subtree(g)."""
    fails = []
    exp = collections.defaultdict(lambda: dict(n_completed=0, n_succeeded=0, n_failed=0, n_cancelled=0))
    for (b, jid), j in v.jobs.items():
        if j['state'] not in TERMINAL:
            continue
        for a in v.anc.get((b, j['job_group_id']), {j['job_group_id']}):
            e = exp[(b, a)]
            e['n_completed'] += 1
            if j['state'] == 'Success':
                e['n_succeeded'] += 1
            elif j['state'] in ('Failed', 'Error'):
                e['n_failed'] += 1
            else:
                e['n_cancelled'] += 1
    for r in v.S['job_groups_n_jobs_in_complete_states']:
        k = (r['id'], r['job_group_id'])
        e = exp.get(k, dict(n_completed=0, n_succeeded=0, n_failed=0, n_cancelled=0))
        bad = {c: (r[c], e[c]) for c in e if int(r[c] or 0) != e[c]}
        if bad:
            fails.append(('tallies', 'each job is counted exactly once in its groups completed/succeeded/failed/cancelled tallies',
                          f'(batch, group) {k}: (table, recomputed) differ in {bad}'))
            break
    return fails


def check_dependencies(prev: View, cur: View):
    """C05: a job not Pending has all parents terminal; jobs.cancelled flag set iff some parent did not succeed (when it leaves
    Pending); n_pending_parents == number of non-terminal parents for committed jobs that are still Pending."""
    fails = []
    for k, j in cur.jobs.items():
        b = k[0]
        ps = [cur.jobs.get((b, p)) for p in cur.parents.get(k, [])]
        if j['state'] != 'Pending':
            for p in ps:
                if p is None:
                    continue        # dangling parent reference: judged by C08
                if p['state'] not in TERMINAL:
                    fails.append(('ready-before-parents', 'a job becomes Ready only after every parent has reached a terminal state',
                                  f'job {k} is {j["state"]} while parent {(b, p["job_id"])} is {p["state"]}'))
                    return fails
        p0 = prev.jobs.get(k) if prev is not None else None
        if p0 is not None and p0['state'] == 'Pending' and j['state'] != 'Pending':
            want = bool(p0['cancelled']) or any(p is not None and p['state'] != 'Success' for p in ps)
            if bool(j['cancelled']) != want:
                fails.append(('cancelled-flag', 'a job whose parent did not succeed is marked cancelled (and only then)',
                              f'job {k} left Pending with cancelled={j["cancelled"]}, parents {[(p["job_id"], p["state"]) for p in ps if p]}'))
                return fails
        if j['state'] == 'Pending' and cur.committed(b, j['update_id']):
            if all(p is not None for p in ps):
                npend = sum(1 for p in ps if p['state'] not in TERMINAL)
                if npend == 0 and ps is not None:
                    fails.append(('stuck-pending', 'once every parent is terminal a committed job leaves Pending',
                                  f'job {k} is Pending with all {len(ps)} parents terminal (n_pending_parents={j["n_pending_parents"]})'))
                    return fails
                if j['n_pending_parents'] != npend:
                    fails.append(('pending-parent-count', 'n_pending_parents equals the number of non-terminal parents',
                                  f'job {k}: n_pending_parents={j["n_pending_parents"]}, non-terminal parents={npend}'))
                    return fails
    return fails


def check_no_cancelled_running(prev: View, cur: View):
    """C05/C07: a job that is cancelled (not always_run) never newly enters Creating/Running."""
    fails = []
    for k, j in cur.jobs.items():
        p = prev.jobs.get(k) if prev is not None else None
        if j['state'] in ('Creating', 'Running') and (p is None or p['state'] != j['state']):
            was_cancelled = p is not None and prev.job_cancelled(p)
            if was_cancelled:
                fails.append(('cancelled-job-started', 'a cancelled job that is not always-run is never moved into creating or running',
                              f'job {k} went {p["state"]} -> {j["state"]} although it was cancelled before the op'))
                return fails
    return fails


def check_free_cores(v: View, uncredited=None):
    """C10: free_cores_mcpu == cores - sum(cores of un-ended attempts placed on it) for live instances; all free when inactive.
    uncredited: {instance: mcpu} of attempts that ended while the instance was still pending (known finding: mark_job_complete /
    unschedule_job credit the cores back only on an active instance although add_attempt debits a pending one)."""
    fails = []
    uncredited = uncredited or {}
    free = {r['name']: r['free_cores_mcpu'] for r in v.S['instances_free_cores_mcpu']}
    used = collections.defaultdict(int)
    for a in v.S['attempts']:
        if a['end_time'] is None and a['instance_name'] is not None:
            j = v.jobs.get((a['batch_id'], a['job_id']))
            if j is not None:
                used[a['instance_name']] += j['cores_mcpu']
    for inst in v.S['instances']:
        n = inst['name']
        if inst['state'] in ('pending', 'active'):
            want = inst['cores_mcpu'] - used.get(n, 0)
        else:
            want = inst['cores_mcpu']
        if free.get(n) != want and uncredited.get(n) and inst['state'] in ('pending', 'active') and free.get(n) == want - uncredited[n]:
            fails.append(('ended-attempt-on-pending-instance-not-credited',
                          'free cores equal total cores minus the cores of attempts placed on the instance that have not ended',
                          f'instance {n} ({inst["state"]}): free_cores_mcpu={free.get(n)}, recomputed {want}; {uncredited[n]} mcpu belong to '
                          f'attempts that ended while the instance was pending'))
            break
        if free.get(n) != want:
            fails.append(('free-cores', 'free cores equal total cores minus the cores of attempts placed on the instance that have not ended',
                          f'instance {n} ({inst["state"]}): free_cores_mcpu={free.get(n)}, recomputed {want} '
                          f'(cores {inst["cores_mcpu"]}, un-ended attempt cores {used.get(n, 0)})'))
            break
    return fails


def billed(a):
    if a['rollup_time'] is None or a['start_time'] is None:
        return 0
    return max(a['rollup_time'] - a['start_time'], 0)


def check_billing(v: View):
    """C02: aggregated usage per job / job group (with descendants) / billing project+user / by date == sum quantity * billed."""
    fails = []
    q = collections.defaultdict(list)
    for r in v.S['attempt_resources']:
        q[(r['batch_id'], r['job_id'], r['attempt_id'])].append((r['deduped_resource_id'], r['quantity']))
    e_job = collections.defaultdict(int)
    e_grp = collections.defaultdict(int)
    e_bp = collections.defaultdict(int)
    for k, a in v.attempts.items():
        bl = billed(a)
        if bl == 0:
            continue
        b, jid, _ = k
        j = v.jobs.get((b, jid))
        for rid, qty in q.get(k, []):
            use = qty * bl
            e_job[(b, jid, rid)] += use
            if j is not None:
                for g in v.anc.get((b, j['job_group_id']), {j['job_group_id']}):
                    e_grp[(b, g, rid)] += use
            bt = v.batches[b]
            e_bp[(bt['billing_project'], bt['user'], rid)] += use

    def cmp(name, rows, keyf, exp, label):
        got = collections.defaultdict(int)
        for r in rows:
            got[keyf(r)] += int(r['usage'] or 0)
        for k in sorted(set(got) | set(exp), key=str):
            if got.get(k, 0) != exp.get(k, 0):
                fails.append((name, f'usage recorded {label} equals the sum over attempts of quantity x billed duration',
                              f'{label} key {k}: table {got.get(k, 0)}, recomputed {exp.get(k, 0)}'))
                return
    cmp('billing-job', v.S['aggregated_job_resources_v3'], lambda r: (r['batch_id'], r['job_id'], r['resource_id']), e_job, 'per job')
    if not fails:
        cmp('billing-job-group', v.S['aggregated_job_group_resources_v3'],
            lambda r: (r['batch_id'], r['job_group_id'], r['resource_id']), e_grp, 'per job group (with descendants)')
    if not fails:
        cmp('billing-project-user', v.S['aggregated_billing_project_user_resources_v3'],
            lambda r: (r['billing_project'], r['user'], r['resource_id']), e_bp, 'per billing project and user')
    if not fails:
        cmp('billing-by-date-total', v.S['aggregated_billing_project_user_resources_by_date_v3'],
            lambda r: (r['billing_project'], r['user'], r['resource_id']), e_bp, 'per billing project and user summed over days')
    return fails


def by_date(v: View):
    got = collections.defaultdict(int)
    for r in v.S['aggregated_billing_project_user_resources_by_date_v3']:
        got[(str(r['billing_date']), r['billing_project'], r['user'], r['resource_id'])] += int(r['usage'] or 0)
    return got


def check_attempt_monotone(prev: View, cur: View, timeout_instance=None):
    """C03 at op granularity: billed >= 0; bounded by end-start once ended; does not decrease unless end moved earlier or
    activation_timeout; start only moves earlier; (end, reason) change only to an earlier end once a reason is set."""
    fails = []
    for k, a in cur.attempts.items():
        bl = billed(a)
        timeout_report = timeout_instance is not None and a['instance_name'] == timeout_instance
        if timeout_report and bl != 0:
            fails.append(('activation-timeout-bills', 'an activation timeout bills nothing',
                          f'attempt {k} on {timeout_instance}, which never activated, is still billed {bl} ms: {a}'))
            break
        if bl < 0:
            fails.append(('negative-billed', 'billed duration is never negative', f'attempt {k}: {a}'))
            break
        if a['end_time'] is not None and a['start_time'] is not None and bl > max(a['end_time'] - a['start_time'], 0):
            fails.append(('billed-exceeds-attempt', 'once ended, billed duration never exceeds end minus start',
                          f'attempt {k}: billed {bl}, start {a["start_time"]}, end {a["end_time"]}'))
            break
        p = prev.attempts.get(k) if prev is not None else None
        if p is None:
            continue
        pb = billed(p)
        end_earlier = p['end_time'] is not None and a['end_time'] is not None and a['end_time'] < p['end_time']
        newly_ended = p['end_time'] is None and a['end_time'] is not None
        if bl < pb and not (end_earlier or newly_ended or a['reason'] == 'activation_timeout' or timeout_report):
            fails.append(('billed-decreased', 'billed duration never decreases unless the end is corrected earlier or on activation timeout',
                          f'attempt {k}: billed {pb} -> {bl}; before {p}; after {a}'))
            break
        if p['start_time'] is not None and a['reason'] != 'activation_timeout' and not timeout_report and \
                (a['start_time'] is None or a['start_time'] > p['start_time']):
            fails.append(('start-moved-later', 'the start time only ever moves earlier', f'attempt {k}: start {p["start_time"]} -> {a["start_time"]}'))
            break
        if p['reason'] is not None:
            if a['reason'] != p['reason'] and not end_earlier:
                fails.append(('reason-replaced', 'once an attempt has an end reason a later report can only replace its end with an earlier one',
                              f'attempt {k}: reason {p["reason"]} -> {a["reason"]}, end {p["end_time"]} -> {a["end_time"]}'))
                break
            if a['end_time'] != p['end_time'] and not end_earlier:
                fails.append(('end-moved-later', 'once an attempt has an end reason a later report can only replace its end with an earlier one',
                              f'attempt {k}: end {p["end_time"]} -> {a["end_time"]}'))
                break
    return fails
