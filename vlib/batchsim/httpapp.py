"""HTTP layer for batchsim: the REAL batch front-end `routes` mounted on a real aiohttp `web.Application` (same middlewares as
front_end.run(): check_csrf_token, unavailable_if_frozen, monitor_endpoints_middleware) over a World, driven in-process with
`aiohttp.test_utils.make_mocked_request` through `Application._handle`.

Authentication: front_end.auth stays the real AuthServiceAuthenticator (session / bearer handling, userdata cache, the
`impersonate_user` HTTP call); only the auth *service* is faked: the World's FakeClientSession answers
GET <auth>/api/v1alpha/userinfo from `HttpWorld.tokens` (token -> userdata dict, or None = 401).
Cookie sessions are simulated through the hostenv `aiohttp_session` shim (request['aiohttp_session']).
"""
from __future__ import annotations

import asyncio
import contextvars
import json
import warnings
from unittest import mock

from .world import World

AUTH_USERINFO = '/api/v1alpha/userinfo'
AUTH_PERMISSION = '/api/v1alpha/check_system_permission'

# the SQL log of the request a task belongs to, while several requests are in flight (HttpWorld.request_par): every request runs in its
# own task, a task (and every task it spawns) carries its own copy of the context, so a statement is attributed to the request on
# whose behalf it is sent, whichever task sends it
_REQ_LOG = contextvars.ContextVar('verif_request_sql_log', default=None)


class HttpWorld(World):
    def __init__(self, **kw):
        super().__init__(**kw)
        self.tokens = {}          # bearer/session token -> userdata dict | None (auth service says 401)
        self.http_app = None
        self.sql_log = None       # list while a request is in flight

    async def start(self):
        await super().start()
        self._build_app()
        return self

    # ------------------------------------------------------------------------------------------
    def _build_app(self):
        m = self.m
        fe = m.fe
        from aiohttp import web
        import gear.auth as gauth
        from gear.csrf import check_csrf_token
        from gear.metrics import monitor_endpoints_middleware
        from batch.utils import unavailable_if_frozen
        if not isinstance(fe.auth, gauth.AuthServiceAuthenticator):
            raise RuntimeError('front_end.auth is not an AuthServiceAuthenticator')
        # fresh userdata cache per World (entries are keyed by the World's client session; the loader is the real one)
        gauth.AuthServiceAuthenticator.__init__(fe.auth)
        app = web.Application(middlewares=[check_csrf_token, unavailable_if_frozen, monitor_endpoints_middleware])
        with warnings.catch_warnings():
            warnings.simplefilter('ignore')
            for k, v in self.app.items():
                app[k] = v
            app['default_region'] = 'us-central1'
        app.add_routes(fe.routes)
        app.freeze()

        # jinja2 / aiohttp_jinja2 are absent from the sandbox (inert stubs): page rendering is replaced by a JSON echo of the
        # template name and the keys of the page context (plus batch ids, for list pages); everything before rendering is real.
        async def render_template(service, request, userdata, file, page_context, *, status_code=200):
            ids = None
            if isinstance(page_context.get('batches'), list):
                ids = [b.get('id') for b in page_context['batches'] if isinstance(b, dict)]
            return web.json_response({'rendered': file, 'page_context_keys': sorted(map(str, page_context)), 'batch_ids': ids},
                                     status=status_code)
        fe.render_template = render_template
        self.http_app = app
        self.web = web
        prev = self.http_hook

        def hook(method, url, kw):
            if AUTH_USERINFO in url or AUTH_PERMISSION in url:
                import aiohttp
                from .sim import FakeResponse
                hdr = (kw.get('headers') or {}).get('Authorization', '')
                tok = hdr[len('Bearer '):] if hdr.startswith('Bearer ') else None
                ud = self.tokens.get(tok)
                if ud is None:
                    raise aiohttp.ClientResponseError(mock.Mock(real_url=url), (), status=401, message='Unauthorized')
                if AUTH_PERMISSION in url:
                    return FakeResponse(200, {'has_permission': bool(ud.get('is_developer'))})
                return FakeResponse(200, dict(ud))
            if prev is not None:
                return prev(method, url, kw)
            return None
        self.http_hook = hook

    def route_table(self):
        """[(method, path template, handler name)] of every route registered on the application, in registration order."""
        out = []
        for r in self.http_app.router.routes():
            res = r.resource
            tmpl = res.canonical if res is not None else ''
            out.append((r.method, tmpl, getattr(r.handler, '__name__', repr(r.handler))))
        return out

    def outbound(self):
        """recorded outbound HTTP calls except the access-control lookups at the auth service"""
        return [c for c in self.client.calls if AUTH_USERINFO not in c[1] and AUTH_PERMISSION not in c[1]]

    def side_effects(self):
        a = self.app
        return dict(outbound=list(self.outbound()), background=getattr(a['task_manager'], 'dropped', 0),
                    events={k: a[k].is_set() for k in ('cancel_batch_state_changed', 'delete_batch_state_changed')})

    # ------------------------------------------------------------------------------------------
    async def request_par(self, reqs, sched=(), starts=()):
        """several requests in flight at once.  reqs: [dict(method, path, headers, body, session)]; every request runs as its own task on
        the (virtual) loop; request i first yields starts[i] times (who arrives first), then every SQL statement any of them sends is a
        schedule point at which the generated schedule `sched` (small ints: how many times to yield before the statement is executed)
        decides who goes next -- the same mechanism as World.op_par.  Transactions still serialise from their first write or locking
        read (the minimysql gate).  -> ([response dict as request() returns it, plus 'order': global sequence numbers of its statements],
        number of schedule points)"""
        sched = list(sched)
        pos = [0]
        seq = [0]

        async def shook(sess, sql):
            k = sched[pos[0] % len(sched)] if sched else 0
            pos[0] += 1
            for _ in range(k):
                await asyncio.sleep(0)

        def fhook(sess, phase, sql):
            rec = _REQ_LOG.get()
            if rec is not None and phase in ('statement', 'begin', 'commit', 'rollback'):
                rec['sql'].append((phase, ' '.join(str(sql).split())[:160]))
                if phase == 'statement':
                    seq[0] += 1
                    rec['order'].append(seq[0])

        async def one(i, r):
            for _ in range(starts[i] if i < len(starts) else 0):
                await asyncio.sleep(0)
            return await self.request(r['method'], r['path'], headers=r.get('headers'), body=r.get('body') or b'', session=r.get('session'),
                                      _shared_hook=True)
        eng = self.engine
        saved_f, saved_s = eng.fault_hook, getattr(eng, 'sched_hook', None)
        eng.fault_hook, eng.sched_hook = fhook, shook
        try:
            outs = await asyncio.gather(*[asyncio.ensure_future(one(i, r)) for i, r in enumerate(reqs)])
        finally:
            eng.fault_hook, eng.sched_hook = saved_f, saved_s
        return list(outs), pos[0]

    async def request(self, method, path, *, headers=None, body=b'', session=None, _shared_hook=False):
        """-> dict(status, location, text, reason, json, exc, notsupported, stub, sql=[(phase, sql)])"""
        from aiohttp import streams
        from aiohttp.test_utils import make_mocked_request
        import aiohttp_session
        from vlib.minimysql import NotSupported
        web = self.web
        loop = asyncio.get_event_loop()
        protocol = mock.Mock()
        protocol._reading_paused = False
        payload = streams.StreamReader(protocol, 2 ** 20, loop=loop)
        if body:
            payload.feed_data(body)
        payload.feed_eof()
        h = {'Host': 'batch.hail.test'}
        h.update(headers or {})
        if body and 'Content-Length' not in h:
            h['Content-Length'] = str(len(body))
        req = make_mocked_request(method, path, headers=h, app=self.http_app, payload=payload)
        if session is not None:
            s = aiohttp_session.Session()
            s.update(session)
            req['aiohttp_session'] = s
        out = dict(status=None, location=None, text=None, reason=None, json=None, exc=None, notsupported=None, stub=False, sql=[])
        log = out['sql']

        def sqlhook(sess, phase, sql):
            if phase in ('statement', 'begin', 'commit', 'rollback'):
                log.append((phase, ' '.join(str(sql).split())[:160]))
        if _shared_hook:
            # one of several requests in flight (request_par owns the engine hooks): this task's context names the log
            out['order'] = []
            _REQ_LOG.set(out)
        else:
            saved = self.engine.fault_hook
            self.engine.fault_hook = sqlhook
        try:
            resp = await self.http_app._handle(req)
            if isinstance(resp, web.StreamResponse):
                out['status'] = resp.status
                out['location'] = resp.headers.get('Location')
                b = getattr(resp, 'body', None)
                if isinstance(b, (bytes, bytearray)):
                    out['text'] = bytes(b[:20000]).decode('utf-8', 'replace')
                    try:
                        out['json'] = json.loads(b)
                    except Exception:   # noqa: BLE001
                        pass
            else:
                out['status'] = 200      # inert aiohttp_jinja2 stub: the handler got as far as rendering a page
                out['stub'] = True
        except web.HTTPException as e:
            out['status'] = e.status
            out['location'] = e.headers.get('Location') if e.headers is not None else None
            out['text'] = (e.text or e.reason or '')[:2000]
            out['reason'] = e.reason
        except NotSupported as e:
            out['notsupported'] = str(e)[:300]
        except asyncio.CancelledError:
            raise
        except Exception as e:   # noqa: BLE001 - aiohttp would answer 500
            out['status'] = 500
            out['exc'] = f'{type(e).__name__}: {str(e)[:300]}'
        finally:
            if not _shared_hook:
                self.engine.fault_hook = saved
        return out
