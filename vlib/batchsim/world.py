"""Op interpreter over Sim: histories are JSON-able lists of abstract ops with symbolic operands (indices resolved modulo
the live objects).  An op whose precondition does not hold is skipped and counted.  Each op returns a small result dict."""
from __future__ import annotations

import asyncio
import os
import json

from .sim import Sim

TERMINAL = ('Success', 'Failed', 'Error', 'Cancelled')
CPU = ['0.25', '0.5', '1', '2', '4', '8']


class FakeRequest(dict):
    def __init__(self, app, body=None, match_info=None, headers=None):
        super().__init__()
        self.app = app
        self._body = json.dumps(body).encode() if body is not None else b''
        self.match_info = match_info or {}
        self.headers = headers or {}
        self['batch_telemetry'] = {}

    async def read(self):
        return self._body

    async def json(self):
        return json.loads(self._body)


class World(Sim):
    def __init__(self, guards=(), **kw):
        super().__init__(**kw)
        self.guards = set(guards)      # known-finding signatures excluded by construction (ops that would trigger them are skipped)
        self.excluded = 0
        self.flags = []                # known-finding trigger conditions that occurred (unguarded runs): used to attribute failures
        self.batches = []     # dict(id, user, bp, token, updates=[...])
        self.updates = []     # dict(batch(idx), batch_id, update_id, start_job_id, start_group_id, groups, jobs, sent_groups, sent_jobs, committed)
        self.attempts = []    # dict(batch_id, job_id, attempt_id, instance)
        self.inst_list = []   # instance names in creation order
        self.skipped = 0
        self.log = []
        self._n_tok = 0

    # ------------------------------------------------------------------------------------------
    async def _guard(self, coro):
        m = self.m
        import pymysql
        try:
            r = await coro
            return {'ok': True, 'value': r}
        except m.web.HTTPException as e:
            return {'ok': False, 'http': e.status, 'reason': getattr(e, 'reason', None) or getattr(e, 'text', None)}
        except pymysql.err.MySQLError as e:
            return {'ok': False, 'sqlerr': e.args[0] if e.args else None, 'msg': str(e)[:300]}
        except asyncio.CancelledError:
            raise
        except Exception as e:   # noqa
            c = e
            while c.__cause__ is not None:
                c = c.__cause__
            if isinstance(c, pymysql.err.MySQLError):
                return {'ok': False, 'sqlerr': c.args[0] if c.args else None, 'msg': str(c)[:300], 'wrapped': type(e).__name__}
            return {'ok': False, 'exc': f'{type(e).__name__}: {str(e)[:300]}'}

    def _pick(self, xs, i):
        if not xs:
            return None
        return xs[i % len(xs)]

    # ---- references ---------------------------------------------------------------------------
    def jobs_of_batch(self, b):
        """[(job_id, update)] for every job id reserved so far in batch b (sent or not)."""
        out = []
        for u in self.updates:
            if u['batch'] is b:
                for k in range(len(u['jobs'])):
                    out.append((u['start_job_id'] + k, u))
        return out

    def groups_of_batch(self, b):
        out = [0]
        for u in self.updates:
            if u['batch'] is b:
                for k in range(len(u['groups'])):
                    out.append(u['start_group_id'] + k)
        return out

    # ---- ops ----------------------------------------------------------------------------------
    async def apply(self, op):
        kind = op[0]
        f = getattr(self, 'op_' + kind, None)
        if f is None:
            raise ValueError(f'unknown op {kind}')
        r = await f(*op[1:])
        if r is None:
            self.skipped += 1
            r = {'skipped': True}
        self.log.append((op, {k: v for k, v in r.items() if k != 'value'}))
        return r

    def _known_trigger_states(self):
        """signatures of known findings whose trigger STATE currently holds in the database (what the per-op guards prevent)"""
        out = set()
        canc = {}
        for r in self.q('SELECT id, job_group_id FROM job_groups_cancelled'):
            canc.setdefault(r['id'], set()).add(r['job_group_id'])
        if any(len(v) >= 2 for v in canc.values()):
            for r in self.q('SELECT batch_id, job_group_id, ancestor_id FROM job_group_self_and_ancestors'):
                gs = canc.get(r['batch_id'], ())
                if r['job_group_id'] != r['ancestor_id'] and r['job_group_id'] in gs and r['ancestor_id'] in gs:
                    out.add('is-job-cancelled-1242-two-cancelled-ancestors')
                    break
        ups = self.q('SELECT batch_id, update_id, committed FROM batch_updates')
        by_batch = {}
        for u in ups:
            by_batch.setdefault(u['batch_id'], {})[u['update_id']] = bool(u['committed'])
        sent1 = {u['batch_id'] for u in self.updates if u['update_id'] == 1 and u['sent_jobs']}
        for b, us in by_batch.items():
            if b in sent1 and us.get(1) is False and any(c for k, c in us.items() if k != 1):
                out.add('uncommitted-update1-job-scheduled')
            if b in sent1 and us.get(1) and b in canc:
                # (committed after a cancel, or cancelled after the commit: only the first is the finding, but the state cannot tell;
                #  it is compared before / after the pair, so a batch cancelled after its commit earlier in the history does not count)
                out.add(f'commit-update1-after-cancel-miscounts@{b}')
        open_later = {(b, k) for b, us in by_batch.items() for k, c in us.items() if k != 1 and not c}
        if open_later:
            kids = {(j['batch_id'], j['job_id']) for j in self.q('SELECT batch_id, job_id, update_id FROM jobs')
                    if (j['batch_id'], j['update_id']) in open_later}
            if kids:
                term = {(j['batch_id'], j['job_id']) for j in self.q('SELECT batch_id, job_id, state FROM jobs')
                        if j['state'] in ('Success', 'Failed', 'Error', 'Cancelled')}
                for x in self.q('SELECT batch_id, job_id, parent_id FROM job_parents'):
                    if (x['batch_id'], x['job_id']) in kids and (x['batch_id'], x['parent_id']) in term:
                        out.add(f"uncommitted-child-made-ready-by-parent-completion@{x['batch_id']}.{x['parent_id']}.{x['job_id']}")
        return out

    async def op_par(self, op_a, op_b, sched=()):
        """two requests / loop bodies in flight at once: both ops run as concurrent tasks and every SQL statement either of them sends
        is a schedule point at which the generated schedule (a list of small ints: how many times to yield first) decides who goes
        next.  Transactions still serialise from their first write or locking read (the minimysql gate), so what is explored is what
        MySQL would also allow: interleavings at statement boundaries outside the locked part of a transaction."""
        import asyncio
        if op_a[0] == 'par' or op_b[0] == 'par':
            return None
        sched = list(sched)
        pos = [0]

        trace = []

        async def hook(sess, sql):
            k = sched[pos[0] % len(sched)] if sched else 0
            pos[0] += 1
            if os.environ.get('VERIF_PAR_TRACE'):
                trace.append((sess.id, k, ' '.join(str(sql).split())[:60]))
            for _ in range(k):
                await asyncio.sleep(0)
        before_triggers = self._known_trigger_states()
        eng = self.engine
        prev = getattr(eng, 'sched_hook', None)
        eng.sched_hook = hook
        try:
            ta = asyncio.ensure_future(self.apply(list(op_a)))
            tb = asyncio.ensure_future(self.apply(list(op_b)))
            ra, rb = await asyncio.gather(ta, tb)
        finally:
            eng.sched_hook = prev
        hit = self._known_trigger_states() - before_triggers
        if hit:
            # in one of the two serial orders the pair is the trigger of a known finding (e.g. cancel || commit of the first update);
            # the per-op guards look at the state before the op and cannot see it
            hit = {h.split('@')[0] for h in hit}
            guarded = sorted(h for h in hit if h in self.guards)
            if guarded:
                self.excluded += 1
                self.stop_history = True
                return {'skipped': True, 'excluded_after_par': guarded}
            self.flags.extend(sorted(hit))
        ok = bool((ra or {}).get('ok', True)) and bool((rb or {}).get('ok', True))
        return {'ok': ok, 'a': {k: v for k, v in (ra or {}).items() if k != 'value'}, 'b': {k: v for k, v in (rb or {}).items() if k != 'value'},
                'schedule_points': pos[0], **({'trace': trace} if trace else {})}

    async def op_tick(self, ms):
        self.tick(int(ms))
        return {'ok': True}

    async def op_batch(self, user_i=0, bp_i=0, token=None):
        users = self.cfg['users']
        user = users[user_i % len(users)]
        bp = ['bp1', 'bp2'][bp_i % 2]
        self._n_tok += 1
        tok = token if token is not None else f'btok{self._n_tok}'
        r = await self._guard(self.m.fe._create_batch({'billing_project': bp, 'token': tok, 'n_jobs': 0, 'attributes': {'name': tok}},
                                                      self.userdata(user), self.db))
        if r['ok']:
            self.batches.append(dict(id=r['value'], user=user, bp=bp, token=tok))
        return r

    async def op_update(self, batch_i, groups, jobs, token=None):
        """groups: list of parent refs (int: >=0 absolute ref into existing groups list, <0: in-update index -k);
        jobs: list of dict(g, parents=[refs], ar, cpu, pool).  Only reserves the id ranges."""
        b = self._pick(self.batches, batch_i)
        if b is None or (not groups and not jobs):
            return None
        self._n_tok += 1
        tok = token if token is not None else f'utok{self._n_tok}'
        r = await self._guard(self.m.fe._create_batch_update(b['id'], tok, len(jobs), len(groups), b['user'], self.db))
        if r['ok']:
            uid, sg, sj = r['value']
            if not any(u['batch'] is b and u['update_id'] == uid for u in self.updates):
                existing_groups = self.groups_of_batch(b)
                existing_jobs = [j for j, _ in self.jobs_of_batch(b)]
                u = dict(batch=b, batch_id=b['id'], update_id=uid, start_job_id=sj, start_group_id=sg, groups=[], jobs=[],
                         sent_groups=0, sent_jobs=0, committed=False, token=tok)
                # resolve group parents
                for k, pref in enumerate(groups):
                    if not isinstance(pref, str) and pref < 0 and k > 0:
                        u['groups'].append(('in', 1 + ((-pref - 1) % k)))
                    elif isinstance(pref, str):
                        # 'L<k>': the k-th most recently reserved group of the batch
                        u['groups'].append(('abs', existing_groups[-min(int(pref[1:]), len(existing_groups))]))
                    else:
                        u['groups'].append(('abs', existing_groups[abs(pref) % len(existing_groups)]))
                for k, j in enumerate(jobs):
                    g = j.get('g', 0)
                    if isinstance(g, str):
                        gref = ('abs', existing_groups[-min(int(g[1:]), len(existing_groups))])
                    elif g < 0 and groups:
                        gref = ('in', 1 + ((-g - 1) % len(groups)))
                    else:
                        gref = ('abs', existing_groups[abs(g) % len(existing_groups)])
                    parents = set()
                    for p in j.get('parents', []):
                        if isinstance(p, str):
                            # 'L<n>': the n-th most recently reserved job of the batch (before this update)
                            if existing_jobs:
                                parents.add(('abs', existing_jobs[-min(int(p[1:]), len(existing_jobs))]))
                        elif p < 0 and k > 0 and j.get('legacy'):
                            # the legacy `parent_ids` form: a parent in the same update named by its absolute id
                            parents.add(('abs', sj + ((-p - 1) % k)))
                        elif p < 0 and k > 0:
                            parents.add(('in', 1 + ((-p - 1) % k)))
                        elif existing_jobs:
                            parents.add(('abs', existing_jobs[abs(p) % len(existing_jobs)]))
                    u['jobs'].append(dict(g=gref, parents=sorted(parents), ar=bool(j.get('ar', False)), cpu=CPU[j.get('cpu', 2) % len(CPU)],
                                          pool=j.get('pool', 0) % 3))
                self.updates.append(u)
        return r

    def _group_spec(self, u, k):
        kind, v = u['groups'][k]
        spec = {'job_group_id': k + 1}
        spec['in_update_parent_id' if kind == 'in' else 'absolute_parent_id'] = v
        return spec

    def _job_spec(self, u, k):
        j = u['jobs'][k]
        if j['pool'] == 2:
            resources = {'machine_type': 'n1-standard-2'}      # job-private instance collection
        else:
            resources = {'cpu': j['cpu'], 'memory': 'standard' if j['pool'] == 0 else 'highmem'}
        spec = {'job_id': k + 1, 'process': {'type': 'docker', 'command': ['true'], 'image': 'ubuntu'},
                'resources': resources, 'always_run': j['ar']}
        kind, v = j['g']
        spec['in_update_job_group_id' if kind == 'in' else 'absolute_job_group_id'] = v
        ins = [v for kd, v in j['parents'] if kd == 'in']
        abss = [v for kd, v in j['parents'] if kd == 'abs']
        if ins:
            spec['in_update_parent_ids'] = ins
        if abss:
            spec['absolute_parent_ids'] = abss
        return spec

    async def op_groups(self, update_i, n=None, resend=False):
        u = self._pick(self.updates, update_i)
        if u is None or not u['groups']:
            return None
        if resend and u['sent_groups'] == 0:
            resend = False
        lo = 0 if resend else u['sent_groups']
        hi = len(u['groups']) if n is None else min(len(u['groups']), lo + max(1, n))
        if resend:
            hi = min(hi, max(u['sent_groups'], 1))
        if lo >= hi:
            return None
        specs = [self._group_spec(u, k) for k in range(lo, hi)]
        r = await self._guard(self.m.fe._create_job_groups(self.db, u['batch_id'], u['update_id'], u['batch']['user'], specs))
        if r['ok'] and not resend:
            u['sent_groups'] = hi
        r['range'] = (lo, hi)
        return r

    async def op_jobs(self, update_i, n=None, resend=False):
        u = self._pick(self.updates, update_i)
        if u is None or not u['jobs']:
            return None
        # jobs may only reference groups that exist: send groups first
        if u['sent_groups'] < len(u['groups']) and any(j['g'][0] == 'in' for j in u['jobs']):
            return None
        if resend and u['sent_jobs'] == 0:
            resend = False        # nothing was sent yet: this is a first send, and it is book-kept as one
        lo = 0 if resend else u['sent_jobs']
        hi = len(u['jobs']) if n is None else min(len(u['jobs']), lo + max(1, n))
        if resend:
            hi = min(hi, max(u['sent_jobs'], 1))
        if lo >= hi:
            return None
        if u['update_id'] == 1 and not u['committed'] and any(x['batch'] is u['batch'] and x['committed'] for x in self.updates):
            # known finding: Ready jobs of a still-uncommitted first update in a batch that a later update already set running
            if 'uncommitted-update1-job-scheduled' in self.guards:
                self.excluded += 1
                return None
            self.flags.append('uncommitted-update1-job-scheduled')
        if u['update_id'] != 1 and not u['committed'] and not getattr(self, '_in_submit', False):
            # known finding: a child inserted by a not-yet-committed later update is made Ready when its parent completes
            abs_parents = {v for k in range(lo, hi) for kd, v in u['jobs'][k]['parents'] if kd == 'abs'}
            if abs_parents:
                live = self.q('SELECT job_id FROM jobs WHERE batch_id = %s AND state NOT IN (\'Success\', \'Failed\', \'Error\', \'Cancelled\')',
                              (u['batch_id'],))
                if abs_parents & {x['job_id'] for x in live}:
                    # the bunch itself is harmless; what is excluded (guarded runs) is the trigger: such a parent completing before
                    # the commit (see _frozen_parent_guard)
                    if 'uncommitted-child-made-ready-by-parent-completion' not in self.guards:
                        self.flags.append('uncommitted-child-made-ready-by-parent-completion')
        specs = [self._job_spec(u, k) for k in range(lo, hi)]
        r = await self._guard(self.m.fe._create_jobs(self.userdata(u['batch']['user']), specs, u['batch_id'], u['update_id'], self.app))
        if r['ok'] and not resend:
            u['sent_jobs'] = hi
        r['range'] = (lo, hi)
        return r

    async def op_commit(self, update_i):
        u = self._pick(self.updates, update_i)
        if u is None:
            return None
        if u['update_id'] == 1 and not u['committed'] and u['sent_jobs'] and \
                self.q('SELECT 1 AS x FROM job_groups_cancelled WHERE id = %s', (u['batch_id'],)):
            # known finding: committing the first update after one of its groups was cancelled counts cancelled jobs as ready
            if 'commit-update1-after-cancel-miscounts' in self.guards:
                self.excluded += 1
                return None
            self.flags.append('commit-update1-after-cancel-miscounts')
        if u['update_id'] != 1 and not u['committed'] and any(x['batch'] is u['batch'] and x['update_id'] == 1 and not x['committed'] and x['sent_jobs']
                                                              for x in self.updates):
            # same known finding, other order: a later update is committed while the first update's Ready jobs are still uncommitted
            if 'uncommitted-update1-job-scheduled' in self.guards:
                self.excluded += 1
                return None
            self.flags.append('uncommitted-update1-job-scheduled')
        pstates = set()
        if u['update_id'] != 1 and not u['committed'] and u['sent_jobs']:
            absp = sorted({v for j in u['jobs'][:u['sent_jobs']] for kd, v in j['parents'] if kd == 'abs'})
            if absp:
                pstates = {x['state'] for x in self.q('SELECT job_id, state FROM jobs WHERE batch_id = %s', (u['batch_id'],)) if x['job_id'] in absp}
        r = await self._guard(self.m.fe._commit_update(self.app, u['batch_id'], u['update_id'], u['batch']['user'], self.db))
        if r['ok']:
            u['committed'] = True
            r['parent_states_at_commit'] = sorted(pstates)
        return r

    async def op_submit(self, batch_i, groups, jobs):
        """convenience: update + groups + jobs + commit"""
        n0 = len(self.updates)
        r = await self.op_update(batch_i, groups, jobs)
        if r is None or not r.get('ok') or len(self.updates) == n0:
            return r
        ui = len(self.updates) - 1
        self._in_submit = True
        try:
            if groups:
                r = await self.op_groups(ui)
                if r is None or not r.get('ok'):
                    return r
            if jobs:
                r = await self.op_jobs(ui)
                if r is None or not r.get('ok'):
                    return r
            return await self.op_commit(ui)
        finally:
            self._in_submit = False

    async def op_late_children(self, batch_i, kids):
        """a later update (reserve + bunch + commit) whose jobs are children of existing jobs; parent ref -1 = the most recently
        reserved job of the batch, k >= 0 = the k-th existing job"""
        b = self._pick(self.batches, batch_i)
        if b is None:
            return None
        n = len(self.jobs_of_batch(b))
        if n == 0:
            return None
        kids = [dict(j, parents=[(n - 1) if p < 0 else p % n for p in j.get('parents', [])]) for j in kids]
        return await self.op_submit(batch_i, [], kids)

    def _frozen_parents(self):
        """{(batch_id, job_id): state} of non-terminal jobs that have a child inserted by a later, still uncommitted update"""
        open_updates = {(u['batch_id'], u['update_id']) for u in self.q('SELECT batch_id, update_id FROM batch_updates WHERE NOT committed')
                        if u['update_id'] != 1}
        if not open_updates:
            return {}
        kids = {(j['batch_id'], j['job_id']) for j in self.q('SELECT batch_id, job_id, update_id FROM jobs')
                if (j['batch_id'], j['update_id']) in open_updates}
        if not kids:
            return {}
        parents = {(x['batch_id'], x['parent_id']) for x in self.q('SELECT batch_id, job_id, parent_id FROM job_parents')
                   if (x['batch_id'], x['job_id']) in kids}
        return {(j['batch_id'], j['job_id']): j['state'] for j in self.q('SELECT batch_id, job_id, state FROM jobs')
                if (j['batch_id'], j['job_id']) in parents and j['state'] not in ('Success', 'Failed', 'Error', 'Cancelled')}

    def _frozen_parent_guard(self, job=None, states=None):
        """known finding 'uncommitted-child-made-ready-by-parent-completion': True if the op must be skipped (guarded run) because it
        would complete a parent (the given job, or any parent in one of `states`) of a child of a still uncommitted later update"""
        fz = self._frozen_parents()
        hit = (job in fz) if job is not None else any(st_ in states for st_ in fz.values())
        if not hit:
            return False
        if 'uncommitted-child-made-ready-by-parent-completion' in self.guards:
            self.excluded += 1
            return True
        self.flags.append('uncommitted-child-made-ready-by-parent-completion')
        return False

    async def op_cancel(self, batch_i, group_ref=0):
        b = self._pick(self.batches, batch_i)
        if b is None:
            return None
        gs = self.groups_of_batch(b)
        g = gs[group_ref % len(gs)]
        # known finding: with two cancelled groups on one ancestor chain is_job_cancelled() returns two rows (error 1242)
        canc = {x['job_group_id'] for x in self.q('SELECT job_group_id FROM job_groups_cancelled WHERE id = %s', (b['id'],))}
        if canc and g not in canc:
            anc = self.q('SELECT job_group_id, ancestor_id FROM job_group_self_and_ancestors WHERE batch_id = %s', (b['id'],))
            up = {x['ancestor_id'] for x in anc if x['job_group_id'] == g}
            down = {x['job_group_id'] for x in anc if x['ancestor_id'] == g}
            # only 'descendant first, then its ancestor' records a second row on one chain; cancelling beneath an already
            # cancelled ancestor is a no-op in the real procedure (ancestor walk) and stays in the generated histories
            if down & canc and not (up & canc):
                if 'is-job-cancelled-1242-two-cancelled-ancestors' in self.guards:
                    self.excluded += 1
                    return None
                self.flags.append('is-job-cancelled-1242-two-cancelled-ancestors')
        r = await self._guard(self.m.fe._cancel_job_group(self.app, b['id'], g))
        r['group'] = g
        r['batch_id'] = b['id']
        return r

    async def op_delete(self, batch_i):
        b = self._pick(self.batches, batch_i)
        if b is None:
            return None
        return await self._guard(self.m.fe._delete_batch(self.app, b['id']))

    async def op_get_batch(self, batch_i):
        b = self._pick(self.batches, batch_i)
        if b is None:
            return None
        return await self._guard(self.m.fe._get_batch(self.app, b['id']))

    # ---- instances ----------------------------------------------------------------------------
    async def op_instance(self, pool_i=0, activate=True, cores=None):
        m = self.m
        from batch.cloud.gcp.instance_config import GCPSlimInstanceConfig
        names = list(self.pools) + ['job-private']
        cname = names[pool_i % len(names)]
        coll = self.pools.get(cname, self.jpim)
        cores = cores or self.cfg['worker_cores']
        mt = f'n1-{"standard" if cname != "highmem" else "highmem"}-{cores}'
        loc = 'us-central1-a'
        ic = GCPSlimInstanceConfig.create(self.product_versions, mt, True, True, 375, 10, cname == 'job-private', loc)
        name = f'{coll.machine_name_prefix}{len(self.inst_list):03d}'
        r = await self._guard(m.di.Instance.create(self.app, coll, name, f'act-{name}', cores, loc, mt, True, ic))
        if r['ok']:
            inst = r['value']
            coll.add_instance(inst)
            self.instances[name] = inst
            self.inst_list.append(name)
            if activate:
                await self._guard(inst.activate('10.0.0.%d' % len(self.inst_list), self.now_ms()))
        return r

    async def op_activate(self, inst_i):
        inst = self.instances.get(self._pick(self.inst_list, inst_i))
        if inst is None or inst.state != 'pending':
            return None
        return await self._guard(inst.activate('10.0.1.1', self.now_ms()))

    async def op_deactivate(self, inst_i, reason='deactivated', lost_reply=False):
        inst = self.instances.get(self._pick(self.inst_list, inst_i))
        if inst is None:
            return None
        if reason == 'activation_timeout' and inst.state != 'pending':
            reason = 'terminated'      # the monitor only reports an activation timeout for an instance that never activated
        state_before = inst.state
        if lost_reply:
            # the CALL commits in the database but its reply never reaches the driver (connection dropped after the commit);
            # the caller logs the error and the next monitoring pass deactivates the instance again
            db = inst.db
            if not hasattr(self, '_lose_reply'):
                # one permanent wrapper (two lossy deactivations may be in flight together: no nesting of patches)
                self._lose_reply = set()
                real = db.execute_and_fetchone
                lose = self._lose_reply

                async def maybe_lossy(sql, args=None, *a, **k):
                    r_ = await real(sql, args, *a, **k)
                    if 'deactivate_instance' in sql and args and args[0] in lose:
                        lose.discard(args[0])
                        raise ConnectionError('injected: reply to deactivate_instance lost after the commit')
                    return r_
                db.execute_and_fetchone = maybe_lossy
            self._lose_reply.add(inst.name)
            try:
                await self._guard(inst.deactivate(reason, self.now_ms()))
            finally:
                self._lose_reply.discard(inst.name)
        r = await self._guard(inst.deactivate(reason, self.now_ms()))
        r.update(instance=inst.name, reason=reason, instance_state_before=state_before, lost_reply=bool(lost_reply))
        return r

    async def op_mark_deleted(self, inst_i):
        inst = self.instances.get(self._pick(self.inst_list, inst_i))
        if inst is None:
            return None
        return await self._guard(inst.mark_deleted('deleted', self.now_ms()))

    # ---- driver: job ops -----------------------------------------------------------------------
    def job_rows(self, where='1=1', args=()):
        return self.q(f'''SELECT jobs.batch_id, jobs.job_id, jobs.state, jobs.job_group_id, jobs.spec, jobs.cores_mcpu, jobs.attempt_id,
jobs.always_run, jobs.cancelled, jobs.inst_coll, jobs.update_id, batches.userdata, batches.user, batches.format_version, jobs_telemetry.time_ready
FROM jobs INNER JOIN batches ON batches.id = jobs.batch_id
LEFT JOIN jobs_telemetry ON jobs.batch_id = jobs_telemetry.batch_id AND jobs.job_id = jobs_telemetry.job_id
WHERE {where} ORDER BY jobs.batch_id, jobs.job_id''', args)

    async def op_schedule(self, job_i, inst_i, states=('Ready',)):
        """direct driver.job.schedule_job on some job (any state if states=None) and an active instance"""
        rows = self.job_rows()
        # caller precondition of schedule_job: the scheduler only selects Ready jobs of job groups whose state is 'running'
        # (PoolScheduler.user_runnable_jobs); a racing duplicate call (states=None) concerns a job that was selected that way
        # earlier, i.e. a job of a committed update
        running_groups = {(g['batch_id'], g['job_group_id']) for g in self.q("SELECT batch_id, job_group_id FROM job_groups WHERE state = 'running'")}
        committed = {(u['batch_id'], u['update_id']) for u in self.q('SELECT batch_id, update_id FROM batch_updates WHERE committed')}
        if states is not None:
            rows = [r for r in rows if r['state'] in states and (r['batch_id'], r['job_group_id']) in running_groups]
        else:
            rows = [r for r in rows if (r['batch_id'], r['update_id']) in committed]
        row = self._pick(rows, job_i)
        if row is None:
            return None
        # the pool scheduler places a job only on an active instance of the job's own pool
        act = [n for n in self.inst_list if self.instances[n].state == 'active' and self.instances[n].inst_coll.name == row['inst_coll']
               and self.instances[n].inst_coll is not self.jpim]
        name = self._pick(act, inst_i)
        if name is None:
            return None
        inst = self.instances[name]
        rec = dict(row)
        rec['attempt_id'] = self.fresh_token(6)
        before = len(self.client.calls)
        # exactly what PoolScheduler.schedule_loop_body does around schedule_job (schedule_with_error_handling)
        inst.adjust_free_cores_in_memory(-rec['cores_mcpu'])
        r = await self._guard(self.m.dj.schedule_job(self.app, rec, inst))
        if not r.get('ok') and inst.state == 'active':
            inst.adjust_free_cores_in_memory(rec['cores_mcpu'])
        self.attempts.append(dict(batch_id=rec['batch_id'], job_id=rec['job_id'], attempt_id=rec['attempt_id'], instance=name))
        r.update(job=(rec['batch_id'], rec['job_id']), attempt_id=rec['attempt_id'], instance=name, always_run=bool(row['always_run']),
                 state_before=row['state'], posted=len(self.client.calls) > before)
        return r

    def _resources(self, sel):
        names = self.resource_names
        if sel is None:
            return None
        out = []
        for k, q in sel:
            out.append({'name': names[k % len(names)], 'quantity': 1 + q % 5})
        return out

    async def op_creating(self, job_i, inst_i=0, resources=None):
        """JobPrivateInstanceManager.create_instances_loop_body for one job: new pending job-private instance, then the real
        mark_job_creating (caller precondition: a Ready job of the job-private collection in a running group)."""
        running_groups = {(g['batch_id'], g['job_group_id']) for g in self.q("SELECT batch_id, job_group_id FROM job_groups WHERE state = 'running'")}
        rows = [r for r in self.job_rows() if r['state'] == 'Ready' and r['inst_coll'] == self.jpim.name and
                (r['batch_id'], r['job_group_id']) in running_groups]
        row = self._pick(rows, job_i)
        if row is None:
            return None
        r0 = await self.op_instance(len(self.pools), False, cores=2)
        if not r0.get('ok'):
            return r0
        name = self.inst_list[-1]
        inst = self.instances[name]
        att = self.fresh_token(6)
        r = await self._guard(self.m.dj.mark_job_creating(self.app, row['batch_id'], row['job_id'], att, inst, self.now_ms(),
                                                          self._resources(resources) or []))
        self.attempts.append(dict(batch_id=row['batch_id'], job_id=row['job_id'], attempt_id=att, instance=name))
        r.update(job=(row['batch_id'], row['job_id']), attempt_id=att, instance=name, state_before=row['state'],
                 always_run=bool(row['always_run']))
        return r

    async def op_jp_schedule(self, att_i):
        """JobPrivateInstanceManager.schedule_jobs_loop_body for one record: a Creating job whose instance became active."""
        cands = []
        for a in self.attempts:
            inst = self.instances.get(a['instance'])
            if inst is None or inst.inst_coll is not self.jpim or inst.state != 'active':
                continue
            row = self.job_rows('jobs.batch_id = %s AND jobs.job_id = %s', (a['batch_id'], a['job_id']))
            if row and row[0]['state'] == 'Creating' and row[0]['attempt_id'] == a['attempt_id']:
                cands.append((a, row[0], inst))
        c = self._pick(cands, att_i)
        if c is None:
            return None
        a, row, inst = c
        rec = dict(row)
        rec['attempt_id'] = a['attempt_id']
        r = await self._guard(self.m.dj.schedule_job(self.app, rec, inst))
        r.update(job=(rec['batch_id'], rec['job_id']), attempt_id=rec['attempt_id'], instance=a['instance'], always_run=bool(row['always_run']),
                 state_before='Creating')
        return r

    async def op_started(self, att_i, dt=0, resources=None, fresh=False):
        """worker reports job started for an existing attempt (or, with fresh=True, for a brand-new attempt id on a job)"""
        # worker endpoints are @active_instances_only: reports are only accepted from instances the driver holds as active
        a = self._pick([x for x in self.attempts if x['instance'] in self.instances and self.instances[x['instance']].state == 'active'], att_i)
        if a is None:
            return None
        inst = self.instances[a['instance']]
        att = self.fresh_token(6) if fresh else a['attempt_id']
        body = {'status': {'batch_id': a['batch_id'], 'job_id': a['job_id'], 'attempt_id': att, 'start_time': self.now_ms() + dt,
                           'resources': self._resources(resources) or []}}
        r = await self._guard(self.m.dm.job_started_1(FakeRequest(self.app, body), inst))
        if fresh:
            self.attempts.append(dict(batch_id=a['batch_id'], job_id=a['job_id'], attempt_id=att, instance=a['instance']))
        r.update(job=(a['batch_id'], a['job_id']), attempt_id=att, instance=a['instance'])
        return r

    async def op_complete(self, att_i, state=0, start_dt=None, end_dt=0, resources=None, marked_started=False, dup=1):
        # worker endpoints are @active_instances_only: reports are only accepted from instances the driver holds as active
        a = self._pick([x for x in self.attempts if x['instance'] in self.instances and self.instances[x['instance']].state == 'active'], att_i)
        if a is None:
            return None
        if self._frozen_parent_guard(job=(a['batch_id'], a['job_id'])):
            return None
        inst = self.instances[a['instance']]
        st = ['succeeded', 'failed', 'error'][state % 3]
        jg = self.q('SELECT job_group_id FROM jobs WHERE batch_id = %s AND job_id = %s', (a['batch_id'], a['job_id']))
        body = {'status': {'batch_id': a['batch_id'], 'job_id': a['job_id'], 'attempt_id': a['attempt_id'],
                           'job_group_id': jg[0]['job_group_id'] if jg else 0, 'state': st,
                           'start_time': None if start_dt is None else self.now_ms() + start_dt,
                           'end_time': None if end_dt is None else self.now_ms() + end_dt,
                           'status': {'state': st}, 'resources': self._resources(resources) or []},
                'marked_job_started': bool(marked_started)}
        r = None
        for _ in range(max(1, dup)):
            r = await self._guard(self.m.dm.job_complete_1(FakeRequest(self.app, body), inst))
        r.update(job=(a['batch_id'], a['job_id']), attempt_id=a['attempt_id'], instance=a['instance'], new_state=st)
        return r

    async def op_billing(self, inst_i, subset=0, dt=0):
        name = self._pick([n for n in self.inst_list if self.instances[n].state == 'active'], inst_i)
        if name is None:
            return None
        inst = self.instances[name]
        atts = [a for a in self.attempts if a['instance'] == name]
        if subset:
            atts = [a for k, a in enumerate(atts) if (subset >> (k % 8)) & 1]
        body = {'timestamp': self.now_ms() + dt,
                'attempts': [{'batch_id': a['batch_id'], 'job_id': a['job_id'], 'attempt_id': a['attempt_id']} for a in atts]}
        return await self._guard(self.m.dm.billing_update_1(FakeRequest(self.app, body), inst))

    async def op_unschedule(self, att_i, stale=False):
        # callers of unschedule_job (cancel-running loop, orphaned-attempt loop) only pass attempts on ACTIVE instances
        #   - cancel_cancelled_running_jobs: the current attempt of a Running, cancelled, non-always-run job
        #   - cancel_orphaned_attempts: a started, un-ended attempt that is not the current attempt of a Running/Creating job
        from .oracle import View
        v = View(self.snap(['batches', 'jobs', 'job_groups', 'job_group_self_and_ancestors', 'job_groups_cancelled', 'batch_updates',
                            'job_parents', 'attempts']))
        cands = []
        for x in self.attempts:
            if x['instance'] not in self.instances:
                continue
            j = v.jobs.get((x['batch_id'], x['job_id']))
            row = v.attempts.get((x['batch_id'], x['job_id'], x['attempt_id']))
            if j is None or row is None:
                continue
            current = j['state'] in ('Running', 'Creating') and j['attempt_id'] == x['attempt_id']
            if self.instances[x['instance']].state != 'active':
                # reordered driver message: the orphan loop selected (attempt, instance) while the instance was active; by the time
                # its unschedule_job call runs the instance is gone and the job has moved on to another attempt
                if stale and not current and j['attempt_id'] is not None and row['start_time'] is not None:
                    cands.append(x)
                continue
            if current and j['state'] == 'Running' and v.job_cancelled(j):
                cands.append(x)
            elif not current and row['start_time'] is not None and row['end_time'] is None:
                cands.append(x)
            elif stale and (x.get('unscheduled') or v.job_cancelled(j)):
                # a record the canceller selected a moment ago (the job was running and cancelled) whose attempt has meanwhile
                # been completed by the worker, or an unschedule call repeated after a lost reply
                cands.append(x)
        a = self._pick(cands, att_i)
        if a is None:
            return None
        rec = dict(batch_id=a['batch_id'], job_id=a['job_id'], attempt_id=a['attempt_id'], instance_name=a['instance'])
        r = await self._guard(self.m.dj.unschedule_job(self.app, rec))
        if r.get('ok'):
            a['unscheduled'] = True
        r.update(job=(a['batch_id'], a['job_id']), attempt_id=a['attempt_id'], instance=a['instance'])
        return r

    # ---- driver: loops ------------------------------------------------------------------------
    async def op_sched_loop(self, pool_i=0):
        pool = self._pick(list(self.pools.values()), pool_i)
        before = self.q('SELECT batch_id, job_id, attempt_id FROM attempts')
        r = await self._guard(pool.scheduler.schedule_loop_body())
        after = self.q('SELECT batch_id, job_id, attempt_id, instance_name FROM attempts')
        seen = {(x['batch_id'], x['job_id'], x['attempt_id']) for x in before}
        new = [x for x in after if (x['batch_id'], x['job_id'], x['attempt_id']) not in seen]
        for x in new:
            self.attempts.append(dict(batch_id=x['batch_id'], job_id=x['job_id'], attempt_id=x['attempt_id'], instance=x['instance_name']))
        r['new_attempts'] = [(x['batch_id'], x['job_id'], x['attempt_id'], x['instance_name']) for x in new]
        return r

    async def op_burst(self, pool_i=0, res_sel=1, dt=1000):
        """composite: one scheduler pass, every newly placed attempt reports started (with resources), the clock advances, the
        instances send a billing heartbeat.  Only a shortcut to reach billed attempts; every step is the same real code as the
        single ops."""
        r = await self.op_sched_loop(pool_i)
        if r is None or not r.get('ok'):
            return r
        new = r.get('new_attempts', [])
        for (b, j, att, inst) in new:
            idx = next((i for i, a in enumerate([x for x in self.attempts if x['instance'] in self.instances and self.instances[x['instance']].state == 'active'])
                        if a['attempt_id'] == att), None)
            if idx is not None:
                await self.op_started(idx, 0, [[res_sel, 1], [res_sel + 3, 2]])
        self.tick(int(dt))
        for i in range(len([n for n in self.inst_list if self.instances[n].state == 'active'])):
            await self.op_billing(i, 0, 0)
        r['burst'] = len(new)
        return r

    async def _occupy_worker_pool(self, busy):
        """the driver's shared AsyncWorkerPool is busy with other work for `busy` loop steps (the scheduler, other cancellers and
        the autoscaler share it): queued calls start only after the loop that queued them has moved on"""
        import asyncio

        async def other_work():
            for _ in range(busy):
                await asyncio.sleep(0)
        pool = self.app['async_worker_pool']
        for _ in range(self.cfg.get('pool_par', 8)):
            await pool.call(other_work)

    async def op_cancel_ready(self, busy=0):
        if self._frozen_parent_guard(states=('Ready',)):
            return None
        if busy:
            await self._occupy_worker_pool(busy)
        return await self._guard(self.canceller.cancel_cancelled_ready_jobs_loop_body())

    async def op_cancel_creating(self, crash=False):
        """crash=True: the driver dies (the cloud call fails) right after mark_job_complete, before the instance is deleted, so the
        job-private instance stays pending with an already ended attempt"""
        if self._frozen_parent_guard(states=('Creating',)):
            return None
        if not crash:
            return await self._guard(self.canceller.cancel_cancelled_creating_jobs_loop_body())
        orig = self.jpim.call_delete_instance

        async def dies(*a, **k):
            raise RuntimeError('injected: driver stopped before the instance was deleted')
        self.jpim.call_delete_instance = dies
        try:
            return await self._guard(self.canceller.cancel_cancelled_creating_jobs_loop_body())
        finally:
            self.jpim.call_delete_instance = orig

    async def op_cancel_running(self, busy=0):
        if busy:
            await self._occupy_worker_pool(busy)
        return await self._guard(self.canceller.cancel_cancelled_running_jobs_loop_body())

    async def op_cancel_orphans(self):
        return await self._guard(self.canceller.cancel_orphaned_attempts_loop_body())

    async def op_cleanup_staging(self):
        return await self._guard(self.m.dm.delete_committed_job_groups_inst_coll_staging_records(self.db))

    async def op_cleanup_cancellable(self):
        return await self._guard(self.m.dm.delete_prev_cancelled_job_group_cancellable_resources_records(self.db))

    async def op_compact(self):
        return await self._guard(self.m.dm.compact_agg_billing_project_users_table(self.app, self.db))

    async def op_compact_by_date(self):
        return await self._guard(self.m.dm.compact_agg_billing_project_users_by_date_table(self.app, self.db))

    async def op_cancel_fast_failing(self):
        return await self._guard(self.m.dm.cancel_fast_failing_job_groups(self.app))

    async def op_audit_incremental(self):
        return await self._guard(self.m.dm.check_incremental(self.db))

    async def op_audit_aggregation(self):
        return await self._guard(self.m.dm.check_resource_aggregation(self.db))

    # ---- snapshots ----------------------------------------------------------------------------
    SNAP_TABLES = ['batches', 'job_groups', 'job_group_self_and_ancestors', 'job_groups_cancelled', 'batch_updates', 'jobs',
                   'job_parents', 'attempts', 'attempt_resources', 'instances', 'instances_free_cores_mcpu',
                   'user_inst_coll_resources', 'job_group_inst_coll_cancellable_resources', 'job_groups_inst_coll_staging',
                   'job_groups_n_jobs_in_complete_states', 'aggregated_job_resources_v3', 'aggregated_job_group_resources_v3',
                   'aggregated_billing_project_user_resources_v3', 'aggregated_billing_project_user_resources_by_date_v3',
                   'jobs_telemetry']

    def snap(self, tables=None):
        s = self.engine.connect()
        try:
            return {t: s.query(f'SELECT * FROM {t}') for t in (tables or self.SNAP_TABLES)}
        finally:
            self.engine.close_session(s)


async def run_history(ops, *, observer=None, **sim_kw):
    """Execute a history; observer(world, op, result) may return a list of failures after each op (stops at the first)."""
    w = World(**sim_kw)
    await w.start()
    fails = []
    try:
        if observer is not None:
            r = observer(w, None, None)
            if asyncio.iscoroutine(r):
                r = await r
        for op in ops:
            res = await w.apply(op)
            if observer is not None:
                r = observer(w, op, res)
                if asyncio.iscoroutine(r):
                    r = await r
                if r:
                    fails.extend(r)
                    break
    finally:
        await w.close()
    return w, fails


def run(ops, **kw):
    from vlib.aiosched import new_loop, close_loop
    loop = new_loop()
    try:
        return loop.run_until_complete(run_history(ops, **kw))
    finally:
        close_loop(loop)
