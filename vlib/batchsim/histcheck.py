"""Shared history generator and runner for the SQL-anchored batch properties.

A case is {'cfg': {...}, 'ops': [...]} (JSON).  Profiles weight the op vocabulary towards one property.
"""
from __future__ import annotations

import asyncio

from .oracle import View

FRONT = ['batch', 'submit', 'update', 'groups', 'jobs', 'commit', 'cancel', 'delete']
INST = ['instance', 'activate', 'deactivate', 'mark_deleted']
JOBOPS = ['schedule', 'creating', 'started', 'complete', 'billing', 'unschedule']
LOOPS = ['sched_loop', 'cancel_ready', 'cancel_creating', 'cancel_running', 'cancel_orphans']
CLEAN = ['cleanup_staging', 'cleanup_cancellable', 'compact', 'compact_by_date', 'cancel_fast_failing']

PROFILES = {
    # weights per op kind
    'counters': dict(batch=1, submit=5, late_child=3, update=3, groups=3, jobs=4, commit=4, cancel=6, delete=1, instance=1, deactivate=2,
                     schedule=9, creating=1, started=5, complete=12, unschedule=2, sched_loop=7, cancel_ready=3, cancel_creating=1,
                     cancel_running=2, cancel_orphans=1, cleanup_staging=2, cleanup_cancellable=2, tick=1),
    'billing': dict(batch=1, submit=4, cancel=1, cancel_creating=1, cancel_creating_crash=1, instance=1, deactivate=2, schedule=5, creating=1, jp_schedule=1, activate=1, started=9,
                    complete=9, billing=9, unschedule=2, sched_loop=3, burst=8, compact=3, compact_by_date=3, tick=9, daytick=2),
    'lifecycle': dict(batch=1, submit=6, late_child=4, update=1, jobs=2, commit=2, cancel=3, instance=2, deactivate=2, schedule=6, schedule_any=3,
                      creating=4, activate=3, jp_schedule=3, cancel_creating=2, started=5, started_fresh=2, complete=9, unschedule=3, sched_loop=3,
                      cancel_ready=2, cancel_running=2, cancel_orphans=2, tick=1),
    'deps': dict(batch=1, submit=5, late_child=5, update=4, groups=2, jobs=5, commit=6, cancel=1, instance=1, schedule=7, complete=9, sched_loop=5,
                 cancel_ready=3, creating=4, activate=2, jp_schedule=2, tick=1),
    'groups': dict(batch=1, submit=6, late_child=2, update=4, groups=4, jobs=4, commit=5, cancel=4, delete=1, instance=1, schedule=5, complete=8,
                   sched_loop=4, cancel_ready=4, cancel_running=1, tick=1),
    'cancel': dict(batch=3, submit=6, late_child=2, update=3, groups=4, jobs=4, commit=4, cancel=9, instance=2, schedule=6, schedule_any=2, creating=3,
                   activate=2, jp_schedule=3,
                   started=4, complete=5, sched_loop=5, cancel_ready=3, cancel_creating=2, cancel_running=3, cleanup_cancellable=2,
                   tick=1),
    'instances': dict(batch=1, submit=5, instance=4, activate=4, deactivate=4, mark_deleted=2, schedule=8, schedule_any=2, creating=5, jp_schedule=4,
                      started=5, started_fresh=2, complete=8, unschedule=4, sched_loop=3, cancel_running=2, cancel_orphans=2, cancel=3, cancel_creating=3, cancel_creating_crash=1, cancel_ready=1,
                      tick=1),
    'uncommitted': dict(batch=1, submit=4, late_child=2, update=6, groups=4, jobs=7, commit=3, cancel=5, instance=1, schedule=6, complete=9,
                        sched_loop=6, cancel_ready=3, cancel_running=1, cleanup_staging=1, tick=1),
}


# in how many of twelve ops two sub-ops run concurrently (World.op_par)
PAR = {'billing': 4, 'counters': 1, 'lifecycle': 1, 'deps': 1, 'groups': 1, 'cancel': 1, 'instances': 2, 'uncommitted': 1}

PAR_PAIRS = {'billing': (['compact', 'compact_by_date'], ['billing', 'complete', 'started', 'deactivate', 'unschedule', 'burst'])}

# in how many of four cases a 'chain' is woven into the history (see strategies)
CHAINS = {'uncommitted': 1, 'lifecycle': 1, 'deps': 2, 'counters': 1, 'cancel': 2, 'instances': 1, 'groups': 1, 'billing': 1}


def strategies(profile, max_ops=40):
    from hypothesis import strategies as st
    W = PROFILES[profile]
    small = st.integers(0, 5)
    ref = st.integers(-4, 4)
    job = st.fixed_dictionaries({'g': st.integers(-3, 3), 'parents': st.lists(ref, max_size=3), 'cpu': st.integers(0, 5)},
                                optional={'ar': st.booleans(), 'pool': st.sampled_from([0, 0, 1, 2, 2]), 'legacy': st.booleans()})
    jobs = st.lists(job, min_size=1, max_size=6)
    groups = st.lists(st.integers(-3, 3), max_size=3)
    res = st.one_of(st.none(), st.lists(st.tuples(st.integers(0, 40), st.integers(0, 4)).map(list), min_size=1, max_size=3))
    dt = st.sampled_from([0, 0, 1, 5, 50, -5, -50, 1000])

    def mk(kind):
        if kind == 'batch':
            return st.tuples(st.just('batch'), st.integers(0, 1), st.integers(0, 1)).map(list)
        if kind == 'submit':
            return st.tuples(st.just('submit'), small, groups, jobs).map(list)
        if kind == 'late_child':
            # a whole later update (reserve + bunch + commit in one op) whose jobs depend on jobs of earlier updates, whatever state
            # those are in by now: exercises commit_batch_update's recomputation from the parents' current states
            lj = st.fixed_dictionaries({'g': st.integers(0, 3), 'parents': st.lists(st.integers(0, 12), min_size=1, max_size=3),
                                        'cpu': st.integers(0, 5)}, optional={'ar': st.booleans(), 'pool': st.sampled_from([0, 0, 2])})
            return st.tuples(st.just('submit'), small, st.just([]), st.lists(lj, min_size=1, max_size=3)).map(list)
        if kind == 'update':
            return st.tuples(st.just('update'), small, groups, st.one_of(jobs, st.just([]))).map(list)
        if kind == 'groups':
            return st.tuples(st.just('groups'), small, st.one_of(st.none(), st.integers(1, 2)), st.booleans()).map(list)
        if kind == 'jobs':
            return st.tuples(st.just('jobs'), small, st.one_of(st.none(), st.integers(1, 3)), st.sampled_from([False, False, True])).map(list)
        if kind == 'commit':
            return st.tuples(st.just('commit'), small).map(list)
        if kind == 'cancel':
            return st.tuples(st.just('cancel'), small, st.integers(0, 6)).map(list)
        if kind == 'delete':
            return st.tuples(st.just('delete'), small).map(list)
        if kind == 'instance':
            return st.tuples(st.just('instance'), st.sampled_from([0, 0, 0, 1, 2]), st.sampled_from([True, True, False])).map(list)
        if kind in ('activate', 'mark_deleted'):
            return st.tuples(st.just(kind), small).map(list)
        if kind == 'deactivate':
            return st.tuples(st.just('deactivate'), small, st.sampled_from(['deactivated', 'preempted', 'activation_timeout']),
                             st.sampled_from([False, False, False, True])).map(list)
        if kind == 'schedule':
            return st.tuples(st.just('schedule'), st.integers(0, 12), small).map(list)
        if kind == 'schedule_any':
            return st.tuples(st.just('schedule'), st.integers(0, 12), small, st.none()).map(list)
        if kind == 'creating':
            return st.tuples(st.just('creating'), st.integers(0, 12), small, res).map(list)
        if kind == 'started':
            return st.tuples(st.just('started'), st.integers(0, 12), dt, res).map(list)
        if kind == 'started_fresh':
            return st.tuples(st.just('started'), st.integers(0, 12), dt, res, st.just(True)).map(list)
        if kind == 'complete':
            # a worker's completion report always carries an end time; the start time may be missing
            return st.tuples(st.just('complete'), st.integers(0, 12), st.sampled_from([0, 0, 0, 1, 2]), st.one_of(st.none(), dt),
                             dt, res, st.booleans(), st.sampled_from([1, 1, 1, 2])).map(list)
        if kind == 'billing':
            return st.tuples(st.just('billing'), small, st.integers(0, 255), dt).map(list)
        if kind == 'jp_schedule':
            return st.tuples(st.just('jp_schedule'), small).map(list)
        if kind == 'burst':
            return st.tuples(st.just('burst'), st.sampled_from([0, 0, 0, 1]), st.integers(0, 30), st.sampled_from([1, 100, 1000])).map(list)
        if kind == 'unschedule':
            return st.tuples(st.just('unschedule'), st.integers(0, 12), st.sampled_from([False, True])).map(list)
        if kind == 'sched_loop':
            return st.tuples(st.just('sched_loop'), st.sampled_from([0, 0, 0, 1])).map(list)
        if kind in ('cancel_ready', 'cancel_running'):
            # busy > 0: the driver's shared worker pool is occupied for that many loop steps when the canceller queues its calls
            return st.tuples(st.just(kind), st.sampled_from([0, 0, 3, 12])).map(list)
        if kind == 'cancel_creating_crash':
            return st.just(['cancel_creating', True])
        if kind == 'tick':
            return st.tuples(st.just('tick'), st.sampled_from([1, 10, 100, 1000, 60_000])).map(list)
        if kind == 'daytick':
            return st.just(['tick', 86_400_000])
        return st.just([kind])
    kinds = []
    # Hypothesis favours the first elements of sampled_from: put the heaviest (most useful) ops first
    for k, w in sorted(W.items(), key=lambda kv: -kv[1]):
        kinds += [k] * w
    seq_op = st.sampled_from(kinds).flatmap(mk)
    # two requests / loop bodies in flight at once (World.op_par): sub-ops are single real calls (no composite harness ops), the
    # schedule says how often to yield at each SQL statement boundary
    par_kinds = [k for k in kinds if k not in ('submit', 'late_child', 'batch', 'instance', 'tick', 'daytick', 'burst', 'update')]
    par_op = st.tuples(st.just('par'), st.sampled_from(par_kinds).flatmap(mk), st.sampled_from(par_kinds).flatmap(mk),
                       st.lists(st.integers(0, 3), max_size=10)).map(list)
    pairs = PAR_PAIRS.get(profile)
    if pairs:
        # profile-specific pairs that share rows: e.g. a compaction run against the writers of the table it rewrites
        left = st.sampled_from([k for k in pairs[0] if k in W]).flatmap(mk)
        right = st.sampled_from([k for k in pairs[1] if k in W]).flatmap(mk)
        aimed = st.tuples(st.just('par'), left, right, st.lists(st.integers(0, 2), min_size=3, max_size=10)).map(list)
        par_op = st.one_of(par_op, aimed, aimed, aimed)
    op = st.one_of(*([seq_op] * (12 - PAR.get(profile, 1)) + [par_op] * PAR.get(profile, 1)))
    prefix = [['instance', 0, True], ['batch', 0, 0]]
    cfg = st.fixed_dictionaries({'n_tokens': st.sampled_from([1, 2, 5]), 'draws': st.lists(st.integers(0, 15), min_size=1, max_size=8)},
                                optional={'pool_par': st.sampled_from([1, 1, 2])})      # the driver's shared worker pool: saturated or roomy
    first = st.tuples(st.sampled_from(['submit', 'update', 'update'] if profile == 'uncommitted' else ['submit', 'submit', 'update']),
                      st.just(0), groups, jobs).map(list)
    free = st.builds(lambda c, f, ops: {'cfg': c, 'ops': prefix + [f] + ops}, cfg, first, st.lists(op, min_size=8, max_size=max_ops))
    if not CHAINS.get(profile):
        return free

    # 'chain' cases: one job is followed through its whole lifecycle (index -1 = the most recent job / instance / attempt), a later
    # update with children of existing jobs is committed at a generated point of that lifecycle, and free ops are interleaved between
    # the steps.  Free generation alone reaches e.g. 'a later update committed while its parent is Creating, and that parent then
    # completes' in well under 1% of cases.
    cstate = st.sampled_from([0, 0, 1, 2])

    def chain(jp, ar, cpu, cst, mid_cancel, nest, cg, under, race=False):
        # nest: the job sits at the bottom of a fresh chain of `nest` nested groups; a mid-life cancel then hits group index cg (any
        # level) and, with `under`, is followed by a multi-request update creating a group and a job beneath generated groups
        j = {'g': -nest if nest else 0, 'parents': [], 'cpu': cpu, 'pool': 2 if jp else 0}
        if ar:
            j['ar'] = True
        steps = [['submit', 0, [0, -1, -2][:nest], [j]]]
        if jp and mid_cancel == 4:
            # the VM never activates: (optionally cancelled while Creating, withdrawn by the canceller, then) activation timeout
            steps += [['creating', -1, 0, None]] + ([['cancel', 0, 0], ['cancel_creating', cst == 2]] if cst else []) + \
                     [['tick', 1000], ['deactivate', -1, 'activation_timeout']]
            if not cst:
                # the job is Ready again: a second VM is requested (attempt 2, Creating) and a reordered unschedule for attempt 1
                # arrives -- a stale-attempt message for a Creating job
                steps += [['creating', -1, 0, None], ['unschedule', 0, True], ['unschedule', 1, True]]
            return steps
        if jp:
            steps += [['creating', -1, 0, None], ['activate', -1], ['jp_schedule', -1]]
        else:
            steps += [['schedule', -1, 0]]
            if race:
                # a scheduling race leaves a second, stale attempt of the job on another instance, which is then lost
                steps += [['instance', 0, True], ['schedule', -1, -1, None], ['deactivate', -1, 'preempted']]
        steps += [['started', -1, 0, None], ['complete', -1, cst, 0, 5, None, True, 1]]
        if under is not None and not mid_cancel and under[0] % 2 == 0:
            # once the job is done: an update that only adds job groups (no jobs) is opened, sent and committed
            steps += [['update', 0, [under[1]], []], ['groups', -1, None, False], ['commit', -1]]
        if mid_cancel:
            at = mid_cancel % len(steps) + 1
            extra = [['cancel', 0, cg if nest else 0]]
            if nest >= 1 and cpu % 2 == 0:
                # ancestor first, then the group right beneath it (chain-relative: index -1 is the deepest group of the chain)
                extra = [['cancel', 0, 0 if nest == 1 else -2], ['cancel', 0, -1]]
            if under is not None and nest in (1, 2) and under[0] % 2:
                # aimed: an update is opened, THEN an ancestor (the batch root: groups nest two levels deep at most) of the group it
                # targets is cancelled, then its bunches arrive: the target is only a descendant of the cancelled group
                top = f'L{nest}'
                extra = [['update', 0, [top], [{'g': top, 'parents': [], 'cpu': 1}]], ['cancel', 0, 0],
                         ['groups', -1, None, False], ['jobs', -1, None, False], ['commit', -1]]
            elif under is not None:
                extra += [['update', 0, [under[0]], [{'g': under[1], 'parents': [], 'cpu': 1}]], ['groups', -1, None, False],
                          ['jobs', -1, None, False], ['commit', -1]]
            steps[at:at] = extra
        return steps

    chains = st.builds(chain, st.booleans(), st.booleans(), st.integers(0, 5), cstate, st.sampled_from([0, 0, 0, 1, 2, 3, 4]),
                       st.sampled_from([0, 0, 1, 2, 2]), st.integers(0, 4),
                       st.one_of(st.none(), st.tuples(st.integers(0, 5), st.integers(0, 5)).map(list)), st.sampled_from([False, False, True]))
    child = st.fixed_dictionaries({'g': st.integers(0, 3), 'parents': st.lists(st.sampled_from([-1, -1, 0, 1, 2]), min_size=1, max_size=2),
                                   'cpu': st.integers(0, 5)}, optional={'ar': st.booleans(), 'pool': st.sampled_from([0, 0, 2])})

    def weave(c, f, steps, at, kids, gaps, tail):
        ops = prefix + [f]
        # (one case in three: the children arrive once the chain's job is terminal -- e.g. failed -- while their other parents live on)
        at = len(steps) if at >= 5 else 1 + at % len(steps)
        for i, s_ in enumerate(steps):
            if i == at and profile == 'uncommitted':
                # the children arrive in an update that stays open for a while: bunch sent now, commit somewhere in the tail
                open_kids = [dict(k_, parents=['L1' if p < 0 else f'L{2 + p}' for p in k_['parents']]) for k_ in kids]
                ops += [['update', 0, [], open_kids], ['jobs', -1, None, False]]
            elif i == at:
                # parents: -1 -> the chain's job (the most recently reserved id), others -> any existing job
                ops.append(['late_children', 0, kids])
            ops.append(s_)
            ops += gaps[i % len(gaps)]
        if at >= len(steps):
            ops.append(['late_children', 0, kids])
        return {'cfg': c, 'ops': ops + tail}

    chained = st.builds(weave, cfg, first, chains, st.integers(0, 7), st.lists(child, min_size=1, max_size=2),
                        st.lists(st.lists(op, max_size=2), min_size=1, max_size=8), st.lists(op, max_size=12))
    k = CHAINS[profile]
    return st.one_of(*([free] * (4 - k) + [chained] * k))


def classify(w):
    """Class counters derived from the executed log (for the evidence distribution and the non-trivial rules)."""
    cls = set()
    committed_seen = False
    n_commits = 0
    cancel_after_commit = False
    for op, r in w.log:
        k = op[0]
        if r.get('skipped'):
            continue
        ok = r.get('ok')
        if k in ('commit', 'submit', 'late_children') and ok:
            n_commits += 1
            committed_seen = True
        if k == 'par' and r.get('schedule_points', 0) >= 2 and not r.get('a', {}).get('skipped') and not r.get('b', {}).get('skipped'):
            cls.add('two_ops_in_flight')
        if k in ('commit', 'submit', 'late_children') and ok:
            for ps in r.get('parent_states_at_commit', ()):
                cls.add('later_commit_parent_' + ps)
        if k == 'cancel' and ok and committed_seen:
            cancel_after_commit = True
            cls.add('cancel_after_commit')
        if k == 'complete' and ok:
            cls.add('complete')
        if k == 'complete' and len(op) > 7 and op[7] and op[7] > 1:
            cls.add('dup_complete')
        if k == 'deactivate' and ok:
            cls.add('deactivate')
        if k in ('sched_loop', 'burst') and r.get('new_attempts'):
            cls.add('scheduler_scheduled')
        if k == 'schedule' and ok:
            cls.add('direct_schedule')
        if k in ('jobs', 'groups') and len(op) > 3 and op[3] and ok:
            cls.add('resend_bunch')
        if k == 'unschedule' and ok:
            cls.add('unschedule')
        if not ok and 'sqlerr' in r:
            cls.add(f'sqlerr_{r["sqlerr"]}')
        if not ok and 'http' in r:
            cls.add(f'http_{r["http"]}')
        if not ok and 'exc' in r:
            cls.add('exc_' + r['exc'].split(':')[0])
    if n_commits >= 2:
        cls.add('two_commits')
    if any(len(u['groups']) for u in w.updates):
        cls.add('nested_groups')
    if any(j['ar'] for u in w.updates for j in u['jobs']):
        cls.add('always_run_job')
    if any(j['parents'] for u in w.updates for j in u['jobs']):
        cls.add('has_parents')
    if any(kd == 'abs' for u in w.updates for j in u['jobs'] for kd, _ in j['parents']):
        cls.add('cross_update_parent')
    return cls


def all_known_signatures():
    import json
    import os
    from vlib.runner import VERIF
    p = os.path.join(VERIF, 'known_findings.json')
    try:
        return {e['signature'] for e in json.load(open(p))['findings'] if e.get('status') == 'known'}
    except Exception:
        return set()


def known_signatures_of(prop):
    import json
    import os
    from vlib.runner import VERIF
    try:
        return {e['signature'] for e in json.load(open(os.path.join(VERIF, 'known_findings.json')))['findings']
                if e.get('status') == 'known' and e.get('property') == prop}
    except Exception:
        return set()


def _attr(w, sig):
    """a failure in a run where the trigger of a listed finding occurred is attributed to that finding -- unless the oracle marked it
    ('!' prefix) as something that finding cannot explain"""
    if sig.startswith('!'):
        return sig[1:]
    return w.flags[0] if w.flags else sig


def run_case(case, step_oracle, *, final_oracle=None, nontrivial=None, extra_classes=None, sim_kw=None, guarded=True, txn_oracle=None,
             prop=None):
    """step_oracle(world, prev_view, cur_view, op, result) -> list of failures (may be async)."""
    from .world import World
    from vlib.aiosched import new_loop, close_loop
    from vlib.minimysql.errors import NotSupported
    cfg = case.get('cfg', {})
    ops = case['ops']
    out = {}

    async def go():
        kw = dict(n_tokens=cfg.get('n_tokens', 2), seed_draws=cfg.get('draws') or [0])
        if cfg.get('pool_par'):
            kw['pool_par'] = cfg['pool_par']
        if guarded:
            # an "unguarded" case lifts only the guards of findings listed for THIS property (so that it re-finds them);
            # findings that belong to other properties stay excluded by construction
            kw['guards'] = all_known_signatures() - (known_signatures_of(prop) if case.get('unguarded') else set())
        kw.update(sim_kw or {})
        w = World(**kw)
        out['cur_w'] = w
        await w.start()
        fails = []
        fine = {'fails': None}
        if txn_oracle is not None:
            # observe job states at every transaction boundary (a loop-body op runs many transactions)
            fine['prev'] = {(r['batch_id'], r['job_id']): r['state'] for r in w.q('SELECT batch_id, job_id, state FROM jobs')}

            async def on_txn(sess):
                cur = {(r['batch_id'], r['job_id']): r['state'] for r in w.q('SELECT batch_id, job_id, state FROM jobs')}
                if fine['fails'] is None:
                    r = txn_oracle(fine['prev'], cur)
                    if r:
                        fine['fails'] = r
                fine['prev'] = cur
            w.engine.on_transaction_start = on_txn
        try:
            prev = View(w.snap())
            for i, op in enumerate(ops):
                res = await w.apply(op)
                if getattr(w, 'stop_history', False):
                    # two ops in flight reached the trigger of a known finding that no guard could see in advance: the history ends
                    # here unjudged (excluded by construction, after the fact)
                    break
                if fine['fails']:
                    fails = [(_attr(w, s), c, f'during/after op #{i} {op}: [{s}] {m}') for s, c, m in fine['fails']]
                    break
                if not res.get('ok') and 'exc' in res and res['exc'].startswith('NotSupported'):
                    raise NotSupported(res['exc'])
                cur = View(w.snap())
                r = step_oracle(w, prev, cur, op, res)
                if asyncio.iscoroutine(r):
                    r = await r
                if r:
                    # a failure in a run where the trigger condition of a listed finding occurred is attributed to that finding
                    fails = [(_attr(w, s), c, f'after op #{i} {op}: [{s}] {m}') for s, c, m in r]
                    break
                prev = cur
            if not fails and final_oracle is not None and not getattr(w, 'stop_history', False):
                r = final_oracle(w, prev)
                if asyncio.iscoroutine(r):
                    r = await r
                fails = list(r or [])
        finally:
            out['w'] = w
            await w.close()
        return fails

    from vlib.aiosched import Deadlock
    loop = new_loop()
    loop.set_exception_handler(lambda lp, ctx: None)     # async-generator finalisers after close are noise
    loop.detect_deadlock = True
    loop.max_time = loop.time() + 3.0e6
    try:
        try:
            fails = loop.run_until_complete(go())
        except Deadlock as e:
            w = out.get('cur_w')
            last = w.log[-1][0] if w is not None and w.log else None
            n = len(w.log) if w is not None else 0
            fails = [('deadlock', 'every request is answered', f'the op after #{n - 1} ({last}) never returns: {e}')]
            out.setdefault('w', w)
    finally:
        loop.detect_deadlock = False
        close_loop(loop)
    w = out['w']
    cls = classify(w)
    if w.excluded:
        cls.add('excluded_known_op')
    if extra_classes is not None:
        cls |= set(extra_classes(w))
    nt = nontrivial(w, cls) if nontrivial is not None else len(cls) >= 3
    return bool(nt), sorted(cls), fails


def standard_module(prop, profile, step_oracle, nontrivial, rule, *, quick_n=25, thorough_n=1200, max_ops=40, final_oracle=None,
                    extra_classes=None, txn_oracle=None, unguarded_shards=0):
    """Build plan/run_shard/replay for a history property."""
    def check(case):
        return run_case(case, step_oracle, final_oracle=final_oracle, nontrivial=nontrivial, extra_classes=extra_classes,
                        txn_oracle=txn_oracle, prop=prop)

    def plan(tier):
        n = quick_n if tier == 'quick' else thorough_n
        return [dict(kind='hyp', n=n, unguarded=(i < unguarded_shards)) for i in range(16)]

    def run_shard(spec, seed, tier):
        from vlib.runner import Result
        from vlib.hyp import search
        res = Result()
        strat = strategies(profile, max_ops=max_ops if tier == 'quick' else max_ops * 2)
        if spec.get('unguarded'):
            strat = strat.map(lambda c: dict(c, unguarded=True))
        search(res, prop, strat, check, spec['n'], seed, shrink=True)
        return res

    def replay(case):
        nt, cls, fl = check(case)
        return [dict(signature=s, clause=c, message=m, case=case) for s, c, m in fl]
    return plan, run_shard, replay
