"""E1 hostenv — make the repository's Python importable in this sandbox.

Nothing is written under /repo.  `install()` is idempotent.
"""
from __future__ import annotations

import importlib.abc
import importlib.machinery
import os
import sys
import tempfile
import types

REPO = os.environ.get('VERIF_REPO', '/repo')
VERIF = os.path.dirname(os.path.dirname(os.path.abspath(__file__)))
DEPS = os.path.join(VERIF, '.deps')

# third-party top-level names that are absent from /venv and are served as inert stubs.
STUB_ALLOW = {
    'aiomysql', 'pymysql', 'aiohttp_session', 'orjson', 'pandas', 'plotly', 'prometheus_client',
    'prometheus_async', 'kubernetes_asyncio', 'google', 'azure', 'boto3', 'botocore', 'parsimonious',
    'decorator', 'py4j', 'pyspark', 'humanize', 'deprecated', 'jinja2', 'aiohttp_jinja2', 'uvloop',
    'nest_asyncio', 'janus', 'jproperties', 'rich', 'tabulate', 'typer', 'dill', 'aiodocker', 'psutil',
    'async_timeout', 'cryptography', 'msal', 'requests', 'bokeh', 'avro', 'Deprecated', 'gidgethub',
    'zulip', 'aiorwlock', 'uritemplate', 'jwt', 'httplib2', 'oauthlib', 'google_auth_oauthlib',
    'aiodns', 'certifi', 'dateutil', 'docker', 'sass', 'libsass', 'IPython', 'ipykernel', 'ipywidgets',
    'matplotlib', 'scipy_stub_never', 'pyarrow', 'sklearn', 'tqdm', 'secrets_stub_never', 'ujson',
    'aiofiles', 'frozenlist_stub_never', 'toml', 'tomli', 'git', 'kubernetes', 'protobuf', 'grpc',
    'prometheus_api_client', 'aiohttp_devtools', 'setproctitle', 'regex', 'portpicker', 'pyjwt',
    'azure_stub_never', 'mypy_boto3_s3', 'types_aiobotocore', 'pkg_resources_stub_never', 'helpers',
    'collections_extended', 'py', 'pytz', 'pyfaidx', 'pysam',
    'dictdiffer', 'urllib3', 'googlecloudprofiler', 'pythonjsonlogger', 'scipy',
}


class _StubMeta(type):
    """Metaclass so that stub classes tolerate attribute access, subscripting and calls."""

    def __getattr__(cls, name):
        if name.startswith('__') and name.endswith('__'):
            raise AttributeError(name)
        sub = _make_stub_class(f'{cls.__name__}.{name}')
        setattr(cls, name, sub)
        return sub

    def __getitem__(cls, item):
        return cls

    def __or__(cls, other):
        return cls

    def __ror__(cls, other):
        return cls


def _make_stub_class(name: str):
    def __init__(self, *a, **k):
        self._stub_args = (a, k)

    def __call__(self, *a, **k):
        if len(a) == 1 and callable(a[0]) and not k:
            return a[0]  # decorator position
        return _make_stub_class(name + '()')()

    def __getattr__(self, item):
        if item.startswith('__') and item.endswith('__'):
            raise AttributeError(item)
        return _make_stub_class(f'{name}.{item}')()

    def __iter__(self):
        return iter(())

    def __enter__(self):
        return self

    def __exit__(self, *a):
        return False

    ns = dict(__init__=__init__, __call__=__call__, __getattr__=__getattr__, __iter__=__iter__,
              __enter__=__enter__, __exit__=__exit__, __module__='verif_stub')
    return _StubMeta(name.rsplit('.', 1)[-1] or 'Stub', (Exception,), ns)


class StubModule(types.ModuleType):
    __path__: list = []

    def __getattr__(self, name):
        if name.startswith('__') and name.endswith('__'):
            raise AttributeError(name)
        full = f'{self.__name__}.{name}'
        if full in sys.modules:
            return sys.modules[full]
        # lower-case names that look like submodules become modules on import only; attributes are classes
        obj = _make_stub_class(full)
        setattr(self, name, obj)
        return obj


class _StubFinder(importlib.abc.MetaPathFinder, importlib.abc.Loader):
    def find_spec(self, fullname, path=None, target=None):
        top = fullname.split('.', 1)[0]
        if top in STUB_ALLOW and top not in _REAL:
            return importlib.machinery.ModuleSpec(fullname, self, is_package=True)
        return None

    def create_module(self, spec):
        m = StubModule(spec.name)
        m.__path__ = []
        m.__verif_stub__ = True
        return m

    def exec_module(self, module):
        pass


_REAL: set = set()
_installed = False


def _mod(name: str, **attrs) -> types.ModuleType:
    m = types.ModuleType(name)
    m.__dict__.update(attrs)
    sys.modules[name] = m
    return m


def install(real_mysql: bool = True, numpy: bool = False):
    """Prepare sys.path, env, stubs and shims.  Safe to call many times."""
    global _installed
    if _installed:
        return
    _installed = True
    for p in ('hail/python', 'gear', 'web_common', 'batch', 'auth', 'ci'):
        sys.path.insert(0, os.path.join(REPO, p))
    if os.path.isdir(DEPS):
        sys.path.append(DEPS)
    if VERIF not in sys.path:
        sys.path.insert(0, VERIF)

    env = {
        'HAIL_DEFAULT_NAMESPACE': 'default', 'CLOUD': 'gcp', 'HAIL_SHA': 'deadbeef', 'HAIL_SCOPE': 'test',
        'HAIL_DOMAIN': 'hail.test', 'HAIL_DOCKER_ROOT_IMAGE': 'ubuntu:22.04',
        'HAIL_QUERY_STORAGE_URI': 'gs://query', 'HAIL_DOCKER_PREFIX': 'docker.test',
        'HAIL_BATCH_STORAGE_URI': 'gs://batch', 'HAIL_BATCH_WORKER_IMAGE': 'worker:latest',
        'HAIL_GCP_PROJECT': 'proj', 'HAIL_GCP_ZONE': 'us-central1-a', 'HAIL_GCP_REGION': 'us-central1',
        'HAIL_DEFAULT_NAMESPACE_NAME': 'default', 'KUBERNETES_SERVER_URL': 'https://k8s.test',
        'HAIL_BATCH_GCP_REGIONS': '["us-central1"]', 'HAIL_BATCH_STORAGE_LOCATION': 'gs://batch',
        'HAIL_CI_OAUTH_TOKEN': 'x', 'HAIL_CI_UTILS_IMAGE': 'ci-utils', 'HAIL_BUILDKIT_IMAGE': 'buildkit',
        'HAIL_CI_STORAGE_URI': 'gs://ci', 'HAIL_CI_GITHUB_CONTEXT': 'ci-test', 'HAIL_ORGANIZATION_DOMAIN': 'x.org',
        'HAIL_DEPLOY_STEPS': '[]', 'HAIL_WATCHED_BRANCHES': '[]', 'HAIL_TEST_TOKEN_FILE': '/dev/null',
        'HAIL_SHOULD_PROFILE': '0', 'HAIL_SHOULD_CHECK_INVARIANTS': '1', 'HAIL_BATCH_GCP_PROJECT': 'proj',
        'INTERNAL_GATEWAY_IP': '10.0.0.1', 'HAIL_DEFAULT_PAYMENT_METHOD': 'x',
        'HAIL_IDENTITY_PROVIDER_JSON': '{"idp":"Google"}', 'HAIL_DONT_RETRY_500': '0',
        'HAIL_QUERY_ACCEPTABLE_JAR_SUBFOLDER': '/jars', 'PORT': '5000',
    }
    gcdir = tempfile.mkdtemp(prefix='verif-globalconfig-')
    for k in ('batch_gcp_regions', 'batch_logs_storage_uri', 'cloud', 'default_namespace', 'docker_prefix',
              'docker_root_image', 'domain', 'gcp_project', 'gcp_region', 'gcp_zone', 'kubernetes_server_url',
              'organization_domain', 'internal_ip', 'ip', 'hail_test_gcs_bucket', 'test_storage_uri',
              'hail_query_gcs_path', 'query_storage_uri', 'batch_logs_bucket'):
        with open(os.path.join(gcdir, k), 'w') as f:
            f.write({'batch_gcp_regions': '["us-central1"]', 'cloud': 'gcp', 'default_namespace': 'default',
                     'domain': 'hail.test'}.get(k, 'x'))
    env['HAIL_GLOBAL_CONFIG_DIR'] = gcdir
    for k, v in env.items():
        os.environ.setdefault(k, v)

    # synthetic version modules (generated files absent from the tree)
    _mod('hailtop.version', __version__='0.2.999-deadbeef', __pip_version__='0.2.999', __revision__='deadbeef')
    _mod('hail.version', __version__='0.2.999-deadbeef', __pip_version__='0.2.999', __revision__='deadbeef')

    for name in list(STUB_ALLOW):
        try:
            spec = importlib.machinery.PathFinder.find_spec(name)
        except Exception:
            spec = None
        if spec is not None:
            _REAL.add(name)
    sys.meta_path.append(_StubFinder())

    _install_shims()
    if real_mysql:
        try:
            from vlib.minimysql import driver as _drv  # noqa
            _drv.install()
        except Exception:   # engine E2 not built / not importable: checks that need it fail on their own
            pass


def _install_shims():
    import json

    # orjson: json-backed
    def _dumps(obj, default=None, option=None):
        return json.dumps(obj, default=default, separators=(',', ':')).encode()

    _mod('orjson', dumps=_dumps, loads=lambda b: json.loads(b), JSONDecodeError=json.JSONDecodeError,
         OPT_INDENT_2=1, OPT_SORT_KEYS=2)

    # decorator: signature-preserving wrapper
    import functools
    import inspect

    def decorator(caller, _func=None):
        def dec(func):
            if inspect.iscoroutinefunction(func) and inspect.iscoroutinefunction(caller):
                @functools.wraps(func)
                async def wrapper(*a, **k):
                    return await caller(func, *a, **k)
            else:
                @functools.wraps(func)
                def wrapper(*a, **k):
                    return caller(func, *a, **k)
            wrapper.__wrapped__ = func
            wrapper.__signature__ = inspect.signature(func)
            return wrapper
        if _func is not None:
            return dec(_func)
        return dec

    _mod('decorator', decorator=decorator)

    # deprecated
    def deprecated(*a, **k):
        if len(a) == 1 and callable(a[0]) and not k:
            return a[0]
        return lambda f: f

    _mod('deprecated', deprecated=deprecated)
    m = _mod('Deprecated', deprecated=deprecated)
    sys.modules['deprecated.sphinx'] = _mod('deprecated.sphinx', deprecated=deprecated, versionadded=deprecated,
                                            versionchanged=deprecated)

    # humanize
    _mod('humanize', naturaldelta=lambda x, **k: str(x), naturalsize=lambda x, **k: str(x),
         naturaltime=lambda x, **k: str(x), intcomma=lambda x: str(x))

    # prometheus_async.aio.time: awaits/wraps
    def _time(metric=None, future=None):
        if future is not None:
            return future

        def deco(f):
            return f
        return deco

    pa = StubModule('prometheus_async')
    pa.__path__ = []
    paa = StubModule('prometheus_async.aio')
    paa.__path__ = []
    paa.time = _time
    paw = StubModule('prometheus_async.aio.web')
    paw.__path__ = []
    pa.aio = paa
    paa.web = paw
    sys.modules['prometheus_async'] = pa
    sys.modules['prometheus_async.aio'] = paa
    sys.modules['prometheus_async.aio.web'] = paw

    # prometheus_client: inert metrics
    class _DecoOrCtx:
        def __call__(self, f):
            return f

        def __enter__(self):
            return self

        def __exit__(self, *a):
            return False

    class _Metric:
        def __init__(self, *a, **k):
            pass

        def labels(self, *a, **k):
            return self

        def inc(self, *a, **k):
            pass

        def dec(self, *a, **k):
            pass

        def set(self, *a, **k):
            pass

        def observe(self, *a, **k):
            pass

        def clear(self):
            pass

        def remove(self, *a):
            pass

        def time(self):
            return _DecoOrCtx()

        def track_inprogress(self):
            return _DecoOrCtx()

    pc = StubModule('prometheus_client')
    pc.__path__ = []
    for n in ('Counter', 'Gauge', 'Histogram', 'Summary', 'Enum', 'Info'):
        setattr(pc, n, _Metric)
    sys.modules['prometheus_client'] = pc

    # aiohttp_session: dict session
    import aiohttp.web as _web

    class Session(dict):
        def invalidate(self):
            self.clear()

        def changed(self):
            pass

    async def get_session(request):
        s = request.get('aiohttp_session')
        if s is None:
            s = Session()
            request['aiohttp_session'] = s
        return s

    async def new_session(request):
        s = Session()
        request['aiohttp_session'] = s
        return s

    def setup(app, storage):
        pass

    ahs = StubModule('aiohttp_session')
    ahs.__path__ = []
    ahs.Session = Session
    ahs.get_session = get_session
    ahs.new_session = new_session
    ahs.setup = setup
    ahs.session_middleware = lambda storage: None
    sys.modules['aiohttp_session'] = ahs
    cs = StubModule('aiohttp_session.cookie_storage')
    cs.EncryptedCookieStorage = _make_stub_class('EncryptedCookieStorage')
    sys.modules['aiohttp_session.cookie_storage'] = cs

    # dill: pickle-backed (enough for hailtop.batch's PythonJob plumbing as long as the serialized callables are
    # importable module-level functions or builtins; dill-only keywords such as recurse= are accepted and ignored)
    if 'dill' not in _REAL:
        import pickle

        _mod('dill',
             dump=lambda obj, file, *a, **k: pickle.dump(obj, file),
             dumps=lambda obj, *a, **k: pickle.dumps(obj),
             load=lambda file, *a, **k: pickle.load(file),
             loads=lambda data, *a, **k: pickle.loads(data),
             PicklingError=pickle.PicklingError, UnpicklingError=pickle.UnpicklingError,
             __verif_shim__='pickle')

    # regex -> re (the `regex` third-party module used by a few files)
    import re as _re
    sys.modules.setdefault('regex', _re) if 'regex' not in _REAL else None


GLOBAL_CONFIG = {
    'batch_gcp_regions': '["us-central1", "us-east1"]', 'batch_logs_storage_uri': 'gs://batch-logs', 'cloud': 'gcp',
    'default_namespace': 'default', 'docker_prefix': 'docker.test', 'docker_root_image': 'ubuntu:22.04',
    'domain': 'hail.test', 'gcp_project': 'proj', 'gcp_region': 'us-central1', 'gcp_zone': 'us-central1-a',
    'kubernetes_server_url': 'https://k8s.test', 'organization_domain': 'x.org', 'internal_ip': '10.0.0.1',
    'ip': '1.2.3.4', 'test_storage_uri': 'gs://test', 'query_storage_uri': 'gs://query',
    'azure_subscription_id': 'sub', 'azure_resource_group': 'rg', 'azure_location': 'eastus',
}


def prepare_services():
    """Seed gear.cloud_config.global_config (the real loader reads the hard-coded /global-config)."""
    install()
    import gear.cloud_config as cc
    if cc.global_config is None:
        cc.global_config = dict(GLOBAL_CONFIG)
    return cc
