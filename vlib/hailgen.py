"""Shared Hypothesis generators for the Hail query front end (C31-C36).

Everything generated is *data* first: a JSON-able **type descriptor** and a JSON-able **value descriptor**; the Hail
objects are built from them by `build_type` / `build_value`.  A saved case therefore replays without Hypothesis and
without going through the code under test.

    type descriptor  T ::= 'int32'|'int64'|'float32'|'float64'|'bool'|'str'|'call'
                         | ['locus', rg] | ['interval', T] | ['array', T] | ['set', T] | ['dict', K, V]
                         | ['tuple', [T...]] | ['struct', [[name, T]...]] | ['ndarray', T, ndim]
    value descriptor V ::= null (missing)
       int32/int64 : n | ['np', n]                       (python int | numpy scalar)
       float32/64  : s | ['np', s] | ['int', n]          (s = 'nan'|'inf'|'-inf'|float.hex(); python int given as float)
       bool: true/false     str: string     call: [[alleles...], phased]     locus: [contig, position]
       interval    : [start, end, includes_start, includes_end]
       array       : [flavour, [V...]]   flavour in list|tuple|frozenlist
       set         : [flavour, [V...]]   flavour in set|frozenset
       dict        : [flavour, [[K, V]...]]  flavour in dict|frozendict
       tuple       : [V...]
       struct      : [flavour, [V...]]   flavour in Struct|dict|frozendict  (positional by field)
       ndarray     : {'shape': [...], 'order': 'C'|'F'|'S', 'data': [V...]}   (data flat in C order; S = strided view)

Public strategies: `type_descs(...)`, `types(...)`, `value_descs(tdesc)`, `values(t)`, `cases(...)`.
Equality: `values_equal(t, a, b)` / `canon(t, v)`.

Decisions (documented because the oracle depends on them)
  * NaN ≡ NaN (payload bits are not compared).  −0.0 and 0.0 are **distinguished** for float32/float64: both wire forms
    carry the sign bit (JSON prints '-0.0'; the binary form is the raw IEEE bits), so losing it is a defect.
  * A python int given where a float is expected compares by its float value (the front end accepts ints as floats);
    only exactly representable ints are generated.  float32 values are always float32-representable.
  * set/dict are unordered; set elements / dict keys that are "equal up to NaN identity" are de-duplicated at build time.
  * In hashable positions (set elements, dict keys, transitively) containers are the frozen forms the front end itself
    returns (frozenlist / frozenset / hailtop frozendict / tuple / hl.Struct with frozen contents); ndarray is not
    hashable in Python, so set<ndarray>/dict<ndarray,...> are not generated.
  * Strings (values, field names, contigs, reference-genome names) never contain lone surrogates: a Hail str is UTF-8.
  * Struct values are full mappings (hl.Struct, dict or frozendict).  A struct type with a field called 'self' has no
    hl.Struct value (hl.Struct(**{'self': ...}) is a TypeError), so dict/frozendict is used for it.
  * Well-typedness is asserted with the same traversal `hl.literal` uses (`typechecks`): `_traverse` +
    `_typecheck_one_level`, not descending into missing values.  (The public `HailType.typecheck` cannot be used: it
    raises on a missing array/struct/tuple/interval nested anywhere, e.g. tarray(tint32).typecheck(None).)
"""
from __future__ import annotations

import math
import struct as _struct

import warnings

from hypothesis import strategies as st
from hypothesis.errors import HypothesisWarning

warnings.filterwarnings('ignore', message='Generating overly large repr', category=HypothesisWarning)

from . import hailenv

# ---------------------------------------------------------------------------------------------------------------
# alphabets
# ---------------------------------------------------------------------------------------------------------------

NAME_POOL = [
    'a', 'b', 'x1', '_u', 'GT', 'AD', 'info', 'Z9_', 'self', 'items', 'keys', 'get', '_fields', 'key', 'value',
    'start', 'end', 'contig', 'position', 'struct', 'int32', 'Int32', 'Struct',
    '1kg', '0', '9a', 'field with spaces', ' lead', 'trail ', ' ', 'b`t', '`', '``', '`a`', 'back\\slash', '\\', '\\`',
    '\\\\', 'quo"te', '"', "ap'os", "'", 'new\nline', '\n', 'tab\t', '\r', 'nul\x00', '\x00', '\x01', '\x1f', '\x7f',
    '\x80', '\x9f', '\xa0', '\xad', 'é', 'caf\xe9', 'ÿ', '名', '名前', '😀', 'a😀b', '\U0010ffff', '²', 'a²', 'x³', '½', '٣', 'a٣',
    '', '\\n', '\\t', '\\u0041', '\\x41', '\\U0001F600', 'a.b', 'a-b', 'a:b', 'a,b', 'a b', '{', '}', '<', '>', '[',
    ']', '(', ')', ':', ',', '$', '#', '?', '/', '|', 'α', 'İ', 'ß', 'ǅ', ' ', ' ', 'ﬁ', '퟿',
    '﻿', '￿', 'é', '‍', 'กำ', 'ª', 'ⅷ', '〇', '_', '__', '_1', 'ａ', '１',
]
NAME_CHARS = list('abzAZ_019 `\\"\'\n\t\x00\x7f{}:,.<>-') + ['é', 'ÿ', '\xa0', '名', '😀', '²', '٣', 'α', ' ', '﻿']

STR_POOL = ['', 'a', 'hello', ' ', '\x00', 'a\x00b', '\n', '"', '\\', '`', "'", 'é', '名前', '😀', 'a😀b\U0010ffff', 'nan',
            'None', 'null', '-', '|-', '{"a":1}', '퟿', ' ', 'x' * 300, '\x7f\x80\xff', 'ℵ₀', '²']

BUILTIN_RGS = ['GRCh37', 'GRCh38', 'GRCm38', 'CanFam3']
SYNTH_CONTIGS = [['c1', 1], ['chr 2', 1000], ['X', 2 ** 31 - 1], ['', 7], ['名😀`\\', 12]]
_PREFIX = 'vrf:'      # synthetic reference genome names are prefix + a name from the alphabet ('' allowed after it)


def rg_names_strategy(stress=True):
    syn = st.sampled_from(['rg1', 'my ref', 'r`g', 'r\\g', 'ré', '名', '😀', 'r²', '1rg', '', 'r\ng', 'r"g', "r'g", 'a.b'])
    if not stress:
        return st.sampled_from(BUILTIN_RGS)
    return st.one_of(st.sampled_from(BUILTIN_RGS), syn.map(lambda s: _PREFIX + s), syn.map(lambda s: s or 'rg0'))


def names_strategy():
    return st.one_of(st.sampled_from(NAME_POOL), st.sampled_from(NAME_POOL),
                     st.text(alphabet=st.sampled_from(NAME_CHARS), min_size=0, max_size=5),
                     st.text(alphabet=st.characters(exclude_categories=['Cs']), min_size=1, max_size=3))


PRIMS = ['int32', 'int64', 'float32', 'float64', 'bool', 'str', 'call']
ND_ELTS = ['int32', 'int64', 'float32', 'float64', 'float64', 'bool']


# ---------------------------------------------------------------------------------------------------------------
# type descriptors
# ---------------------------------------------------------------------------------------------------------------

_NAMES = None
_RGS = None
_KIND = st.sampled_from(['array'] * 16 + ['set'] * 12 + ['dict'] * 14 + ['interval'] * 10 + ['tuple'] * 16 + ['struct'] * 32)
_PRIM = st.sampled_from(PRIMS)
_NDELT = st.sampled_from(ND_ELTS)
_PCT = st.integers(0, 99)
_INTS = {}


def _int(draw, lo, hi):
    s = _INTS.get((lo, hi))
    if s is None:
        s = _INTS[(lo, hi)] = st.integers(lo, hi)
    return draw(s)


def _gen_fields(draw, n, names, gen_child):
    seen = set()
    out = []
    for _ in range(n):
        nm = draw(names)
        if nm in seen:          # duplicate field names are not a legal struct: skip (counted nowhere, not filtered)
            continue
        seen.add(nm)
        out.append([nm, gen_child()])
    return out


def _gen_type(draw, budget, depth, hashable, names, rgs, ndarrays, max_fields, max_depth):
    r = draw(_PCT)
    if budget <= 1 or depth >= max_depth or r < (25 if depth == 0 else 40):
        r = draw(_PCT)
        if r < 66:
            return draw(_PRIM)
        if r < 84:
            return ['locus', draw(rgs)]
        if r < 94 and ndarrays and not hashable:
            return ['ndarray', draw(_NDELT), _int(draw, 0, 3)]
        if r < 97:     # wide struct / tuple: 9-18 primitive fields -> second missing-bits byte
            return ['struct', _gen_fields(draw, _int(draw, 9, 18), names, lambda: draw(_PRIM))]
        if r < 99:
            return ['tuple', [draw(_PRIM) for _ in range(_int(draw, 9, 18))]]
        return draw(_PRIM)
    k = draw(_KIND)
    rec = lambda b, h=hashable: _gen_type(draw, b, depth + 1, h, names, rgs, ndarrays, max_fields, max_depth)  # noqa: E731
    if k == 'array':
        return ['array', rec(budget)]
    if k == 'interval':
        return ['interval', rec(budget)]
    if k == 'set':
        return ['set', rec(budget, True)]
    if k == 'dict':
        kb = max(1, budget // 3)
        return ['dict', rec(kb, True), rec(max(1, budget - kb))]
    n = _int(draw, 0, min(max_fields, max(1, budget)))
    per = max(1, budget // max(1, n))
    if k == 'tuple':
        return ['tuple', [rec(per) for _ in range(n)]]
    return ['struct', _gen_fields(draw, n, names, lambda: rec(per))]


@st.composite
def type_descs(draw, max_leaves=6, *, names=None, rgs=None, ndarrays=True, max_fields=5, hashable_only=False,
               max_depth=5):
    """Strategy of type descriptors with roughly at most max_leaves leaves (wide structs/tuples excepted)."""
    global _NAMES, _RGS
    if names is None:
        if _NAMES is None:
            _NAMES = names_strategy()
        names = _NAMES
    if rgs is None:
        if _RGS is None:
            _RGS = rg_names_strategy()
        rgs = _RGS
    return _gen_type(draw, max_leaves, 0, hashable_only, names, rgs, ndarrays, max_fields, max_depth)


def kind(td):
    return td if isinstance(td, str) else td[0]


def build_type(td):
    hl = hailenv.init()
    k = kind(td)
    if k in PRIMS:
        return getattr(hl, 't' + k)
    if k == 'locus':
        return hl.tlocus(reference(td[1]))
    if k == 'interval':
        return hl.tinterval(build_type(td[1]))
    if k == 'array':
        return hl.tarray(build_type(td[1]))
    if k == 'set':
        return hl.tset(build_type(td[1]))
    if k == 'dict':
        return hl.tdict(build_type(td[1]), build_type(td[2]))
    if k == 'tuple':
        return hl.ttuple(*[build_type(x) for x in td[1]])
    if k == 'struct':
        return hl.tstruct(**{n: build_type(x) for n, x in td[1]})
    if k == 'ndarray':
        return hl.tndarray(build_type(td[1]), td[2])
    raise ValueError(f'bad type descriptor {td!r}')


def reference(name):
    hl = hailenv.init()
    if name in BUILTIN_RGS:
        return hl.get_reference(name)
    return hailenv.ensure_reference(name, [tuple(c) for c in SYNTH_CONTIGS])


def desc_of_type(t):
    """Inverse of build_type for the supported fragment."""
    hl = hailenv.init()
    for k in PRIMS:
        if t == getattr(hl, 't' + k):
            return k
    if isinstance(t, hl.tlocus):
        return ['locus', t.reference_genome.name]
    if isinstance(t, hl.tinterval):
        return ['interval', desc_of_type(t.point_type)]
    if isinstance(t, hl.tarray):
        return ['array', desc_of_type(t.element_type)]
    if isinstance(t, hl.tset):
        return ['set', desc_of_type(t.element_type)]
    if isinstance(t, hl.tdict):
        return ['dict', desc_of_type(t.key_type), desc_of_type(t.value_type)]
    if isinstance(t, hl.ttuple):
        return ['tuple', [desc_of_type(x) for x in t.types]]
    if isinstance(t, hl.tstruct):
        return ['struct', [[n, desc_of_type(x)] for n, x in t.items()]]
    if isinstance(t, hl.tndarray):
        return ['ndarray', desc_of_type(t.element_type), t.ndim]
    raise ValueError(f'unsupported type {t}')


def types(max_leaves=6, **kw):
    """Strategy of hl.HailType objects."""
    return type_descs(max_leaves, **kw).map(build_type)


def type_names(td):
    """All identifiers the printed type contains, in print order: field names and reference-genome names."""
    k = kind(td)
    if k in PRIMS:
        return []
    if k == 'locus':
        return [td[1]]
    if k in ('interval', 'array', 'set', 'ndarray'):
        return type_names(td[1])
    if k == 'dict':
        return type_names(td[1]) + type_names(td[2])
    if k == 'tuple':
        return [n for x in td[1] for n in type_names(x)]
    if k == 'struct':
        out = []
        for n, x in td[1]:
            out.append(n)
            out.extend(type_names(x))
        return out
    raise ValueError(td)


def type_stats(td, acc=None, depth=0):
    acc = {} if acc is None else acc
    k = kind(td)
    acc[k] = acc.get(k, 0) + 1
    acc['_depth'] = max(acc.get('_depth', 0), depth)
    subs = []
    if k in ('interval', 'array', 'set', 'ndarray'):
        subs = [td[1]]
    elif k == 'dict':
        subs = [td[1], td[2]]
    elif k == 'tuple':
        subs = td[1]
    elif k == 'struct':
        subs = [x for _, x in td[1]]
    for s in subs:
        type_stats(s, acc, depth + 1)
    return acc


# ---------------------------------------------------------------------------------------------------------------
# value descriptors
# ---------------------------------------------------------------------------------------------------------------

I32 = [0, 1, -1, 2 ** 31 - 1, -2 ** 31, 2 ** 31 - 2, 255, 256, -129, 65536, 0x7FFFFFFE]
I64 = I32 + [2 ** 63 - 1, -2 ** 63, 2 ** 31, -2 ** 31 - 1, 2 ** 53, 2 ** 53 + 1, -2 ** 53 - 1, 2 ** 62, 10 ** 18]
F64 = ['nan', 'inf', '-inf', (0.0).hex(), (-0.0).hex(), (5e-324).hex(), (-5e-324).hex(), (1.7976931348623157e308).hex(),
       (-1.7976931348623157e308).hex(), (0.1).hex(), (1 / 3).hex(), (2.0 ** 53 + 2).hex(), (1e-7).hex(), (1e16).hex(),
       (1e22).hex(), (1e23).hex(), (123456.789).hex(), (2.2250738585072014e-308).hex()]
F32 = ['nan', 'inf', '-inf', (0.0).hex(), (-0.0).hex(), (2.0 ** -149).hex(), (-2.0 ** -149).hex(),
       (3.4028234663852886e38).hex(), (-3.4028234663852886e38).hex(), (1.0000001192092896).hex(), (0.10000000149011612).hex(),
       (16777216.0).hex(), (2.0 ** -126).hex(), (0.5).hex()]


def _fhex(x):
    if x != x:
        return 'nan'
    if x in (math.inf, -math.inf):
        return 'inf' if x > 0 else '-inf'
    return float(x).hex()


def _unhex(s):
    if s == 'nan':
        return math.nan
    if s == 'inf':
        return math.inf
    if s == '-inf':
        return -math.inf
    return float.fromhex(s)



# All primitive strategies are built ONCE (building strategies per case is what makes Hypothesis slow); the recursion
# over the type descriptor is plain Python inside one @composite.

def _int_base(width):
    lo, hi = (-(2 ** 31), 2 ** 31 - 1) if width == 32 else (-(2 ** 63), 2 ** 63 - 1)
    return st.one_of(st.sampled_from(I32 if width == 32 else I64), st.integers(lo, hi), st.integers(-100, 100))


def _float_base(width):
    pool = F32 if width == 32 else F64
    return st.one_of(st.sampled_from(pool), st.sampled_from(pool[:5]),
                     st.floats(width=width, allow_nan=True, allow_infinity=True).map(_fhex),
                     st.floats(width=width, min_value=-1000, max_value=1000).map(_fhex))


_S = {
    'int32': _int_base(32), 'int64': _int_base(64), 'float32': _float_base(32), 'float64': _float_base(64),
    'bool': st.booleans(),
    'str': st.one_of(st.sampled_from(STR_POOL), st.text(alphabet=st.characters(exclude_categories=['Cs']), max_size=8),
                     st.text(alphabet=st.sampled_from(NAME_CHARS), max_size=6)),
    'allele': st.one_of(st.integers(0, 8), st.integers(0, 8), st.integers(0, 1000)),
    'pct': st.integers(0, 99),
    'small_int_as_float': st.integers(-2 ** 20, 2 ** 20),
    'dim': st.one_of(st.integers(0, 3), st.integers(1, 3), st.integers(1, 4)),
    'order': st.sampled_from(['C', 'C', 'F', 'F', 'S']),
    'array_fl': st.sampled_from(['list', 'list', 'list', 'tuple', 'frozenlist']),
    'set_fl': st.sampled_from(['set', 'set', 'frozenset']),
    'dict_fl': st.sampled_from(['dict', 'dict', 'frozendict']),
    'struct_fl': st.sampled_from(['Struct', 'Struct', 'Struct', 'Struct', 'dict', 'frozendict']),
    'struct_fl_frozen': st.sampled_from(['Struct', 'Struct', 'Struct', 'frozendict']),
    'struct_fl_self': st.sampled_from(['dict', 'frozendict']),
    'ploidy': st.integers(0, 2),
    'unit': st.floats(0, 1, allow_nan=False, exclude_max=True),
}
_SIZES = {}


def _size(draw, lo, hi):
    key = (lo, hi)
    s = _SIZES.get(key)
    if s is None:
        s = _SIZES[key] = st.integers(lo, hi)
    return draw(s)


def _contigs_of(rg_name):
    if rg_name in BUILTIN_RGS:
        rg = reference(rg_name)
        cs = rg.contigs
        pick = [cs[0], cs[1], cs[-1], cs[len(cs) // 2]] + [c for c in cs if c in ('X', 'Y', 'MT', 'chrX', 'chrM')]
        return [[c, rg.lengths[c]] for c in pick]
    return SYNTH_CONTIGS


def _dedupe(td_elt, descs, key=lambda d: d):
    """Drop descriptors whose *built* values are Hail-equal (NaN ≡ NaN) — a Hail set cannot hold both."""
    seen = set()
    out = []
    t = build_type(td_elt)
    for d in descs:
        ck = canon(t, build_value(td_elt, key(d), frozen=True))
        if ck not in seen:
            seen.add(ck)
            out.append(d)
    return out


def _gen(draw, td, p, max_size, nps, frozen, allow_missing=True):
    """Draw one value descriptor for `td`.  p = per-position probability (in %) of a missing value."""
    if allow_missing and p > 0 and draw(_S['pct']) < p:
        return None
    k = kind(td)
    if k in ('int32', 'int64'):
        n = draw(_S[k])
        return ['np', n] if nps and draw(_S['pct']) < 8 else n
    if k in ('float32', 'float64'):
        r = draw(_S['pct'])
        if r < 7:
            return ['int', draw(_S['small_int_as_float'])]
        x = draw(_S[k])
        return ['np', x] if nps and r < 14 else x
    if k == 'bool':
        return draw(_S['bool'])
    if k == 'str':
        return draw(_S['str'])
    if k == 'call':
        return [[draw(_S['allele']) for _ in range(draw(_S['ploidy']))], draw(_S['bool'])]
    if k == 'locus':
        cs = _contigs_of(td[1])
        c, n = cs[_size(draw, 0, len(cs) - 1)]
        m = _size(draw, 0, 3)
        return [c, 1 if m == 0 else n if m == 1 else max(1, n - 1) if m == 2 else _size(draw, 1, n)]
    if k == 'interval':
        return [_gen(draw, td[1], p, max_size, nps, frozen), _gen(draw, td[1], p, max_size, nps, frozen),
                draw(_S['bool']), draw(_S['bool'])]
    if k == 'array':
        fl = 'frozenlist' if frozen else draw(_S['array_fl'])
        if td[1] in PRIMS and draw(_S['pct']) < 30:
            n = _size(draw, 7, 20)          # more than one missing-bits byte
        else:
            n = _size(draw, 0, max_size)
        return [fl, [_gen(draw, td[1], p, max_size, nps, frozen) for _ in range(n)]]
    if k == 'set':
        fl = 'frozenset' if frozen else draw(_S['set_fl'])
        n = _size(draw, 0, max_size)
        return [fl, _dedupe(td[1], [_gen(draw, td[1], p, max_size, nps, True) for _ in range(n)])]
    if k == 'dict':
        fl = 'frozendict' if frozen else draw(_S['dict_fl'])
        n = _size(draw, 0, max_size)
        pairs = [[_gen(draw, td[1], p // 3, max_size, nps, True), _gen(draw, td[2], p, max_size, nps, frozen)]
                 for _ in range(n)]
        return [fl, _dedupe(td[1], pairs, key=lambda kv: kv[0])]
    if k == 'tuple':
        return [_gen(draw, x, p, max_size, nps, frozen) for x in td[1]]
    if k == 'struct':
        if any(n == 'self' for n, _ in td[1]):
            fl = 'frozendict' if frozen else draw(_S['struct_fl_self'])
        else:
            fl = draw(_S['struct_fl_frozen' if frozen else 'struct_fl'])
        return [fl, [_gen(draw, x, p, max_size, nps, frozen) for _, x in td[1]]]
    if k == 'ndarray':
        shape = [draw(_S['dim']) for _ in range(td[2])]
        n = 1
        for d in shape:
            n *= d
        return {'shape': shape, 'order': draw(_S['order']),
                'data': [_gen(draw, td[1], 0, max_size, False, False, False) for _ in range(n)]}
    raise ValueError(td)


@st.composite
def value_descs(draw, td, *, missing=15, max_size=4, np_scalars=True, allow_top_missing=True, frozen=False):
    """Strategy of value descriptors for type descriptor `td` (missing = % of nullable positions left missing)."""
    return _gen(draw, td, missing, max_size, np_scalars, frozen, allow_missing=allow_top_missing)



def build_value(td, vd, frozen=False):
    """Value descriptor -> Python value the front end accepts for build_type(td)."""
    if vd is None:
        return None
    hl = hailenv.init()
    import numpy as np
    from hailtop.frozendict import frozendict
    from hailtop.hail_frozenlist import frozenlist
    k = kind(td)
    if k in ('int32', 'int64'):
        if isinstance(vd, list):
            return (np.int32 if k == 'int32' else np.int64)(vd[1])
        return int(vd)
    if k in ('float32', 'float64'):
        if isinstance(vd, list):
            if vd[0] == 'int':
                return int(vd[1])
            return (np.float32 if k == 'float32' else np.float64)(_unhex(vd[1]))
        return _unhex(vd)
    if k == 'bool':
        return bool(vd)
    if k == 'str':
        return vd
    if k == 'call':
        return hl.Call(list(vd[0]), phased=bool(vd[1]))
    if k == 'locus':
        return hl.Locus(vd[0], vd[1], reference_genome=reference(td[1]))
    if k == 'interval':
        return hl.Interval(build_value(td[1], vd[0], frozen), build_value(td[1], vd[1], frozen), bool(vd[2]), bool(vd[3]),
                           point_type=build_type(td[1]))
    if k == 'array':
        xs = [build_value(td[1], x, frozen) for x in vd[1]]
        fl = 'frozenlist' if frozen else vd[0]
        return frozenlist(xs) if fl == 'frozenlist' else tuple(xs) if fl == 'tuple' else xs
    if k == 'set':
        xs = _py_distinct(td[1], [(build_value(td[1], x, True), None) for x in vd[1]])
        xs = [a for a, _ in xs]
        return frozenset(xs) if (frozen or vd[0] == 'frozenset') else set(xs)
    if k == 'dict':
        d = dict(_py_distinct(td[1], [(build_value(td[1], kk, True), build_value(td[2], vv, frozen)) for kk, vv in vd[1]]))
        return frozendict(d) if (frozen or vd[0] == 'frozendict') else d
    if k == 'tuple':
        return tuple(build_value(x, v, frozen) for x, v in zip(td[1], vd))
    if k == 'struct':
        d = {n: build_value(x, v, frozen) for (n, x), v in zip(td[1], vd[1])}
        fl = vd[0]
        if fl == 'Struct' and 'self' in d:
            fl = 'dict'
        if frozen and fl == 'dict':
            fl = 'frozendict'
        return hl.Struct(**d) if fl == 'Struct' else frozendict(d) if fl == 'frozendict' else d
    if k == 'ndarray':
        npt = {'int32': np.int32, 'int64': np.int64, 'float32': np.float32, 'float64': np.float64, 'bool': np.bool_}[td[1]]
        flat = [build_value(td[1], x) for x in vd['data']]
        shape = tuple(vd['shape'])
        a = np.array(flat, dtype=npt).reshape(shape)
        if vd['order'] == 'F':
            a = a.copy(order='F')        # (np.asfortranarray would promote a 0-d array to 1-d)
        elif vd['order'] == 'S' and len(shape) >= 1:
            big = np.zeros(tuple(2 * d for d in shape), dtype=npt)
            view = big[tuple(slice(None, None, 2) for _ in shape)]
            view[...] = a
            a = view
        return a
    raise ValueError(td)


def values(t, **kw):
    """Strategy of well-typed Python values for the hl.HailType `t`."""
    td = desc_of_type(t)
    return value_descs(td, **kw).map(lambda vd: build_value(td, vd))


_TYPE_STRATS = {}


@st.composite
def cases(draw, max_leaves=6, *, allow_top_missing=True, missing=15, np_scalars=True, **tkw):
    """Strategy of JSON-able cases {'t': type descriptor, 'v': value descriptor}."""
    key = (max_leaves, tuple(sorted((k, repr(v)) for k, v in tkw.items())))
    ts = _TYPE_STRATS.get(key)
    if ts is None:
        ts = _TYPE_STRATS[key] = type_descs(max_leaves, **tkw)
    td = draw(ts)
    return {'t': td, 'v': _gen(draw, td, missing, 4, np_scalars, False, allow_missing=allow_top_missing)}


# ---------------------------------------------------------------------------------------------------------------
# statistics / non-triviality on descriptors
# ---------------------------------------------------------------------------------------------------------------

def value_stats(td, vd, acc=None, nested=0):
    """Counters over a (type, value) descriptor pair: missing, float specials, nested containers, flavours ..."""
    acc = {} if acc is None else acc

    def inc(key, n=1):
        acc[key] = acc.get(key, 0) + n
    k = kind(td)
    if vd is None:
        inc('missing')
        inc(f'missing_{k}')
        return acc
    if k in ('int32', 'int64'):
        n = vd[1] if isinstance(vd, list) else vd
        if isinstance(vd, list):
            inc('np_scalar')
        if n in (2 ** 31 - 1, -2 ** 31, 2 ** 63 - 1, -2 ** 63):
            inc('int_extreme')
    elif k in ('float32', 'float64'):
        s = vd[1] if isinstance(vd, list) else vd
        if isinstance(vd, list):
            inc('np_scalar' if vd[0] == 'np' else 'int_as_float')
        if s in ('nan', 'inf', '-inf'):
            inc('float_special')
            inc('nan' if s == 'nan' else 'inf')
        elif isinstance(s, str) and s.startswith('-0x0.0p'):
            inc('float_special')
            inc('neg_zero')
    elif k == 'call':
        inc(f'call_ploidy{len(vd[0])}_{"phased" if vd[1] else "unphased"}')
    elif k == 'locus':
        inc('locus')
        if vd[1] == 1:
            inc('locus_pos_1')
        elif any(c == vd[0] and n == vd[1] for c, n in _contigs_of(td[1])):
            inc('locus_contig_end')
    elif k == 'interval':
        inc(f'interval_{"[" if vd[2] else "("}{"]" if vd[3] else ")"}')
        value_stats(td[1], vd[0], acc, nested + 1)
        value_stats(td[1], vd[1], acc, nested + 1)
    elif k in ('array', 'set'):
        inc(f'{k}_{vd[0]}')
        if not vd[1]:
            inc('empty_collection')
        if nested:
            inc('nested_container')
        for x in vd[1]:
            value_stats(td[1], x, acc, nested + 1)
    elif k == 'dict':
        inc(f'dict_{vd[0]}')
        if not vd[1]:
            inc('empty_collection')
        if nested:
            inc('nested_container')
        for kk, vv in vd[1]:
            if kk is None:
                inc('dict_missing_key')
            if vv is None:
                inc('dict_missing_value')
            value_stats(td[1], kk, acc, nested + 1)
            value_stats(td[2], vv, acc, nested + 1)
    elif k == 'tuple':
        if nested:
            inc('nested_container')
        for x, v in zip(td[1], vd):
            value_stats(x, v, acc, nested + 1)
    elif k == 'struct':
        inc(f'struct_{vd[0]}')
        if nested:
            inc('nested_container')
        for (_, x), v in zip(td[1], vd[1]):
            value_stats(x, v, acc, nested + 1)
    elif k == 'ndarray':
        inc(f'ndarray_{vd["order"]}')
        inc(f'ndarray_ndim{len(vd["shape"])}')
        if 0 in vd['shape']:
            inc('ndarray_zero_axis')
        if nested:
            inc('nested_container')
        for x in vd['data']:
            value_stats(td[1], x, acc, nested + 1)
    return acc


def classes_of(stats):
    """Presence classes (for Result.case) from a value_stats dict."""
    return sorted(k for k, v in stats.items() if v)


# ---------------------------------------------------------------------------------------------------------------
# failure localisation on descriptors (structure-aware delta debugging; gives stable, specific signatures)
# ---------------------------------------------------------------------------------------------------------------

def children(td, vd):
    """[(role, child type descriptor, child value descriptor)] of a non-missing value descriptor."""
    k = kind(td)
    if vd is None:
        return []
    if k == 'interval':
        return [('start', td[1], vd[0]), ('end', td[1], vd[1])]
    if k in ('array', 'set'):
        return [('element', td[1], x) for x in vd[1]]
    if k == 'dict':
        return [c for kk, vv in vd[1] for c in (('key', td[1], kk), ('value', td[2], vv))]
    if k == 'tuple':
        return [('element', x, v) for x, v in zip(td[1], vd)]
    if k == 'struct':
        return [('field', x, v) for (_, x), v in zip(td[1], vd[1])]
    return []


def localize(td, vd, fails, path=()):
    """Smallest sub-value (as a top-level value) on which `fails(td, vd)` is still truthy.

    Returns (path, td, vd, failure).  Children are tried as stand-alone top-level values, so a failure that needs
    its context (e.g. "missing value inside a dict") stops at the container that provides the context."""
    f = fails(td, vd)
    if not f:
        return None
    for role, ctd, cvd in children(td, vd):
        if cvd is None:
            continue
        sub = localize(ctd, cvd, fails, path + (f'{kind(td)}.{role}',))
        if sub is not None:
            return sub
    return path, td, vd, f


def shrink_locus(td, vd, fails):
    """Greedy structural shrink of a localized failing value: drop collection members / pairs while it still fails."""
    k = kind(td)
    changed = True
    while changed:
        changed = False
        if k in ('array', 'set', 'dict') and vd is not None:
            for i in range(len(vd[1])):
                cand = [vd[0], vd[1][:i] + vd[1][i + 1:]]
                if fails(td, cand):
                    vd = cand
                    changed = True
                    break
    return vd


def qualifiers(td, vd, fails):
    """Root-cause qualifiers at a failure locus: which *kind of content* is necessary for the failure."""
    k = kind(td)
    out = []
    if vd is None:
        return ['top-level-missing']
    if k == 'dict':
        pairs = vd[1]
        if any(vv is None for _, vv in pairs) and not fails(td, [vd[0], [p for p in pairs if p[1] is not None]]):
            out.append('missing-value')
        if any(kk is None for kk, _ in pairs) and not fails(td, [vd[0], [p for p in pairs if p[0] is not None]]):
            out.append('missing-key')
    elif k == 'struct':
        if any(n == 'self' for n, _ in td[1]):
            out.append('field-named-self')
    elif k in ('array', 'set'):
        if any(x is None for x in vd[1]) and not fails(td, [vd[0], [x for x in vd[1] if x is not None]]):
            out.append('missing-element')
    elif k == 'ndarray':
        out.append(f'order-{vd["order"]}' if not fails(td, dict(vd, order='C')) else 'any-order')
        if 0 in vd['shape']:
            out.append('zero-axis')
    elif k in ('int32', 'int64', 'float32', 'float64') and isinstance(vd, list):
        plain = vd[1] if vd[0] == 'np' else float(vd[1]).hex()
        if not fails(td, plain):          # the flavour (not the number) is necessary for the failure
            out.append('numpy-scalar' if vd[0] == 'np' else 'python-int-as-float')
    return out


# ---------------------------------------------------------------------------------------------------------------
# equality, type checking
# ---------------------------------------------------------------------------------------------------------------

def _py_distinct(td, pairs):
    """Python sets / dict keys cannot hold both -0.0 and 0.0 (they compare equal), also not when they sit inside struct/tuple
    keys that merely have different Python container types before decoding: keep one element per value-with-zero-sign-folded."""
    t = build_type(td)
    seen = set()
    out = []
    for a, b in pairs:
        key = repr(canon(t, a)).replace('-0x0.0p+0', '0x0.0p+0')
        if key in seen:
            continue
        seen.add(key)
        out.append((a, b))
    return out


def canon(t, v):
    """Canonical hashable form of Hail value v of type t (NaN ≡ NaN, -0.0 ≠ 0.0, sets/dicts unordered)."""
    hl = hailenv.init()
    import numpy as np
    if v is None:
        return ('NA',)
    if t == hl.tint32 or t == hl.tint64:
        if isinstance(v, bool) or not isinstance(v, (int, np.integer)):
            return ('BAD-int', type(v).__name__, repr(v))
        return ('i', int(v))
    if t == hl.tfloat32 or t == hl.tfloat64:
        if isinstance(v, bool) or not isinstance(v, (int, float, np.floating, np.integer)):
            return ('BAD-float', type(v).__name__, repr(v))
        f = float(v)
        return ('f', 'nan') if f != f else ('f', f.hex())
    if t == hl.tbool:
        if not isinstance(v, (bool, np.bool_)):
            return ('BAD-bool', type(v).__name__, repr(v))
        return ('b', bool(v))
    if t == hl.tstr:
        if not isinstance(v, str):
            return ('BAD-str', type(v).__name__, repr(v))
        return ('s', v)
    if t == hl.tcall:
        if not isinstance(v, hl.Call):
            return ('BAD-call', type(v).__name__, repr(v))
        return ('c', tuple(int(a) for a in v.alleles), bool(v.phased))
    if isinstance(t, hl.tlocus):
        if not isinstance(v, hl.Locus):
            return ('BAD-locus', type(v).__name__, repr(v))
        return ('l', v.contig, int(v.position), v.reference_genome.name)
    if isinstance(t, hl.tinterval):
        if not isinstance(v, hl.Interval):
            return ('BAD-interval', type(v).__name__, repr(v))
        return ('iv', canon(t.point_type, v.start), canon(t.point_type, v.end), bool(v.includes_start), bool(v.includes_end))
    if isinstance(t, hl.tndarray):
        if not isinstance(v, np.ndarray) or v.ndim != t.ndim:
            return ('BAD-ndarray', type(v).__name__, repr(v))
        return ('nd', tuple(int(d) for d in v.shape), str(v.dtype),
                tuple(canon(t.element_type, x.item()) for x in np.nditer(v, flags=['zerosize_ok'], order='C')))
    if isinstance(t, hl.tarray):
        if isinstance(v, (str, bytes)) or not hasattr(v, '__len__') or isinstance(v, (set, frozenset, dict)):
            return ('BAD-array', type(v).__name__, repr(v))
        return ('a', tuple(canon(t.element_type, x) for x in v))
    if isinstance(t, hl.tset):
        if not isinstance(v, (set, frozenset)):
            return ('BAD-set', type(v).__name__, repr(v))
        return ('S', len(v), frozenset(canon(t.element_type, x) for x in v))
    if isinstance(t, hl.tdict):
        if not hasattr(v, 'items'):
            return ('BAD-dict', type(v).__name__, repr(v))
        return ('D', len(v), frozenset((canon(t.key_type, a), canon(t.value_type, b)) for a, b in v.items()))
    if isinstance(t, hl.ttuple):
        if not isinstance(v, tuple) or len(v) != len(t.types):
            return ('BAD-tuple', type(v).__name__, repr(v))
        return ('t', tuple(canon(x, y) for x, y in zip(t.types, v)))
    if isinstance(t, hl.tstruct):
        if not hasattr(v, 'keys') or set(v.keys()) != set(t.fields):
            return ('BAD-struct', type(v).__name__, repr(v))
        return ('st', tuple((n, canon(ft, v[n])) for n, ft in t.items()))
    raise ValueError(f'canon: unsupported type {t}')


def values_equal(t, a, b):
    return canon(t, a) == canon(t, b)


def typechecks(t, v):
    """The front end's own notion of "v has type t" (the traversal hl.literal performs). Raises TypeError if not."""
    def check(tt, x):
        if x is None:
            return False
        tt._typecheck_one_level(x)
        return True
    t._traverse(v, check)
    return True


def float32_representable(x):
    if x != x or x in (math.inf, -math.inf):
        return True
    try:
        return _struct.unpack('=f', _struct.pack('=f', x))[0] == x
    except OverflowError:
        return False


# ---------------------------------------------------------------------------------------------------------------
# self-test: every generated value typechecks (asserted, not filtered); counters show the classes are reached
# ---------------------------------------------------------------------------------------------------------------

def selftest(n=1500, seed=1, verbose=False):
    from hypothesis import HealthCheck, Phase, given, seed as hseed, settings
    hl = hailenv.init()
    counters = {}
    tcount = {}
    state = {'n': 0}

    @hseed(seed)
    @settings(max_examples=n, database=None, deadline=None, phases=[Phase.generate],
              suppress_health_check=list(HealthCheck))
    @given(cases(8))
    def run(case):
        td, vd = case['t'], case['v']
        t = build_type(td)
        assert desc_of_type(t) == td, (td, desc_of_type(t))
        v = build_value(td, vd)
        typechecks(t, v)                       # raises TypeError if the generator produced an ill-typed value
        assert values_equal(t, v, build_value(td, vd))
        assert canon(t, v)[0][:3] != 'BAD'
        if kind(td) == 'set' and v is not None:
            hash(build_value(td, vd, frozen=True))
        state['n'] += 1
        for k, c in value_stats(td, vd).items():
            counters[k] = counters.get(k, 0) + (1 if c else 0)
        for k, c in type_stats(td).items():
            if k != '_depth':
                tcount[k] = tcount.get(k, 0) + 1
        for nm in type_names(td):
            cls = 'name_ascii_ident' if nm.isascii() and nm.isidentifier() else 'name_needs_escape_or_nonascii'
            counters[cls] = counters.get(cls, 0) + 1

    run()
    need = ['missing', 'float_special', 'nan', 'inf', 'neg_zero', 'int_extreme', 'nested_container', 'empty_collection',
            'call_ploidy0_phased', 'call_ploidy0_unphased', 'call_ploidy1_phased', 'call_ploidy2_phased',
            'call_ploidy2_unphased', 'locus_contig_end', 'locus_pos_1', 'interval_[]', 'interval_[)', 'interval_(]',
            'interval_()', 'ndarray_C', 'ndarray_F', 'ndarray_S', 'ndarray_zero_axis', 'struct_Struct', 'struct_dict',
            'dict_frozendict', 'dict_dict', 'set_frozenset', 'array_frozenlist', 'np_scalar', 'dict_missing_value',
            'name_needs_escape_or_nonascii']
    lacking = [k for k in need if not counters.get(k)]
    assert not lacking, f'generator never produced: {lacking}'
    for k in PRIMS + ['locus', 'interval', 'array', 'set', 'dict', 'tuple', 'struct', 'ndarray']:
        assert tcount.get(k), f'type kind {k} never generated'
    # equality decisions
    assert values_equal(hl.tfloat64, float('nan'), float('nan')) and not values_equal(hl.tfloat64, 0.0, -0.0)
    assert values_equal(hl.tfloat64, 1, 1.0) and not values_equal(hl.tint32, 1, 2)
    assert values_equal(hl.tset(hl.tint32), {1, 2}, frozenset([2, 1]))
    assert values_equal(hl.tdict(hl.tstr, hl.tfloat64), {'a': float('nan')}, {'a': float('nan')})
    assert not values_equal(hl.tstruct(a=hl.tint32), hl.Struct(a=1), hl.Struct(a=None))
    if verbose:
        print(f'hailgen selftest ok: {state["n"]} cases')
        print(' type kinds:', dict(sorted(tcount.items())))
        print(' value classes:', dict(sorted(counters.items())))
    return counters, tcount


if __name__ == '__main__':
    selftest(verbose=True)
