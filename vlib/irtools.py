"""irtools — reader and binding structure for the IR text the Python front end emits (used by C35 and C36).

    sx   = read(text)                 # S-expression: nested lists of Atom
    node = parse(sx)                  # Node tree for the *supported* node kinds; anything else -> OutsideGrammar
    child_env(node, i, env, val)      # environment of child i (engine binding rules: eval / agg / scan)
    resolve_refs(node, env, [])       # what every Ref of a subtree resolves to
    parse_type('Array[Struct{a:Int32}]')   # type strings -> hashable descriptors

The grammar table (HEADS / special parsers) is written from the emitters in hail/ir/{ir,table_ir,matrix_ir}.py
(`head_str`, `render_head`, `render_children`); the *binding* table (child_env) is written from the engine's
is/hail/expr/ir/Binds.scala + Env.scala (BindingEnv.extend / modifyWithoutNewBindings), not from the Python
`renderable_bindings` that the renderer under test consults.
"""
from __future__ import annotations


class ReadError(Exception):
    pass


class OutsideGrammar(Exception):
    def __init__(self, kind, why=''):
        super().__init__(f'{kind} {why}'.strip())
        self.kind = kind


class Atom(str):
    """A token.  q = '' bare, '`' back-ticked identifier (text is unescaped), '"' string literal (text is unescaped)."""
    __slots__ = ('q',)

    def __new__(cls, text, q=''):
        o = super().__new__(cls, text)
        o.q = q
        return o

    def __eq__(self, other):
        if isinstance(other, Atom):
            return str.__eq__(self, other) and (self.q == '"') == (other.q == '"')
        return str.__eq__(self, other)

    def __ne__(self, other):
        return not self.__eq__(other)

    __hash__ = str.__hash__

    def __repr__(self):
        return f'{self.q}{str.__repr__(self)}{self.q}' if self.q else str.__repr__(self)


_ESC = {'b': '\b', 'n': '\n', 't': '\t', 'f': '\f', 'r': '\r', '"': '"', '`': '`', '\\': '\\', "'": "'", '/': '/'}


def _quoted(text, i, q):
    """text[i] == q; returns (unescaped, index after the closing quote)."""
    n = len(text)
    j = i + 1
    out = []
    while True:
        if j >= n:
            raise ReadError(f'unterminated {q} literal at {i}')
        c = text[j]
        if c == '\\':
            if j + 1 >= n:
                raise ReadError('dangling backslash')
            d = text[j + 1]
            if d == 'u':
                out.append(chr(int(text[j + 2:j + 6], 16)))
                j += 6
            elif d == 'x':        # Python's unicode_escape forms, emitted by escape_parsable for field names (see C31)
                out.append(chr(int(text[j + 2:j + 4], 16)))
                j += 4
            elif d == 'U':
                out.append(chr(int(text[j + 2:j + 10], 16)))
                j += 10
            elif d in _ESC:
                out.append(_ESC[d])
                j += 2
            else:
                raise ReadError(f'unknown escape \\{d} at {j}')
        elif c == q:
            return ''.join(out), j + 1
        else:
            out.append(c)
            j += 1


_OPEN = {'[': ']', '{': '}', '(': ')'}


def _bare(text, i):
    """A bare atom: runs to whitespace / paren at bracket depth 0.  Brackets of type strings (`Array[..]`,
    `Struct{..}`, `Locus(GRCh37)`, `Table{..key:[a,b]..}`) nest; quoted pieces inside them are skipped verbatim."""
    n = len(text)
    j = i
    stack = []
    while j < n:
        c = text[j]
        if not stack:
            if c.isspace() or c == ')':
                break
            if c == '(':
                if j > i and text[i:j].endswith('Locus'):
                    stack.append(')')
                    j += 1
                    continue
                break
        if c in '`"':
            _, j = _quoted(text, j, c)
            continue
        if c in '[{' or (c == '(' and stack):
            stack.append(_OPEN[c])
        elif stack and c == stack[-1]:
            stack.pop()
        j += 1
    if stack:
        raise ReadError(f'unbalanced brackets in atom at {i}: {text[i:i + 60]!r}')
    if j == i:
        raise ReadError(f'empty atom at {i}')
    return text[i:j], j


def read(text: str):
    """-> the single top-level S-expression of `text` (a list)."""
    n = len(text)
    i = 0
    stack = [[]]
    while i < n:
        c = text[i]
        if c.isspace():
            i += 1
        elif c == '(':
            stack.append([])
            i += 1
        elif c == ')':
            if len(stack) == 1:
                raise ReadError(f'unbalanced ) at {i}')
            done = stack.pop()
            stack[-1].append(done)
            i += 1
        elif c == '"':
            s, i = _quoted(text, i, '"')
            stack[-1].append(Atom(s, '"'))
        elif c == '`':
            s, j = _quoted(text, i, '`')
            if j < n and not (text[j].isspace() or text[j] in '()'):
                raw, i = _bare(text, i)       # a type string that starts with a back-ticked piece cannot occur; be safe
                stack[-1].append(Atom(raw))
            else:
                i = j
                stack[-1].append(Atom(s, '`'))
        else:
            raw, i = _bare(text, i)
            stack[-1].append(Atom(raw))
    if len(stack) != 1:
        raise ReadError('unbalanced (')
    if len(stack[0]) != 1 or not isinstance(stack[0][0], list):
        raise ReadError(f'expected exactly one top-level form, got {len(stack[0])}')
    return stack[0][0]


# ---------------------------------------------------------------------------------------------------------------
# Node tree
# ---------------------------------------------------------------------------------------------------------------

class Node:
    __slots__ = ('kind', 'head', 'children', 'labels', 'extra')

    def __init__(self, kind, head, children, labels=None, extra=None):
        self.kind = kind
        self.head = head            # list of Atom | list
        self.children = children    # list[Node]
        self.labels = labels        # per-child labels (struct field names) or None
        self.extra = extra          # kind specific (e.g. number of init args of ApplyAggOp)

    def key(self):
        """structural identity (kind, head, labels, extra, children) as nested tuples"""
        return (self.kind, _freeze(self.head), tuple(self.labels) if self.labels else None, self.extra,
                tuple(c.key() for c in self.children))

    def size(self):
        return 1 + sum(c.size() for c in self.children)

    def __repr__(self):
        return f'<{self.kind} {self.head} x{len(self.children)}>'


def _freeze(x):
    if isinstance(x, list):
        return tuple(_freeze(y) for y in x)
    return (str(x), getattr(x, 'q', '') == '"')


# number of head items (atoms or parenthesised lists) before the IR children, for the regular kinds
HEADS = {
    # value IR
    'I32': 1, 'I64': 1, 'F32': 1, 'F64': 1, 'Str': 1, 'True': 0, 'False': 0, 'Void': 0, 'NA': 1, 'Cast': 1, 'IsNA': 0,
    'If': 0, 'Coalesce': 0, 'Let': 2, 'AggLet': 2, 'Ref': 1, 'ApplyBinaryPrimOp': 1, 'ApplyUnaryPrimOp': 1,
    'ApplyComparisonOp': 1, 'MakeArray': 1, 'ArrayRef': 1, 'ArraySlice': 1, 'ArrayLen': 0, 'StreamRange': 2,
    'StreamIota': 1, 'ToSet': 0, 'ToDict': 0, 'ToArray': 0, 'CastToArray': 0, 'ToStream': 1, 'StreamMap': 1,
    'StreamFilter': 1, 'StreamFlatMap': 1, 'StreamFold': 2, 'StreamScan': 2, 'StreamAgg': 1, 'StreamAggScan': 1,
    'ArraySort': 2, 'AggFilter': 1, 'AggExplode': 2, 'AggGroupBy': 1, 'AggArrayPerElement': 4, 'SelectFields': 1,
    'GetField': 1, 'MakeTuple': 1,
    'GetTupleElement': 1, 'Apply': 4, 'ApplySeeded': 4, 'Literal': 2, 'EncodedLiteral': 2, 'Die': 2, 'GroupByKey': 0,
    'LowerBoundOnOrderedCollection': 1, 'StreamTake': 0, 'StreamZip': 3,
    'TableAggregate': 0, 'TableCount': 0, 'TableGetGlobals': 0, 'TableCollect': 0, 'MatrixAggregate': 0,
    'RNGStateLiteral': 0, 'RNGSplit': 0,
    # table IR
    'TableRange': 2, 'TableMapRows': 0, 'TableMapGlobals': 0, 'TableFilter': 0, 'TableKeyBy': 3,
    'TableAggregateByKey': 0, 'TableKeyByAndAggregate': 2, 'TableJoin': 2, 'TableLeftJoinRightDistinct': 1,
    'TableDistinct': 0, 'TableOrderBy': 1, 'TableHead': 1, 'TableRename': 4, 'MatrixEntriesTable': 0,
    'MatrixRowsTable': 0, 'MatrixColsTable': 0, 'TableExplode': 1, 'TableUnion': 0,
    # matrix IR
    'MatrixMapRows': 0, 'MatrixMapCols': 1, 'MatrixMapEntries': 0, 'MatrixMapGlobals': 0, 'MatrixFilterRows': 0,
    'MatrixFilterCols': 0, 'MatrixFilterEntries': 0, 'MatrixKeyRowsBy': 2, 'MatrixRead': 4, 'MatrixRename': 8,
    'MatrixAnnotateRowsTable': 2, 'MatrixAnnotateColsTable': 1, 'CastTableToMatrix': 4, 'MatrixExplodeRows': 1,
}

VALUE_LEAF = {'I32', 'I64', 'F32', 'F64', 'Str', 'True', 'False', 'Void', 'NA', 'Ref', 'Literal', 'EncodedLiteral',
              'RNGStateLiteral', 'TableRange', 'MatrixRead'}


def _is_list(x):
    return isinstance(x, list)


def parse(sx) -> Node:
    if not _is_list(sx) or not sx or _is_list(sx[0]):
        raise ReadError(f'not an IR form: {sx!r}'[:200])
    kind = str(sx[0])
    rest = sx[1:]
    if kind in ('MakeStruct',):
        labels, kids = _fields(rest, kind)
        return Node(kind, [], kids, labels)
    if kind == 'InsertFields':
        if len(rest) < 2:
            raise ReadError('InsertFields too short')
        old = parse(rest[0])
        order = rest[1]
        if not (_is_list(order) or order == 'None'):
            raise ReadError(f'InsertFields field order {order!r}')
        labels, kids = _fields(rest[2:], kind)
        return Node(kind, [order], [old] + kids, [None] + labels)
    if kind in ('ApplyAggOp', 'ApplyScanOp'):
        if len(rest) != 3 or _is_list(rest[0]) or not _is_list(rest[1]) or not _is_list(rest[2]):
            raise ReadError(f'{kind} shape')
        init = [parse(x) for x in rest[1]]
        seq = [parse(x) for x in rest[2]]
        return Node(kind, [rest[0]], init + seq, None, len(init))
    if kind not in HEADS:
        raise OutsideGrammar(kind)
    nh = HEADS[kind]
    if len(rest) < nh:
        raise ReadError(f'{kind}: expected {nh} head items, got {rest!r}'[:200])
    head = list(rest[:nh])
    kids = []
    for x in rest[nh:]:
        if not _is_list(x):
            raise ReadError(f'{kind}: stray atom {x!r} among children (head arity wrong?)')
        kids.append(parse(x))
    if kind in VALUE_LEAF and kids:
        raise ReadError(f'{kind} has children')
    return Node(kind, head, kids)


def _fields(items, kind):
    labels, kids = [], []
    for it in items:
        if not _is_list(it) or len(it) != 2 or _is_list(it[0]) or not _is_list(it[1]):
            raise ReadError(f'{kind}: bad field form {it!r}'[:200])
        labels.append(str(it[0]))
        kids.append(parse(it[1]))
    return labels, kids


def parse_text(text) -> Node:
    return parse(read(text))


def kinds_of(node, acc=None):
    acc = {} if acc is None else acc
    acc[node.kind] = acc.get(node.kind, 0) + 1
    for c in node.children:
        kinds_of(c, acc)
    return acc


# ---------------------------------------------------------------------------------------------------------------
# Binding structure (engine rules: Binds.scala / Env.scala)
# ---------------------------------------------------------------------------------------------------------------

class Env:
    """eval / agg / scan environments; agg and scan are None when absent.  Values are arbitrary (binder ids, types)."""
    __slots__ = ('e', 'a', 's')

    def __init__(self, e, a=None, s=None):
        self.e, self.a, self.s = e, a, s

    @staticmethod
    def top(free=()):
        return Env(dict(free), None, None)

    def bind_e(self, kv):
        if not kv:
            return self
        e = dict(self.e)
        e.update(kv)
        return Env(e, self.a, self.s)

    def bind_a(self, kv):
        if self.a is None:
            raise ScopeError('agg bindings without an agg environment')
        a = dict(self.a)
        a.update(kv)
        return Env(self.e, a, self.s)

    def bind_s(self, kv):
        if self.s is None:
            raise ScopeError('scan bindings without a scan environment')
        s = dict(self.s)
        s.update(kv)
        return Env(self.e, self.a, s)

    def promote_a(self):
        if self.a is None:
            raise ScopeError('agg context used where no agg environment exists')
        return Env(self.a, None, self.s)

    def promote_s(self):
        if self.s is None:
            raise ScopeError('scan context used where no scan environment exists')
        return Env(self.s, self.a, None)

    def create_a(self, kv):
        # modifyWithoutNewBindings: existing agg/scan become empty (if defined); agg = Some(eval) + bindings
        a = dict(self.e)
        a.update(kv)
        return Env(self.e, a, None if self.s is None else {})

    def create_s(self, kv):
        s = dict(self.e)
        s.update(kv)
        return Env(self.e, None if self.a is None else {}, s)


class ScopeError(Exception):
    pass


def _b(node, i, names, val):
    """binder values for `names` bound by child i of node: val(node, i, name)"""
    return {n: val(node, i, n) for n in names}


def _binder_id(node, i, name):
    return (id(node), i, name)


TABLE_KINDS = {k for k in HEADS if k.startswith('Table') and k not in ('TableAggregate', 'TableCount', 'TableGetGlobals',
                                                                       'TableCollect')} | {
    'MatrixEntriesTable', 'MatrixRowsTable', 'MatrixColsTable'}
MATRIX_KINDS = {k for k in HEADS if (k.startswith('Matrix') and k not in ('MatrixAggregate', 'MatrixEntriesTable',
                                                                          'MatrixRowsTable', 'MatrixColsTable'))
                } | {'CastTableToMatrix'}

LAMBDA_KINDS = {'StreamMap', 'StreamFilter', 'StreamFlatMap', 'StreamFold', 'StreamScan', 'ArraySort', 'StreamZip'}


def child_env(node, i, env: Env, val=_binder_id, rel=None) -> Env:
    """Environment of child i of `node` given the environment of `node` (Bindings.get + BindingEnv.extend).

    `val(node, i, name)` supplies the value stored for a new binding.  `rel(node, i)` may supply the names bound by
    relational nodes (row/global/va/sa/g ...) as {'eval': [...], 'agg': [...]|None, 'scan': [...]|None}; by default the
    fixed names of TableType/MatrixType are used."""
    k = node.kind
    h = node.head
    B = lambda names: _b(node, i, names, val)     # noqa: E731
    if k == 'Let':
        return env.bind_e(B([str(h[1])])) if i == 1 else env
    if k == 'AggLet':
        scan = str(h[1]) == 'True'
        if i == 0:
            return env.promote_s() if scan else env.promote_a()
        return env.bind_s(B([str(h[0])])) if scan else env.bind_a(B([str(h[0])]))
    if k in ('StreamMap', 'StreamFilter', 'StreamFlatMap'):
        return env.bind_e(B([str(h[0])])) if i == 1 else env
    if k in ('StreamFold', 'StreamScan'):
        return env.bind_e(B([str(h[0]), str(h[1])])) if i == 2 else env
    if k == 'ArraySort':
        return env.bind_e(B([str(h[0]), str(h[1])])) if i == 1 else env
    if k == 'StreamZip':
        return env.bind_e(B([str(x) for x in h[2]])) if i == len(node.children) - 1 else env
    if k == 'StreamAgg':
        return env.create_a(B([str(h[0])])) if i == 1 else env
    if k == 'StreamAggScan':
        if i == 1:
            b = B([str(h[0])])
            return env.create_s(b).bind_e(b)
        return env
    if k in ('ApplyAggOp', 'ApplyScanOp'):
        scan = k == 'ApplyScanOp'
        if i < node.extra:      # init args: agg (scan) environment dropped
            return Env(env.e, env.a, None) if scan else Env(env.e, None, env.s)
        return env.promote_s() if scan else env.promote_a()
    if k in ('AggFilter', 'AggGroupBy'):
        scan = str(h[0]) == 'True'
        if i == 0:
            return env.promote_s() if scan else env.promote_a()
        return env
    if k == 'AggExplode':
        scan = str(h[1]) == 'True'
        if i == 0:
            return env.promote_s() if scan else env.promote_a()
        return env.bind_s(B([str(h[0])])) if scan else env.bind_a(B([str(h[0])]))
    if k == 'AggArrayPerElement':      # head: elementName indexName isScan hasKnownLength; children: a, aggBody[, length]
        scan = str(h[2]) == 'True'
        if i == 0:
            return env.promote_s() if scan else env.promote_a()
        if i == 1:      # eval binds the index; the agg (scan) environment binds element and index
            both = B([str(h[0]), str(h[1])])
            e2 = env.bind_e(B([str(h[1])]))
            return e2.bind_s(both) if scan else e2.bind_a(both)
        return env
    if k in ('TableAggregate', 'MatrixAggregate'):
        if i == 0:
            return Env({}, None, None)
        ev, ag = (['global'], ['global', 'row']) if k == 'TableAggregate' else (['global'], ['global', 'va', 'sa', 'g'])
        return Env(B(ev), B(ag), None)
    if k in ('TableCount', 'TableGetGlobals', 'TableCollect'):
        return Env({}, None, None)
    if k in TABLE_KINDS:
        if k == 'TableMapRows' and i == 1:
            b = B(['global', 'row'])
            return Env(b, None, dict(b))
        if k == 'TableFilter' and i == 1:
            return Env(B(['global', 'row']), None, None)
        if k == 'TableMapGlobals' and i == 1:
            return Env(B(['global']), None, None)
        if k == 'TableAggregateByKey' and i == 1:
            return Env(B(['global']), B(['global', 'row']), None)
        if k == 'TableKeyByAndAggregate' and i == 1:
            return Env(B(['global']), B(['global', 'row']), None)
        if k == 'TableKeyByAndAggregate' and i == 2:
            return Env(B(['global', 'row']), None, None)
        return Env({}, None, None)
    if k in MATRIX_KINDS:
        if k == 'MatrixMapRows' and i == 1:
            return Env(B(['global', 'va', 'n_cols']), B(['global', 'va', 'sa', 'g']), B(['global', 'va']))
        if k == 'MatrixMapCols' and i == 1:
            return Env(B(['global', 'sa', 'n_rows']), B(['global', 'va', 'sa', 'g']), B(['global', 'sa']))
        if k == 'MatrixFilterRows' and i == 1:
            return Env(B(['global', 'va']), None, None)
        if k == 'MatrixFilterCols' and i == 1:
            return Env(B(['global', 'sa']), None, None)
        if k in ('MatrixMapEntries', 'MatrixFilterEntries') and i == 1:
            return Env(B(['global', 'va', 'sa', 'g']), None, None)
        if k == 'MatrixMapGlobals' and i == 1:
            return Env(B(['global']), None, None)
        return Env({}, None, None)
    return env


def is_new_scope_root(kind):
    return kind in TABLE_KINDS or kind in MATRIX_KINDS


def resolve_refs(node, env: Env, out, val=_binder_id):
    """append, in pre-order, the environment value of every Ref in `node` (None when unbound)."""
    if node.kind == 'Ref':
        out.append(env.e.get(str(node.head[0])))
        return out
    for i, c in enumerate(node.children):
        try:
            ce = child_env(node, i, env, val)
        except ScopeError:
            out.append(('scope-error', node.kind, i))
            continue
        resolve_refs(c, ce, out, val)
    return out


# ---------------------------------------------------------------------------------------------------------------
# Types in the text (HailType._parsable_string syntax) -> hashable descriptors
#   prims: 'int32' 'int64' 'float32' 'float64' 'bool' 'str' 'call' 'void' 'rngstate'
#   ('array', e) ('set', e) ('stream', e) ('interval', p) ('dict', k, v) ('locus', rg) ('ndarray', e, n)
#   ('struct', ((name, t), ...)) ('tuple', (t, ...))
# ---------------------------------------------------------------------------------------------------------------

_PRIM_NAMES = {'Int32': 'int32', 'Int64': 'int64', 'Float32': 'float32', 'Float64': 'float64', 'Boolean': 'bool',
               'String': 'str', 'Call': 'call', 'Void': 'void', 'RNGState': 'rngstate'}


class TypeSyntaxError(Exception):
    pass


def parse_type(text):
    t, i = _ptype(str(text), 0)
    if i != len(text):
        raise TypeSyntaxError(f'trailing text in type {text!r} at {i}')
    return t


def _pname(s, i):
    if i < len(s) and s[i] == '`':
        return _quoted(s, i, '`')
    j = i
    while j < len(s) and (s[j].isalnum() or s[j] == '_'):
        j += 1
    if j == i:
        raise TypeSyntaxError(f'name expected at {i} in {s!r}')
    return s[i:j], j


def _expect(s, i, c):
    if s[i:i + len(c)] != c:
        raise TypeSyntaxError(f'{c!r} expected at {i} in {s!r}')
    return i + len(c)


def _ptype(s, i):
    j = i
    while j < len(s) and s[j].isalnum():
        j += 1
    head = s[i:j]
    if head in _PRIM_NAMES:
        return _PRIM_NAMES[head], j
    if head in ('Array', 'Set', 'Stream', 'Interval'):
        j = _expect(s, j, '[')
        e, j = _ptype(s, j)
        j = _expect(s, j, ']')
        return (head.lower(), e), j
    if head == 'Dict':
        j = _expect(s, j, '[')
        k, j = _ptype(s, j)
        j = _expect(s, j, ',')
        v, j = _ptype(s, j)
        j = _expect(s, j, ']')
        return ('dict', k, v), j
    if head == 'NDArray':
        j = _expect(s, j, '[')
        e, j = _ptype(s, j)
        j = _expect(s, j, ',')
        k = j
        while k < len(s) and s[k].isdigit():
            k += 1
        n = int(s[j:k])
        j = _expect(s, k, ']')
        return ('ndarray', e, n), j
    if head == 'Locus':
        j = _expect(s, j, '(')
        name, j = _pname(s, j)
        j = _expect(s, j, ')')
        return ('locus', name), j
    if head == 'Tuple':
        j = _expect(s, j, '[')
        ts = []
        if s[j:j + 1] != ']':
            while True:
                t, j = _ptype(s, j)
                ts.append(t)
                if s[j:j + 1] == ',':
                    j += 1
                    continue
                break
        j = _expect(s, j, ']')
        return ('tuple', tuple(ts)), j
    if head == 'Struct':
        j = _expect(s, j, '{')
        fs = []
        if s[j:j + 1] != '}':
            while True:
                name, j = _pname(s, j)
                j = _expect(s, j, ':')
                t, j = _ptype(s, j)
                fs.append((name, t))
                if s[j:j + 1] == ',':
                    j += 1
                    continue
                break
        j = _expect(s, j, '}')
        return ('struct', tuple(fs)), j
    raise TypeSyntaxError(f'unknown type head {head!r} at {i} in {s!r}')


def show_type(t):
    if isinstance(t, str):
        return t
    k = t[0]
    if k == 'struct':
        return 'struct{' + ', '.join(f'{n!r}: {show_type(x)}' for n, x in t[1]) + '}'
    if k == 'tuple':
        return 'tuple(' + ', '.join(show_type(x) for x in t[1]) + ')'
    if k == 'dict':
        return f'dict<{show_type(t[1])}, {show_type(t[2])}>'
    if k == 'locus':
        return f'locus<{t[1]}>'
    if k == 'ndarray':
        return f'ndarray<{show_type(t[1])}, {t[2]}>'
    return f'{k}<{show_type(t[1])}>'
