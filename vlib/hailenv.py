"""E6 hailenv — the `hail` Python package in-process, without the JVM engine.

    from vlib import hailenv
    hl = hailenv.init()          # idempotent; ~0.8 s the first time (import hail ~0.6 s + 4 builtin references ~0.1 s)

What this module provides
  * a real (small) PEG interpreter registered as `parsimonious` (+ .nodes/.exceptions/.grammar/.expressions) that
    implements the rule syntax used by /repo/hail/python/hail/expr/type_parsing.py with parsimonious' node model
    (Node.text/.children/.expr_name/.start/.end, RegexNode.match, NodeVisitor.visit/generic_visit/visit_<rule>,
    VisitationError wrapping, ParseError/IncompleteParseError);
  * hostenv's `decorator` shim is kept (checked in selftest(): hail.typecheck really rejects ill-typed arguments);
  * `scipy` added to the hostenv stub allow-list (hail.linalg imports scipy.linalg at import time; nothing in the
    front-end paths exercised by C31-C33 calls it).  If a real scipy is importable it is used instead;
  * FakeBackend(hail.backend.Backend) registered through the real HailContext.create(): reference genomes (builtin
    GRCh37/GRCh38/GRCm38/CanFam3 from <repo>/hail/hail/resources/reference/*.json, add/get/remove), flags, a local FS,
    tmpdirs, `_is_service=False`, `requires_lowering=False`; every attempt to execute raises EngineNeeded.

Known deviation (trusted base): the PEG shim compiles `~"..."` with the stdlib `re` module whereas parsimonious 0.11
uses the third-party `regex` module; the two differ on `\\w` for a few code points of category No (e.g. U+00B2).
"""
from __future__ import annotations

import ast
import importlib.machinery
import io
import json
import logging
import os
import re
import shutil
import sys
import tempfile
import time
import types as _pytypes

from . import hostenv


class EngineNeeded(RuntimeError):
    """Raised by FakeBackend when the code under test tries to reach the JVM engine."""


# ----------------------------------------------------------------------------------------------------------------
# parsimonious shim
# ----------------------------------------------------------------------------------------------------------------

class ParsimoniousError(Exception):
    pass


class ParseError(ParsimoniousError):
    def __init__(self, text, pos=-1, expr=None):
        super().__init__(text, pos, expr)
        self.text = text
        self.pos = pos
        self.expr = expr

    def line(self):
        if isinstance(self.text, str):
            return self.text.count('\n', 0, self.pos) + 1
        return None

    def column(self):
        try:
            return self.pos - self.text.rindex('\n', 0, self.pos)
        except (ValueError, AttributeError):
            return self.pos + 1

    def __str__(self):
        rule_name = ('{!r}'.format(self.expr.name) if getattr(self.expr, 'name', '') else str(self.expr))
        return "Rule %s didn't match at '%s' (line %s, column %s)." % (
            rule_name, self.text[self.pos:self.pos + 20], self.line(), self.column())


class LeftRecursionError(ParseError):
    pass


class IncompleteParseError(ParseError):
    def __str__(self):
        return "Rule '%s' matched in its entirety, but it didn't consume all the text. The non-matching portion of " \
               "the text begins with '%s' (line %s, column %s)." % (
                   getattr(self.expr, 'name', ''), self.text[self.pos:self.pos + 20], self.line(), self.column())


class VisitationError(ParsimoniousError):
    def __init__(self, exc, exc_class, node):
        self.original_class = exc_class
        super().__init__('%s: %s\n\nParse tree:\n%s' % (exc_class.__name__, exc, node.prettily(error=node)))


class BadGrammar(ParsimoniousError):
    pass


class UndefinedLabel(BadGrammar):
    def __init__(self, label):
        self.label = label

    def __str__(self):
        return 'The label "%s" was never defined.' % self.label


class Node:
    __slots__ = ('expr', 'full_text', 'start', 'end', 'children')

    def __init__(self, expr, full_text, start, end, children=None):
        self.expr = expr
        self.full_text = full_text
        self.start = start
        self.end = end
        self.children = children or []

    @property
    def expr_name(self):
        return self.expr.name

    def __iter__(self):
        return iter(self.children)

    @property
    def text(self):
        return self.full_text[self.start:self.end]

    def prettily(self, error=None):
        def indent(text):
            return '\n'.join(('    ' + line) for line in text.splitlines())
        ret = ['<%s%s matching "%s">%s' % (self.__class__.__name__,
                                           (' called "%s"' % self.expr_name) if self.expr_name else '', self.text,
                                           '  <-- *** We were here. ***' if error is self else '')]
        for n in self:
            ret.append(indent(n.prettily(error=error)))
        return '\n'.join(ret)

    def __str__(self):
        return self.prettily()

    def __eq__(self, other):
        if not isinstance(other, Node):
            return NotImplemented
        return (self.expr == other.expr and self.full_text == other.full_text and self.start == other.start
                and self.end == other.end and self.children == other.children)

    def __ne__(self, other):
        return not self == other

    __hash__ = None

    def __repr__(self, top_level=True):
        return '<%s %r %d:%d>' % (type(self).__name__, self.expr_name, self.start, self.end)


class RegexNode(Node):
    __slots__ = ('match',)


class Expression:
    """Base PEG expression.  `_match(text, pos, cache, err)` -> Node | None."""
    __slots__ = ('name', 'identity_tuple')

    def __init__(self, name=''):
        self.name = name

    def parse(self, text, pos=0):
        node = self.match(text, pos=pos)
        if node.end < len(text):
            raise IncompleteParseError(text, node.end, self)
        return node

    def match(self, text, pos=0):
        err = [-1, None]          # furthest failure position, expression that failed there
        node = self._match(text, pos, {}, err)
        if node is None:
            raise ParseError(text, max(err[0], pos), err[1] or self)
        return node

    def _match(self, text, pos, cache, err):
        key = (id(self), pos)
        if key in cache:
            node = cache[key]
            if node is _IN_PROGRESS:
                raise LeftRecursionError(text, pos, self)
            return node
        cache[key] = _IN_PROGRESS
        node = self._uncached_match(text, pos, cache, err)
        cache[key] = node
        if node is None and pos >= err[0] and (self.name or err[1] is None):   # parsimonious' error-tracking rule
            err[0] = pos
            err[1] = self
        return node

    def __str__(self):
        return '<%s %s>' % (type(self).__name__, self.as_rule())

    def as_rule(self):
        rhs = self._as_rhs().strip()
        if rhs.startswith('(') and rhs.endswith(')'):
            rhs = rhs[1:-1]
        return ('%s = %s' % (self.name, rhs)) if self.name else rhs

    def _unicode_members(self):
        return [(m.name or m._as_rhs()) for m in self.members]

    def _as_rhs(self):
        raise NotImplementedError


_IN_PROGRESS = object()


class Literal(Expression):
    __slots__ = ('literal',)

    def __init__(self, literal, name=''):
        super().__init__(name)
        self.literal = literal

    def _uncached_match(self, text, pos, cache, err):
        if text.startswith(self.literal, pos):
            return Node(self, text, pos, pos + len(self.literal))
        return None

    def _as_rhs(self):
        return repr(self.literal)


class Regex(Expression):
    __slots__ = ('re',)

    def __init__(self, pattern, name='', ignore_case=False, locale=False, multiline=False, dot_all=False,
                 unicode=False, verbose=False, ascii=False):
        super().__init__(name)
        flags = ((ignore_case and re.I) | (locale and re.L) | (multiline and re.M) | (dot_all and re.S)
                 | (unicode and re.U) | (verbose and re.X) | (ascii and re.A))
        self.re = re.compile(pattern, flags or 0)

    def _uncached_match(self, text, pos, cache, err):
        m = self.re.match(text, pos)
        if m is not None:
            node = RegexNode(self, text, pos, pos + (m.end() - m.start()))
            node.match = m
            return node
        return None

    def _as_rhs(self):
        return '~{!r}'.format(self.re.pattern)


class Compound(Expression):
    __slots__ = ('members',)

    def __init__(self, *members, **kwargs):
        super().__init__(kwargs.get('name', ''))
        self.members = members


class Sequence(Compound):
    __slots__ = ()

    def _uncached_match(self, text, pos, cache, err):
        new_pos = pos
        children = []
        for m in self.members:
            node = m._match(text, new_pos, cache, err)
            if node is None:
                return None
            children.append(node)
            new_pos += node.end - node.start
        return Node(self, text, pos, new_pos, children)

    def _as_rhs(self):
        return '({0})'.format(' '.join(self._unicode_members()))


class OneOf(Compound):
    __slots__ = ()

    def _uncached_match(self, text, pos, cache, err):
        for m in self.members:
            node = m._match(text, pos, cache, err)
            if node is not None:
                return Node(self, text, pos, node.end, children=[node])
        return None

    def _as_rhs(self):
        return '({0})'.format(' / '.join(self._unicode_members()))


class Lookahead(Compound):
    __slots__ = ('negativity',)

    def __init__(self, member, *, negative=False, **kwargs):
        super().__init__(member, **kwargs)
        self.negativity = bool(negative)

    def _uncached_match(self, text, pos, cache, err):
        node = self.members[0]._match(text, pos, cache, [10 ** 18, None])   # failures inside lookahead aren't errors
        if (node is None) == self.negativity:
            return Node(self, text, pos, pos)
        return None

    def _as_rhs(self):
        return '%s%s' % ('!' if self.negativity else '&', self._unicode_members()[0])


def Not(term):
    return Lookahead(term, negative=True)


class Quantifier(Compound):
    __slots__ = ('min', 'max')

    def __init__(self, member, *, min=0, max=float('inf'), name='', **kwargs):
        super().__init__(member, name=name, **kwargs)
        self.min = min
        self.max = max

    def _uncached_match(self, text, pos, cache, err):
        new_pos = pos
        children = []
        size = len(text)
        while new_pos < size and len(children) < self.max:
            node = self.members[0]._match(text, new_pos, cache, err)
            if node is None:
                break
            children.append(node)
            length = node.end - node.start
            if len(children) >= self.min and length == 0:   # avoid infinite loops on empty matches
                break
            new_pos += length
        if len(children) >= self.min:
            return Node(self, text, pos, new_pos, children)
        return None

    def _as_rhs(self):
        if self.min == 0 and self.max == 1:
            q = '?'
        elif self.min == 0 and self.max == float('inf'):
            q = '*'
        elif self.min == 1 and self.max == float('inf'):
            q = '+'
        else:
            q = '{%d,%s}' % (self.min, '' if self.max == float('inf') else int(self.max))
        return '%s%s' % (self._unicode_members()[0], q)


def ZeroOrMore(member, name=''):
    return Quantifier(member, name=name, min=0, max=float('inf'))


def OneOrMore(member, name='', min=1):
    return Quantifier(member, name=name, min=min, max=float('inf'))


def Optional(member, name=''):
    return Quantifier(member, name=name, min=0, max=1)


class _LazyReference(str):
    name = ''


class _RuleSyntaxParser:
    """Recursive-descent parser for parsimonious' rule syntax (the grammar of grammars, transcribed):

        rules = _ rule*                         rule = label "=" _ expression
        expression = ored / sequence / term     ored = term ("/" _ term)+      sequence = term term+
        term = "!" term / "&" term / atom quantifier? ; quantifier = * + ? {m,n} {n}
        atom = reference / literal / regex / "(" _ expression ")" _
        regex = "~" spaceless_literal [ilmsuxa]* ;  reference = label !"="  ;  _ = (whitespace / #comment)*
    """
    _ws = re.compile(r'(?:\s+|#[^\r\n]*)*')
    _label = re.compile(r'[a-zA-Z_][a-zA-Z_0-9]*(?![\"\'])')
    _lit = re.compile(r'u?r?b?"[^"\\]*(?:\\.[^"\\]*)*"|u?r?b?\'[^\'\\]*(?:\\.[^\'\\]*)*\'', re.I | re.S)
    _flags = re.compile(r'[ilmsuxa]*', re.I)
    _quant = re.compile(r'[*+?]|\{\d*,\d+\}|\{\d+,\d*\}|\{\d+\}')

    def __init__(self, text):
        self.t = text
        self.p = 0

    def fail(self, what):
        raise BadGrammar('bad grammar: expected %s at %r (offset %d)' % (what, self.t[self.p:self.p + 30], self.p))

    def ws(self):
        self.p = self._ws.match(self.t, self.p).end()

    def rules(self):
        self.ws()
        out = []
        while self.p < len(self.t):
            out.append(self.rule())
        if not out:
            self.fail('at least one rule')
        return out

    def label(self):
        m = self._label.match(self.t, self.p)
        if not m:
            return None
        self.p = m.end()
        self.ws()
        return m.group(0)

    def rule(self):
        name = self.label()
        if name is None:
            self.fail('rule label')
        if not self.t.startswith('=', self.p):
            self.fail('"="')
        self.p += 1
        self.ws()
        expr = self.expression()
        return name, expr

    def expression(self):
        first = self.term()
        if first is None:
            self.fail('term')
        if self.t.startswith('/', self.p):
            members = [first]
            while self.t.startswith('/', self.p):
                self.p += 1
                self.ws()
                t = self.term()
                if t is None:
                    self.fail('term after "/"')
                members.append(t)
            return OneOf(*members)
        members = [first]
        while True:
            save = self.p
            t = self.term()
            if t is None:
                self.p = save
                break
            members.append(t)
        if self.t.startswith('/', self.p):
            self.fail('parenthesised sequence before "/" (parsimonious does not mix sequence and "/")')
        return members[0] if len(members) == 1 else Sequence(*members)

    def term(self):
        if self.t.startswith('!', self.p) or self.t.startswith('&', self.p):
            neg = self.t[self.p] == '!'
            self.p += 1
            t = self.term()
            if t is None:
                self.fail('term after lookahead operator')
            self.ws()
            return Lookahead(t, negative=neg)
        a = self.atom()
        if a is None:
            return None
        m = self._quant.match(self.t, self.p)
        if m:
            self.p = m.end()
            self.ws()
            q = m.group(0)
            if q == '?':
                return Quantifier(a, min=0, max=1)
            if q == '*':
                return Quantifier(a, min=0, max=float('inf'))
            if q == '+':
                return Quantifier(a, min=1, max=float('inf'))
            body = q[1:-1]
            if ',' in body:
                lo, hi = body.split(',')
                return Quantifier(a, min=int(lo or 0), max=float('inf') if hi == '' else int(hi))
            return Quantifier(a, min=int(body), max=int(body))
        return a

    def spaceless_literal(self):
        m = self._lit.match(self.t, self.p)
        if not m:
            return None
        self.p = m.end()
        src = m.group(0)
        # parsimonious evaluates the literal as Python source (ast.literal_eval); strip a py2 'u' prefix
        if src[:1] in 'uU':
            src = src[1:]
        return ast.literal_eval(src)

    def atom(self):
        c = self.t[self.p:self.p + 1]
        if c == '(':
            self.p += 1
            self.ws()
            e = self.expression()
            if not self.t.startswith(')', self.p):
                self.fail('")"')
            self.p += 1
            self.ws()
            return e
        if c == '~':
            self.p += 1
            pat = self.spaceless_literal()
            if pat is None:
                self.fail('regex literal after "~"')
            fm = self._flags.match(self.t, self.p)
            self.p = fm.end()
            flags = fm.group(0).upper()
            self.ws()
            return Regex(pat, ignore_case='I' in flags, locale='L' in flags, multiline='M' in flags,
                         dot_all='S' in flags, unicode='U' in flags, verbose='X' in flags, ascii='A' in flags)
        save = self.p
        lit = self.spaceless_literal()
        if lit is not None:
            self.ws()
            return Literal(lit)
        name = self.label()
        if name is not None:
            if self.t.startswith('=', self.p):     # reference = label !equals : this label starts the next rule
                self.p = save
                return None
            return _LazyReference(name)
        return None


class Grammar(dict):
    """Mapping rule name -> Expression, built from parsimonious rule syntax."""

    def __init__(self, rules='', **more_rules):
        super().__init__()
        parsed = _RuleSyntaxParser(rules).rules() if rules.strip() else []
        rule_map = {}
        order = []
        for name, expr in parsed:
            if name not in rule_map:
                order.append(name)
            rule_map[name] = expr
        for name, expr in more_rules.items():
            if name not in rule_map:
                order.append(name)
            rule_map[name] = expr

        def resolve_ref(ref, seen=()):
            if ref in seen:
                raise BadGrammar('Circular Reference resolving %s' % ref)
            if ref not in rule_map:
                raise UndefinedLabel(ref)
            target = rule_map[ref]
            if isinstance(target, _LazyReference):
                return resolve_ref(str(target), seen + (ref,))
            return target

        done = set()

        def resolve(expr):
            if isinstance(expr, _LazyReference):
                return resolve_ref(str(expr))
            if id(expr) in done:
                return expr
            done.add(id(expr))
            if isinstance(expr, Compound):
                expr.members = tuple(resolve(m) for m in expr.members)
            return expr

        for name in order:
            e = rule_map[name]
            if not isinstance(e, _LazyReference):
                e.name = name
        for name in order:
            self[name] = resolve(rule_map[name])
        self.default_rule = self[order[0]] if order else None

    def default(self, rule_name):
        new = Grammar.__new__(Grammar)
        dict.__init__(new, self)
        new.default_rule = self[rule_name]
        return new

    def parse(self, text, pos=0):
        if self.default_rule is None:
            raise RuntimeError("Can't call parse() on a Grammar that has no default rule.")
        return self.default_rule.parse(text, pos=pos)

    def match(self, text, pos=0):
        if self.default_rule is None:
            raise RuntimeError("Can't call match() on a Grammar that has no default rule.")
        return self.default_rule.match(text, pos=pos)

    def __str__(self):
        return '\n'.join(e.as_rule() for e in self.values())

    def __repr__(self):
        return 'Grammar({!r})'.format(str(self))


class NodeVisitor:
    grammar = None
    unwrapped_exceptions = ()

    def visit(self, node):
        method = getattr(self, 'visit_' + node.expr_name, self.generic_visit)
        try:
            return method(node, [self.visit(n) for n in node])
        except (VisitationError, UndefinedLabel):
            raise
        except Exception as exc:
            if isinstance(exc, self.unwrapped_exceptions):
                raise
            raise VisitationError(exc, type(exc), node) from exc

    def generic_visit(self, node, visited_children):
        raise NotImplementedError('No visitor method was defined for this expression: %s' % node.expr.as_rule())

    def parse(self, text, pos=0):
        return self._parse_or_match(text, pos, 'parse')

    def match(self, text, pos=0):
        return self._parse_or_match(text, pos, 'match')

    def lift_child(self, node, children):
        first_child, = children
        return first_child

    def _parse_or_match(self, text, pos, method_name):
        if not self.grammar:
            raise RuntimeError('The {cls}.{method}() shortcut won\'t work because {cls} was never associated with a '
                               'specific grammar.'.format(cls=self.__class__.__name__, method=method_name))
        return self.visit(getattr(self.grammar, method_name)(text, pos=pos))


def rule(rule_string):
    def decorator(method):
        method._rule = rule_string
        return method
    return decorator


def _install_parsimonious():
    cur = sys.modules.get('parsimonious')
    if cur is not None and not getattr(cur, '__verif_stub__', False) and not getattr(cur, '__verif_shim__', False):
        return cur   # a real parsimonious is present; use it
    for k in [k for k in sys.modules if k == 'parsimonious' or k.startswith('parsimonious.')]:
        del sys.modules[k]
    try:
        real = importlib.machinery.PathFinder.find_spec('parsimonious')
    except Exception:
        real = None
    if real is not None:
        hostenv._REAL.add('parsimonious')
        import parsimonious
        return parsimonious
    ns_exc = dict(ParsimoniousError=ParsimoniousError, ParseError=ParseError, LeftRecursionError=LeftRecursionError,
                  IncompleteParseError=IncompleteParseError, VisitationError=VisitationError, BadGrammar=BadGrammar,
                  UndefinedLabel=UndefinedLabel)
    ns_nodes = dict(Node=Node, RegexNode=RegexNode, NodeVisitor=NodeVisitor, rule=rule, **ns_exc)
    ns_expr = dict(Expression=Expression, Literal=Literal, Regex=Regex, Compound=Compound, Sequence=Sequence,
                   OneOf=OneOf, Lookahead=Lookahead, Not=Not, Quantifier=Quantifier, ZeroOrMore=ZeroOrMore,
                   OneOrMore=OneOrMore, Optional=Optional)
    top = _pytypes.ModuleType('parsimonious')
    top.__path__ = []
    top.__verif_shim__ = True
    top.__dict__.update(Grammar=Grammar, NodeVisitor=NodeVisitor, rule=rule, **ns_exc)
    subs = {'exceptions': ns_exc, 'nodes': ns_nodes, 'expressions': ns_expr,
            'grammar': dict(Grammar=Grammar, **ns_exc)}
    sys.modules['parsimonious'] = top
    for sub, ns in subs.items():
        m = _pytypes.ModuleType('parsimonious.' + sub)
        m.__verif_shim__ = True
        m.__dict__.update(ns)
        sys.modules['parsimonious.' + sub] = m
        setattr(top, sub, m)
    return top


# ----------------------------------------------------------------------------------------------------------------
# environment preparation
# ----------------------------------------------------------------------------------------------------------------

EXTRA_STUBS = {'scipy'}          # what hostenv.STUB_ALLOW lacked for `import hail`
_prepared = False
IMPORT_TIME_S = None


def _prepare():
    global _prepared
    if _prepared:
        return
    _prepared = True
    hostenv.STUB_ALLOW |= EXTRA_STUBS
    already = hostenv._installed
    hostenv.install()
    if already:   # install() ran before our additions: do the "is it really installed?" probe ourselves
        for name in EXTRA_STUBS:
            try:
                if importlib.machinery.PathFinder.find_spec(name) is not None:
                    hostenv._REAL.add(name)
            except Exception:
                pass
    _install_parsimonious()


def resources_dir():
    return os.path.join(hostenv.REPO, 'hail', 'hail', 'resources')


def scala_source(relpath: str) -> str:
    """Text of a Scala source file under <repo>/hail/hail/src (honours VERIF_REPO through hostenv.REPO)."""
    p = os.path.join(hostenv.REPO, 'hail', 'hail', 'src', relpath)
    with open(p, encoding='utf-8') as f:
        return f.read()


_hl = None
_backend = None


def _make_backend_class():
    from hail.backend.backend import Backend
    from hail.builtin_references import BUILTIN_REFERENCE_RESOURCE_PATHS
    from hailtop.fs.fs import FS

    class LocalFS(FS):
        """Plain local-filesystem FS (no schemes)."""

        @staticmethod
        def _p(path):
            return path[7:] if path.startswith('file://') else path

        def open(self, path, mode='r', buffer_size=8192):
            path = self._p(path)
            if 'w' in mode or 'x' in mode or 'a' in mode:
                d = os.path.dirname(path)
                if d:
                    os.makedirs(d, exist_ok=True)
            if 'b' in mode:
                return io.open(path, mode, buffering=buffer_size)
            return io.open(path, mode, buffering=buffer_size, encoding='utf-8')

        def copy(self, src, dest):
            shutil.copyfile(self._p(src), self._p(dest))

        def exists(self, path):
            return os.path.exists(self._p(path))

        def is_file(self, path):
            return os.path.isfile(self._p(path))

        def is_dir(self, path):
            return os.path.isdir(self._p(path))

        def stat(self, path):
            raise EngineNeeded('FakeBackend.fs.stat')

        def ls(self, path):
            raise EngineNeeded('FakeBackend.fs.ls')

        def mkdir(self, path):
            os.makedirs(self._p(path), exist_ok=True)

        def remove(self, path):
            os.remove(self._p(path))

        def rmtree(self, path):
            shutil.rmtree(self._p(path), ignore_errors=True)

        def supports_scheme(self, scheme):
            return scheme in ('', 'file')

        def canonicalize_path(self, path):
            return os.path.abspath(self._p(path))

    class FakeBackend(Backend):
        """A Backend with everything the front end needs *except* an engine."""
        _is_service = False

        def __init__(self):
            super().__init__()
            self._flags = {}
            self._fs = LocalFS()
            self._local_tmpdir = None
            self._remote_tmpdir = None
            self._requester_pays = None
            self._logger = logging.getLogger('hail.fake')
            self._initialize_flags({})

        # --- engine entry points ---------------------------------------------------------------------------
        def _rpc(self, action, payload):
            raise EngineNeeded(f'FakeBackend cannot perform engine action {getattr(action, "name", action)}')

        def execute(self, ir, timed=False):
            raise EngineNeeded(f'FakeBackend cannot execute IR ({type(ir).__name__})')

        def validate_file(self, uri):
            pass

        def stop(self):
            super().stop()

        def persist_expression(self, expr):
            raise EngineNeeded('FakeBackend.persist_expression')

        def add_sequence(self, name, fasta_file, index_file):
            raise EngineNeeded('FakeBackend.add_sequence')

        def remove_sequence(self, name):
            raise EngineNeeded('FakeBackend.remove_sequence')

        def add_liftover(self, name, chain_file, dest_reference_genome):
            raise EngineNeeded('FakeBackend.add_liftover')

        def remove_liftover(self, name, dest_reference_genome):
            raise EngineNeeded('FakeBackend.remove_liftover')

        # --- references ------------------------------------------------------------------------------------
        def initialize_references(self):
            from hail.genetics.reference_genome import ReferenceGenome
            base = resources_dir()
            for name, rel in BUILTIN_REFERENCE_RESOURCE_PATHS.items():
                path = os.path.join(base, rel)
                if os.path.exists(path):
                    with open(path, encoding='utf-8') as f:
                        cfg = json.load(f)
                    rg = ReferenceGenome._from_config(cfg, _builtin=True)
                else:   # synthetic fallback through the public constructor
                    contigs = ['1', '2', 'X', 'Y', 'MT']
                    rg = ReferenceGenome(name, contigs, {c: 1000 * (i + 1) for i, c in enumerate(contigs)},
                                         'X', 'Y', 'MT', [('X', 10, 20)], _builtin=True)
                self._references[rg.name] = rg

        # --- flags / config --------------------------------------------------------------------------------
        def set_flags(self, **flags):
            unknown = set(flags) - set(self._valid_flags())
            if unknown:
                raise ValueError(f'unknown flags: {sorted(unknown)}')
            for k, v in flags.items():
                if v is None:
                    self._flags.pop(k, None)
                else:
                    self._flags[k] = v

        def get_flags(self, *flags):
            return {k: self._flags[k] for k in flags if k in self._flags}

        @property
        def logger(self):
            return self._logger

        @property
        def fs(self):
            return self._fs

        @property
        def requires_lowering(self):
            return False

        @property
        def local_tmpdir(self):
            if self._local_tmpdir is None:
                self._local_tmpdir = tempfile.mkdtemp(prefix='verif-hail-local-')
            return self._local_tmpdir

        @local_tmpdir.setter
        def local_tmpdir(self, d):
            self._local_tmpdir = d

        @property
        def remote_tmpdir(self):
            if self._remote_tmpdir is None:
                self._remote_tmpdir = tempfile.mkdtemp(prefix='verif-hail-remote-')
            return self._remote_tmpdir

        @remote_tmpdir.setter
        def remote_tmpdir(self, d):
            self._remote_tmpdir = d

        @property
        def requester_pays_config(self):
            return self._requester_pays

        @requester_pays_config.setter
        def requester_pays_config(self, c):
            self._requester_pays = c

    return FakeBackend


def init(default_reference: str = 'GRCh37'):
    """Import hail, register the FakeBackend through the real HailContext; return the `hail` module."""
    global _hl, _backend, IMPORT_TIME_S
    if _hl is not None:
        return _hl
    t0 = time.perf_counter()
    _prepare()
    import hail as hl
    from hail.context import HailContext
    from hail.utils.java import Env
    if Env._hc is None:
        backend = _make_backend_class()()
        HailContext.create(log=os.devnull, quiet=True, append=False, default_reference=default_reference,
                           global_seed=0, backend=backend)
        _backend = backend
    else:
        _backend = Env._hc._backend
    _hl = hl
    IMPORT_TIME_S = time.perf_counter() - t0
    return hl


def backend():
    init()
    return _backend


def ensure_reference(name: str, contigs=None):
    """Register (once) a small synthetic reference genome under an arbitrary name via the public constructor."""
    hl = init()
    b = backend()
    if name in b._references:
        return b._references[name]
    contigs = contigs or [('c1', 1), ('chr 2', 1000), ('X', 2 ** 31 - 1)]
    names = [c for c, _ in contigs]
    return hl.ReferenceGenome(name, names, dict(contigs), x_contigs=[c for c in names if c == 'X'])


# ----------------------------------------------------------------------------------------------------------------
# self-test
# ----------------------------------------------------------------------------------------------------------------

def selftest(verbose=False):
    hl = init()
    from hail.expr import type_parsing
    from hail.utils.java import Env
    assert getattr(sys.modules['parsimonious'], '__verif_shim__', False) or 'parsimonious' in hostenv._REAL
    assert isinstance(type_parsing.type_grammar, dict) and 'type' in type_parsing.type_grammar, 'grammar not built'
    prims = {'int32': hl.tint32, 'int64': hl.tint64, 'float32': hl.tfloat32, 'float64': hl.tfloat64, 'bool': hl.tbool,
             'str': hl.tstr, 'call': hl.tcall, 'int': hl.tint32, 'float': hl.tfloat64, 'tint32': hl.tint32,
             'tint64': hl.tint64, 'tfloat32': hl.tfloat32, 'tfloat64': hl.tfloat64, 'tbool': hl.tbool,
             'tstr': hl.tstr, 'tcall': hl.tcall, 'tint': hl.tint32, 'tfloat': hl.tfloat64, 'void': hl.tvoid,
             'tvoid': hl.tvoid}
    for s, t in prims.items():
        got = hl.dtype(s)
        assert got == t and type(got) is type(t), (s, got)
        assert hl.dtype(str(t)) == t
    nested = [
        hl.tarray(hl.tint32), hl.tset(hl.tstr), hl.tdict(hl.tstr, hl.tarray(hl.tfloat64)),
        hl.ttuple(), hl.ttuple(hl.tint32), hl.ttuple(hl.tint32, hl.tstr, hl.tcall), hl.tstruct(),
        hl.tstruct(a=hl.tint32), hl.tstruct(**{'a': hl.tint32, 'field with spaces': hl.tint64, '1kg': hl.tbool}),
        hl.tstruct(**{'b`t': hl.tstr, 'back\\slash': hl.tstr}),
        hl.tinterval(hl.tlocus('GRCh38')), hl.tlocus('GRCh37'), hl.tndarray(hl.tfloat64, 2), hl.tstream(hl.tint32),
        hl.tarray(hl.tstruct(x=hl.tdict(hl.ttuple(hl.tint32, hl.tstr), hl.tset(hl.tinterval(hl.tint64))))),
    ]
    for t in nested:
        back = hl.dtype(str(t))
        assert back == t, (str(t), back)
    assert hl.dtype(' array < int32 > ') == hl.tarray(hl.tint32)
    assert hl.dtype('struct{}') == hl.tstruct() and hl.dtype('tuple()') == hl.ttuple()
    assert hl.dtype('rng_state') == hl.expr.types.trngstate
    assert str(hl.dtype('?T:numeric')) == '?T:numeric'
    # error surface
    for bad in ('', 'int33', 'array<int32', 'struct{a int32}', 'int32 x'):
        try:
            hl.dtype(bad)
        except ParseError:
            pass
        else:
            raise AssertionError(f'dtype({bad!r}) did not raise ParseError')
    try:
        hl.dtype('locus<no_such_reference>')
    except VisitationError as e:
        assert e.original_class is KeyError
    else:
        raise AssertionError('visitor exception not wrapped in VisitationError')
    # parse-tree shape, checked against hand-computed parsimonious results
    g = Grammar(r'''
        top = a (b / c)* !"z" &d d?
        a = "a"
        b = ~"b+"i
        c = 'c' _
        d = ~r"[d-e]{2}"
        _ = ~r"\s*"
    ''')
    n = g.parse('aBbc  cde')
    assert n.expr_name == 'top' and [c.expr_name for c in n.children] == ['a', '', '', '', ''], n.prettily()
    star = n.children[1]
    assert [k.children[0].expr_name for k in star.children] == ['b', 'c', 'c']
    assert star.children[0].children[0].text == 'Bb' and star.children[0].children[0].match.group(0) == 'Bb'
    assert n.children[2].text == '' and n.children[3].text == '' and n.children[4].children[0].text == 'de'
    assert (n.start, n.end, n.text) == (0, 9, 'aBbc  cde')
    try:
        g.parse('azde')
    except ParseError:
        pass
    else:
        raise AssertionError
    try:
        Grammar('a = b')
    except UndefinedLabel:
        pass
    else:
        raise AssertionError
    # typecheck really runs through the decorator shim
    for bad_call in (lambda: hl.tarray(5), lambda: hl.tdict(hl.tint32), lambda: hl.tstruct(a=3),
                     lambda: hl.Interval(1, 2, includes_start='yes'), lambda: hl.tndarray(hl.tint32, 'x')):
        try:
            bad_call()
        except TypeError:
            pass
        else:
            raise AssertionError('typecheck did not reject an ill-typed argument')
    assert hl.tarray('int32') == hl.tarray(hl.tint32)            # transformed((str, dtype)) runs
    import inspect
    assert list(inspect.signature(hl.tdict.__init__).parameters) == ['self', 'key_type', 'value_type']
    # backend
    b = Env.backend()
    assert type(b).__name__ == 'FakeBackend' and hl.current_backend() is b
    for name in ('GRCh37', 'GRCh38', 'GRCm38', 'CanFam3'):
        rg = hl.get_reference(name)
        assert rg.name == name and len(rg.contigs) > 0
    assert hl.get_reference('GRCh37').contig_length('1') == 249250621
    assert hl.default_reference().name == 'GRCh37'
    rg = ensure_reference('verif selftest `rg`')
    assert hl.get_reference('verif selftest `rg`') is rg
    assert hl.dtype(str(hl.tlocus(rg))) == hl.tlocus(rg)
    assert b.get_flags('rng_nonce') and hl._get_flags('optimize') == {'optimize': '1'}
    assert b.fs.exists('/tmp') and not b._is_service and b.requires_lowering is False
    try:
        hl.eval(hl.literal(1) + 1)
    except EngineNeeded:
        pass
    else:
        raise AssertionError('evaluation did not raise EngineNeeded')
    assert init() is hl
    if verbose:
        print(f'hailenv selftest ok; init() took {IMPORT_TIME_S:.2f}s')
    return True


if __name__ == '__main__':
    selftest(verbose=True)
