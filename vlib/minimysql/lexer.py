"""Tokenizer for the MySQL subset, plus a DELIMITER-aware script splitter."""
from __future__ import annotations

from decimal import Decimal

from .errors import NotSupported, cond

PARAM_OPEN = '\x01'
PARAM_CLOSE = '\x02'

_OPS3 = ('<=>', '->>')
_OPS2 = ('<>', '!=', '<=', '>=', ':=', '->', '||', '&&', '<<', '>>')
_OPS1 = '+-*/%=<>(),.;!~^&|:'

_ESC = {'0': '\0', "'": "'", '"': '"', 'b': '\b', 'n': '\n', 'r': '\r', 't': '\t', 'Z': '\x1a', '\\': '\\',
        '%': '\\%', '_': '\\_'}


class Tok:
    __slots__ = ('k', 'v', 'pos', 'end', 'u')

    def __init__(self, k, v, pos, end):
        self.k = k          # 'id' | 'qid' | 'str' | 'num' | 'op' | 'uvar' | 'param' | 'eof'
        self.v = v
        self.pos = pos
        self.end = end
        self.u = v.upper() if k == 'id' else None

    def __repr__(self):
        return f'Tok({self.k},{self.v!r})'


def tokenize(sql: str) -> list[Tok]:
    toks: list[Tok] = []
    i, n = 0, len(sql)
    while i < n:
        c = sql[i]
        if c in ' \t\r\n\f\v':
            i += 1
            continue
        if c == '#' or (c == '-' and sql.startswith('--', i) and (i + 2 >= n or sql[i + 2] in ' \t\r\n')):
            j = sql.find('\n', i)
            i = n if j < 0 else j + 1
            continue
        if c == '/' and sql.startswith('/*', i):
            j = sql.find('*/', i + 2)
            if j < 0:
                raise cond(1064, 'unterminated comment')
            i = j + 2
            continue
        if c == PARAM_OPEN:
            j = sql.index(PARAM_CLOSE, i)
            toks.append(Tok('param', int(sql[i + 1:j]), i, j + 1))
            i = j + 1
            continue
        if c in '\'"':
            q = c
            j = i + 1
            buf = []
            while True:
                if j >= n:
                    raise cond(1064, f'unterminated string literal near {sql[i:i + 30]!r}')
                d = sql[j]
                if d == '\\':
                    if j + 1 >= n:
                        raise cond(1064, 'bad escape at end of input')
                    e = sql[j + 1]
                    buf.append(_ESC.get(e, e))
                    j += 2
                elif d == q:
                    if j + 1 < n and sql[j + 1] == q:
                        buf.append(q)
                        j += 2
                    else:
                        j += 1
                        break
                elif d == PARAM_OPEN:
                    raise NotSupported('parameter placeholder inside a quoted string literal')
                else:
                    buf.append(d)
                    j += 1
            toks.append(Tok('str', ''.join(buf), i, j))
            i = j
            continue
        if c == '`':
            j = i + 1
            buf = []
            while True:
                if j >= n:
                    raise cond(1064, 'unterminated quoted identifier')
                if sql[j] == '`':
                    if j + 1 < n and sql[j + 1] == '`':
                        buf.append('`')
                        j += 2
                        continue
                    j += 1
                    break
                buf.append(sql[j])
                j += 1
            toks.append(Tok('qid', ''.join(buf), i, j))
            i = j
            continue
        if c.isdigit() or (c == '.' and i + 1 < n and sql[i + 1].isdigit()):
            j = i
            while j < n and sql[j].isdigit():
                j += 1
            isf = False
            isd = False
            if j < n and sql[j] == '.':
                isd = True
                j += 1
                while j < n and sql[j].isdigit():
                    j += 1
            if j < n and sql[j] in 'eE':
                k = j + 1
                if k < n and sql[k] in '+-':
                    k += 1
                if k < n and sql[k].isdigit():
                    isf = True
                    j = k
                    while j < n and sql[j].isdigit():
                        j += 1
            text = sql[i:j]
            if j < n and (sql[j].isalpha() or sql[j] == '_') and not isd and not isf:
                # identifier starting with digits (e.g. 0900) - not used by the repo
                raise NotSupported(f'identifier starting with a digit near {sql[i:i + 20]!r}')
            if isf:
                v = float(text)
            elif isd:
                v = Decimal(text)
            else:
                v = int(text)
            toks.append(Tok('num', v, i, j))
            i = j
            continue
        if c == '@':
            j = i + 1
            if j < n and sql[j] == '@':
                # system variable @@x
                j += 1
                k = j
                while k < n and (sql[k].isalnum() or sql[k] in '_.$'):
                    k += 1
                toks.append(Tok('sysvar', sql[j:k].lower(), i, k))
                i = k
                continue
            if j < n and sql[j] in '`\'"':
                q = sql[j]
                k = sql.index(q, j + 1)
                toks.append(Tok('uvar', sql[j + 1:k].lower(), i, k + 1))
                i = k + 1
                continue
            k = j
            while k < n and (sql[k].isalnum() or sql[k] in '_.$'):
                k += 1
            toks.append(Tok('uvar', sql[j:k].lower(), i, k))
            i = k
            continue
        if c.isalpha() or c == '_' or c == '$' or ord(c) > 127:
            j = i + 1
            while j < n and (sql[j].isalnum() or sql[j] in '_$' or ord(sql[j]) > 127):
                j += 1
            toks.append(Tok('id', sql[i:j], i, j))
            i = j
            continue
        t3 = sql[i:i + 3]
        if t3 in _OPS3:
            toks.append(Tok('op', t3, i, i + 3))
            i += 3
            continue
        t2 = sql[i:i + 2]
        if t2 in _OPS2:
            toks.append(Tok('op', t2, i, i + 2))
            i += 2
            continue
        if c in _OPS1:
            toks.append(Tok('op', c, i, i + 1))
            i += 1
            continue
        raise cond(1064, f'unexpected character {c!r} at offset {i}: {sql[max(0, i - 20):i + 20]!r}')
    toks.append(Tok('eof', None, n, n))
    return toks


def split_script(text: str) -> list[str]:
    """Split a mysql-client style script into statements, honouring ``DELIMITER xx`` lines, quotes and comments."""
    out: list[str] = []
    delim = ';'
    i, n = 0, len(text)
    start = 0
    at_line_start = True

    def flush(end):
        s = text[start:end].strip()
        if s:
            out.append(s)

    while i < n:
        c = text[i]
        if at_line_start:
            # DELIMITER directive must start a line (possibly after whitespace) while no statement is pending
            j = i
            while j < n and text[j] in ' \t':
                j += 1
            if text[j:j + 9].upper() == 'DELIMITER' and j + 9 < n and text[j + 9] in ' \t' \
                    and not text[start:i].strip():
                k = text.find('\n', j)
                if k < 0:
                    k = n
                delim = text[j + 9:k].strip()
                i = k + 1
                start = i
                at_line_start = True
                continue
        at_line_start = False
        if c == '\n':
            at_line_start = True
            i += 1
            continue
        if c == '#' or (c == '-' and text.startswith('-- ', i)) or (c == '-' and text.startswith('--\n', i)):
            k = text.find('\n', i)
            i = n if k < 0 else k
            continue
        if c == '/' and text.startswith('/*', i):
            k = text.find('*/', i + 2)
            i = n if k < 0 else k + 2
            continue
        if c in '\'"`':
            q = c
            j = i + 1
            while j < n:
                if text[j] == '\\' and q != '`':
                    j += 2
                    continue
                if text[j] == q:
                    if j + 1 < n and text[j + 1] == q:
                        j += 2
                        continue
                    break
                j += 1
            i = j + 1
            continue
        if text.startswith(delim, i):
            flush(i)
            i += len(delim)
            start = i
            continue
        i += 1
    flush(n)
    return out
