"""Exception types.  The fake ``pymysql.err`` module re-exports exactly these classes, so the engine can
raise them whether or not the driver facade has been installed."""


class NotSupported(Exception):
    """Raised for any SQL construct outside the implemented dialect subset (never silently approximated)."""


class MySQLError(Exception):
    pass


class Warning(MySQLError):  # noqa: A001 (pymysql names it so)
    pass


class Error(MySQLError):
    pass


class InterfaceError(Error):
    pass


class DatabaseError(Error):
    pass


class DataError(DatabaseError):
    pass


class OperationalError(DatabaseError):
    pass


class IntegrityError(DatabaseError):
    pass


class InternalError(DatabaseError):
    pass


class ProgrammingError(DatabaseError):
    pass


class NotSupportedError(DatabaseError):
    pass


# error code -> class, following pymysql.err.error_map
_ERROR_CLASS = {}
for _codes, _cls in (
    ((1007, 1008, 1049, 1050, 1051, 1054, 1060, 1061, 1064, 1091, 1146, 1149, 1305, 1318, 1327, 1052, 1415, 1422, 1109),
     ProgrammingError),
    ((1263, 1264, 1265, 1366, 1406, 1292, 1367, 1441, 1690, 3158, 3140, 3141), DataError),
    ((1022, 1048, 1062, 1169, 1216, 1217, 1451, 1452, 1364, 1557, 1586), IntegrityError),
    ((1235, 1289), NotSupportedError),
    ((1040, 1205, 1213, 2003, 2013, 1172, 1242, 1644, 1329, 1241, 1326, 1325, 1136, 1792, 1414, 1318), OperationalError),
):
    for _c in _codes:
        _ERROR_CLASS.setdefault(_c, _cls)
# pymysql maps 1364 (no default) to IntegrityError via ER.NO_DEFAULT_FOR_FIELD; keep as is.


def make_error(code: int, message: str) -> DatabaseError:
    cls = _ERROR_CLASS.get(code)
    if cls is None:
        cls = InternalError if code < 1000 else OperationalError
    return cls(code, message)


class SqlCondition(Exception):
    """Internal: an SQL condition travelling through routine handlers.  Converted to a pymysql error at the
    statement boundary."""

    def __init__(self, code: int, sqlstate: str, message: str):
        super().__init__(code, sqlstate, message)
        self.code = code
        self.sqlstate = sqlstate
        self.message = message

    def to_error(self):
        return make_error(self.code, self.message)


_SQLSTATE = {
    1062: '23000', 1048: '23000', 1452: '23000', 1451: '23000', 1364: 'HY000', 1172: '42000', 1242: '21000',
    1644: '45000', 1329: '02000', 1054: '42S22', 1146: '42S02', 1052: '23000', 1265: '01000', 1406: '22001',
    1366: 'HY000', 1264: '22003', 1305: '42000', 1318: '42000', 1136: '21S01', 1241: '21000', 1292: '22007',
    1422: 'HY000', 3158: '22032', 1690: '22003', 1205: 'HY000', 1213: '40001',
}


def cond(code: int, message: str, sqlstate: str | None = None) -> SqlCondition:
    return SqlCondition(code, sqlstate or _SQLSTATE.get(code, 'HY000'), message)
