"""Exception types.  The fake ``pymysql.err`` module re-exports exactly these classes, so the engine can
raise them whether or not the driver facade has been installed."""


class NotSupported(Exception):
    """Raised for any SQL construct outside the implemented dialect subset (never silently approximated)."""


class MySQLError(Exception):
    pass


class Warning(MySQLError):  # noqa: A001 (pymysql names it so)
    pass


class Error(MySQLError):
    pass


class InterfaceError(Error):
    pass


class DatabaseError(Error):
    pass


class DataError(DatabaseError):
    pass


class OperationalError(DatabaseError):
    pass


class IntegrityError(DatabaseError):
    pass


class InternalError(DatabaseError):
    pass


class ProgrammingError(DatabaseError):
    pass


class NotSupportedError(DatabaseError):
    pass


# error code -> class: exactly pymysql 1.1.x `pymysql.err.error_map`; unlisted codes are InternalError below 1000
# and OperationalError otherwise (so e.g. 1054, 1172, 1242, 1364, 1644 are OperationalError).
_ERROR_CLASS = {}
for _codes, _cls in (
    ((1007, 1149, 1064, 1146, 1102, 1103, 1110, 1111, 1112, 1113, 1179, 1166), ProgrammingError),
    ((1265, 1263, 1264, 1230, 1171, 1406, 1441, 1366, 1367), DataError),
    ((1062, 1216, 1452, 1217, 1451, 1215, 1048), IntegrityError),
    ((1196, 1235, 1289, 1286), NotSupportedError),
    ((1044, 1045, 1040, 1142, 1143, 4025, 1213), OperationalError),
):
    for _c in _codes:
        _ERROR_CLASS[_c] = _cls


def make_error(code: int, message: str) -> DatabaseError:
    cls = _ERROR_CLASS.get(code)
    if cls is None:
        cls = InternalError if code < 1000 else OperationalError
    return cls(code, message)


class SqlCondition(Exception):
    """Internal: an SQL condition travelling through routine handlers.  Converted to a pymysql error at the
    statement boundary."""

    def __init__(self, code: int, sqlstate: str, message: str):
        super().__init__(code, sqlstate, message)
        self.code = code
        self.sqlstate = sqlstate
        self.message = message

    def to_error(self):
        return make_error(self.code, self.message)


_SQLSTATE = {
    1062: '23000', 1048: '23000', 1452: '23000', 1451: '23000', 1364: 'HY000', 1172: '42000', 1242: '21000',
    1644: '45000', 1329: '02000', 1054: '42S22', 1146: '42S02', 1052: '23000', 1265: '01000', 1406: '22001',
    1366: 'HY000', 1264: '22003', 1305: '42000', 1318: '42000', 1136: '21S01', 1241: '21000', 1292: '22007',
    1422: 'HY000', 3158: '22032', 1690: '22003', 1205: 'HY000', 1213: '40001',
}


def cond(code: int, message: str, sqlstate: str | None = None) -> SqlCondition:
    return SqlCondition(code, sqlstate or _SQLSTATE.get(code, 'HY000'), message)
