"""Value model: NULL=None, integers=int (booleans are 0/1 ints), DECIMAL=decimal.Decimal, DOUBLE=float,
strings=str, binary=bytes, DATE=datetime.date, DATETIME/TIMESTAMP=datetime.datetime."""
from __future__ import annotations

import datetime
import json
import math
import re
import unicodedata
from decimal import ROUND_HALF_UP, Decimal, InvalidOperation

from .errors import NotSupported, cond

_NUM_PREFIX = re.compile(r'\s*[-+]?(\d+\.?\d*([eE][-+]?\d+)?|\.\d+([eE][-+]?\d+)?)')
_INT_RE = re.compile(r'\s*[-+]?\d+\s*$')
_NUM_RE = re.compile(r'\s*[-+]?(\d+\.?\d*([eE][-+]?\d+)?|\.\d+([eE][-+]?\d+)?)\s*$')

_ci_cache: dict = {}


def ci_key(s: str) -> str:
    """Collation key for utf8mb4_0900_ai_ci (accent- and case-insensitive, NO PAD)."""
    k = _ci_cache.get(s)
    if k is None:
        if s.isascii():
            k = s.lower()
        else:
            k = ''.join(c for c in unicodedata.normalize('NFD', s) if not unicodedata.combining(c)).casefold()
        if len(_ci_cache) > 50000:
            _ci_cache.clear()
        _ci_cache[s] = k
    return k


def str_to_number(s: str):
    """MySQL string->number conversion in numeric context (leading numeric prefix, else 0)."""
    if _INT_RE.match(s):
        return int(s)
    m = _NUM_PREFIX.match(s)
    if not m:
        return 0
    t = m.group(0).strip()
    try:
        f = float(t)
    except ValueError:
        return 0
    return f


def unjson(v):
    """JsonDoc -> SQL scalar (JSON scalars) or JSON text (containers)."""
    o = v.obj
    if o is None:
        return 'null'
    if o is True or o is False:
        return 'true' if o else 'false'
    if isinstance(o, (int, float, Decimal, str)):
        return o
    return json_dumps(o)


def to_number(v):
    if v is None or isinstance(v, (int, float, Decimal)):
        return v
    if v.__class__ is JsonDoc:
        return to_number(unjson(v))
    if isinstance(v, str):
        return str_to_number(v)
    if isinstance(v, bytes):
        return str_to_number(v.decode('utf-8', 'replace'))
    if isinstance(v, datetime.datetime):
        return int(v.strftime('%Y%m%d%H%M%S'))
    if isinstance(v, datetime.date):
        return int(v.strftime('%Y%m%d'))
    raise NotSupported(f'numeric conversion of {type(v).__name__}')


def truth(v):
    """-> True / False / None (SQL three-valued)."""
    if v is None:
        return None
    if isinstance(v, (int, float, Decimal)):
        return v != 0
    return to_number(v) != 0


def parse_date(s: str):
    s = s.strip()
    m = re.match(r'^(\d{4})-(\d{1,2})-(\d{1,2})$', s)
    if m:
        try:
            return datetime.date(int(m.group(1)), int(m.group(2)), int(m.group(3)))
        except ValueError:
            return None
    m = re.match(r'^(\d{4})(\d{2})(\d{2})$', s)
    if m:
        try:
            return datetime.date(int(m.group(1)), int(m.group(2)), int(m.group(3)))
        except ValueError:
            return None
    dt = parse_datetime(s)
    if dt is not None and ' ' in s or 'T' in s:
        return dt.date() if dt else None
    return None


def parse_datetime(s: str):
    s = s.strip()
    m = re.match(r'^(\d{4})-(\d{1,2})-(\d{1,2})(?:[ T](\d{1,2}):(\d{1,2})(?::(\d{1,2})(?:\.(\d{1,6}))?)?)?$', s)
    if not m:
        return None
    try:
        us = int((m.group(7) or '0').ljust(6, '0'))
        return datetime.datetime(int(m.group(1)), int(m.group(2)), int(m.group(3)), int(m.group(4) or 0),
                                 int(m.group(5) or 0), int(m.group(6) or 0), us)
    except ValueError:
        return None


def compare(a, b, cs=False):
    """-> -1/0/1, or None when either side is NULL.  `cs`: use binary (case-sensitive) string comparison."""
    if a is None or b is None:
        return None
    ta, tb = type(a), type(b)
    if ta is int and tb is int:
        return -1 if a < b else (1 if a > b else 0)
    if ta is str and tb is str:
        if not cs:
            a, b = ci_key(a), ci_key(b)
        return -1 if a < b else (1 if a > b else 0)
    an = isinstance(a, (int, float, Decimal))
    bn = isinstance(b, (int, float, Decimal))
    if an and bn:
        return -1 if a < b else (1 if a > b else 0)
    if ta is JsonDoc or tb is JsonDoc:
        return compare(unjson(a) if ta is JsonDoc else a, unjson(b) if tb is JsonDoc else b, cs)
    if isinstance(a, datetime.date) or isinstance(b, datetime.date):
        return _cmp_temporal(a, b)
    if isinstance(a, bytes) or isinstance(b, bytes):
        if isinstance(a, str):
            a = a.encode()
        if isinstance(b, str):
            b = b.encode()
        if isinstance(a, bytes) and isinstance(b, bytes):
            return -1 if a < b else (1 if a > b else 0)
    # number vs string: compare as numbers (MySQL compares as double)
    x, y = to_number(a), to_number(b)
    if isinstance(x, Decimal) and isinstance(y, float):
        x = float(x)
    if isinstance(y, Decimal) and isinstance(x, float):
        y = float(y)
    return -1 if x < y else (1 if x > y else 0)


def _cmp_temporal(a, b):
    def conv(v, other):
        if isinstance(v, datetime.datetime):
            return v
        if isinstance(v, datetime.date):
            return datetime.datetime(v.year, v.month, v.day)
        if isinstance(v, str):
            d = parse_datetime(v)
            if d is None:
                raise cond(1292, f"Incorrect DATE value: '{v}'")
            return d
        if isinstance(v, int):
            d = parse_datetime(f'{v:08d}'[:4] + '-' + f'{v:08d}'[4:6] + '-' + f'{v:08d}'[6:8])
            if d is None:
                raise cond(1292, f"Incorrect DATE value: '{v}'")
            return d
        raise NotSupported(f'comparison of temporal with {type(v).__name__}')
    x, y = conv(a, b), conv(b, a)
    return -1 if x < y else (1 if x > y else 0)


def group_key(v, cs=False):
    """Hashable key identifying `v` for GROUP BY / DISTINCT / UNION (collation aware)."""
    if type(v) is str:
        return v if cs else ci_key(v)
    if isinstance(v, Decimal):
        return v.normalize() if v == v.to_integral_value() else v
    if isinstance(v, float) and v == int(v) and abs(v) < 2 ** 53:
        return int(v)
    return v


class _NullFirst:
    __slots__ = ()

    def __lt__(self, other):
        return True

    def __gt__(self, other):
        return False

    def __eq__(self, other):
        return isinstance(other, _NullFirst)

    def __hash__(self):
        return 0


def sort_key(v, cs=False):
    """Key usable in list.sort: NULLs first; strings by collation; everything numeric comparable."""
    if v is None:
        return (0, 0)
    if type(v) is str:
        return (1, v if cs else ci_key(v))
    if isinstance(v, (int, float, Decimal)):
        return (1, v)
    if isinstance(v, datetime.datetime):
        return (1, v)
    if isinstance(v, datetime.date):
        return (1, datetime.datetime(v.year, v.month, v.day))
    if isinstance(v, bytes):
        return (1, v)
    return (1, str(v))


# ---------------------------------------------------------------- arithmetic
def _dec(v):
    if isinstance(v, Decimal):
        return v
    if isinstance(v, int):
        return Decimal(v)
    return Decimal(repr(v))


def arith(op, a, b):
    if a is None or b is None:
        return None
    if type(a) is int and type(b) is int:
        if op == '+':
            return a + b
        if op == '-':
            return a - b
        if op == '*':
            return a * b
    else:
        a, b = to_number(a), to_number(b)
    fa, fb = isinstance(a, float), isinstance(b, float)
    if fa or fb:
        a, b = float(a), float(b)
        if op == '+':
            return a + b
        if op == '-':
            return a - b
        if op == '*':
            return a * b
        if op == '/':
            return None if b == 0 else a / b
        if op == '%':
            return None if b == 0 else math.fmod(a, b)
        if op == 'DIV':
            if b == 0:
                return None
            return int(Decimal(repr(a)) / Decimal(repr(b)))
    if op == '+':
        return a + b
    if op == '-':
        return a - b
    if op == '*':
        return a * b
    if op == '/':
        if b == 0:
            return None
        da, db = _dec(a), _dec(b)
        scale = max(0, -da.as_tuple().exponent) + 4
        return (da / db).quantize(Decimal(1).scaleb(-scale), rounding=ROUND_HALF_UP)
    if op == 'DIV':
        if b == 0:
            return None
        if type(a) is int and type(b) is int:
            q = abs(a) // abs(b)
            return q if (a >= 0) == (b >= 0) else -q
        return int(_dec(a) / _dec(b))
    if op == '%':
        if b == 0:
            return None
        if type(a) is int and type(b) is int:
            r = abs(a) % abs(b)
            return r if a >= 0 else -r
        da, db = _dec(a), _dec(b)
        return da - db * int(da / db)
    if op in ('&', '|', '^', '<<', '>>'):
        x, y = int(a), int(b)
        m = (1 << 64) - 1
        if op == '&':
            return (x & y) & m
        if op == '|':
            return (x | y) & m
        if op == '^':
            return (x ^ y) & m
        if op == '<<':
            return (x << y) & m if y < 64 else 0
        return ((x & m) >> y) if y < 64 else 0
    raise NotSupported(f'operator {op}')


def negate(v):
    if v is None:
        return None
    v = to_number(v)
    return -v


# ---------------------------------------------------------------- formatting / casts
def fmt_float(f: float) -> str:
    if f == int(f) and abs(f) < 1e15:
        return str(int(f))
    r = repr(f)
    if 'e' in r:
        m, e = r.split('e')
        return f'{m}e{int(e)}'
    return r


def to_str(v):
    if v is None:
        return None
    if type(v) is str:
        return v
    if isinstance(v, bool):
        return '1' if v else '0'
    if isinstance(v, int):
        return str(v)
    if isinstance(v, float):
        return fmt_float(v)
    if isinstance(v, Decimal):
        return format(v, 'f')
    if isinstance(v, bytes):
        return v.decode('utf-8', 'replace')
    if isinstance(v, datetime.datetime):
        return v.strftime('%Y-%m-%d %H:%M:%S') + (f'.{v.microsecond:06d}' if v.microsecond else '')
    if isinstance(v, datetime.date):
        return v.isoformat()
    if v.__class__ is JsonDoc:
        return json_dumps(v.obj)
    raise NotSupported(f'string conversion of {type(v).__name__}')


def round_half_away(x) -> int:
    if isinstance(x, int):
        return x
    if isinstance(x, Decimal):
        return int(x.quantize(Decimal(1), rounding=ROUND_HALF_UP))
    if x != x or x in (float('inf'), float('-inf')):
        raise cond(1264, 'Out of range value')
    return int(math.floor(x + 0.5)) if x >= 0 else -int(math.floor(-x + 0.5))


def cast_signed(v, unsigned=False):
    if v is None:
        return None
    if v.__class__ is JsonDoc:
        v = unjson(v)
    if isinstance(v, str):
        m = re.match(r'\s*[-+]?\d+', v)
        n = int(m.group(0)) if m else 0
    elif isinstance(v, bytes):
        return cast_signed(v.decode('utf-8', 'replace'), unsigned)
    elif isinstance(v, (datetime.date, datetime.datetime)):
        n = to_number(v)
    else:
        n = round_half_away(v)
    if unsigned:
        if n < 0:
            n += 1 << 64
    return n


_INT_RANGE = {1: 127, 2: 32767, 3: 8388607, 4: 2147483647, 8: 9223372036854775807}


def coerce(v, ty, what='column', name='?'):
    """Convert `v` for storage into a column/variable of type `ty` (STRICT_TRANS_TABLES semantics)."""
    if v is None or ty is None:
        return v
    base = ty.base
    if base == 'int':
        if type(v) is not int:
            if isinstance(v, bool):
                v = int(v)
            elif isinstance(v, (float, Decimal)):
                v = round_half_away(v)
            elif isinstance(v, (str, bytes)):
                s = v.decode('utf-8', 'replace') if isinstance(v, bytes) else v
                if not _NUM_RE.match(s):
                    raise cond(1366, f"Incorrect integer value: '{s}' for {what} '{name}' at row 1")
                v = round_half_away(Decimal(s.strip())) if not _INT_RE.match(s) else int(s)
            elif isinstance(v, (datetime.date, datetime.datetime)):
                v = to_number(v)
            else:
                raise NotSupported(f'store {type(v).__name__} into integer')
        mx = _INT_RANGE.get(ty.length or 4, 2147483647)
        lo, hi = (0, 2 * mx + 1) if ty.unsigned else (-mx - 1, mx)
        if v < lo or v > hi:
            raise cond(1264, f"Out of range value for {what} '{name}' at row 1")
        return v
    if base in ('char', 'text'):
        if type(v) is not str:
            v = to_str(v)
        if ty.length is not None:
            if base == 'char':
                if len(v) > ty.length:
                    raise cond(1406, f"Data too long for {what} '{name}' at row 1")
            elif len(v) > ty.length and len(v.encode('utf-8')) > ty.length:
                raise cond(1406, f"Data too long for {what} '{name}' at row 1")
        return v
    if base == 'double':
        if isinstance(v, float):
            return v
        if isinstance(v, (int, Decimal)):
            return float(v)
        if isinstance(v, (str, bytes)):
            s = v.decode('utf-8', 'replace') if isinstance(v, bytes) else v
            if not _NUM_RE.match(s):
                raise cond(1265, f"Data truncated for {what} '{name}' at row 1")
            return float(s)
        raise NotSupported(f'store {type(v).__name__} into double')
    if base == 'decimal':
        try:
            d = v if isinstance(v, Decimal) else (Decimal(v) if isinstance(v, int) else
                                                  Decimal(repr(v)) if isinstance(v, float) else Decimal(to_str(v).strip()))
        except InvalidOperation:
            raise cond(1366, f"Incorrect decimal value: '{v}' for {what} '{name}' at row 1")
        d = d.quantize(Decimal(1).scaleb(-(ty.scale or 0)), rounding=ROUND_HALF_UP)
        if len(d.as_tuple().digits) > (ty.length or 10) and d != 0:
            raise cond(1264, f"Out of range value for {what} '{name}' at row 1")
        return d
    if base == 'enum':
        if isinstance(v, int) and not isinstance(v, bool):
            if 1 <= v <= len(ty.enum):
                return ty.enum[v - 1]
            raise cond(1265, f"Data truncated for {what} '{name}' at row 1")
        s = to_str(v)
        k = ci_key(s)
        for e in ty.enum:
            if ci_key(e) == k:
                return e
        raise cond(1265, f"Data truncated for {what} '{name}' at row 1")
    if base == 'blob':
        if isinstance(v, bytes):
            return v
        return to_str(v).encode('utf-8')
    if base == 'date':
        if isinstance(v, datetime.datetime):
            return v.date()
        if isinstance(v, datetime.date):
            return v
        if isinstance(v, str):
            d = parse_date(v)
            if d is None:
                raise cond(1292, f"Incorrect date value: '{v}' for {what} '{name}' at row 1")
            return d
        if isinstance(v, int):
            d = parse_date(f'{v:08d}')
            if d is None:
                raise cond(1292, f"Incorrect date value: '{v}' for {what} '{name}' at row 1")
            return d
        raise NotSupported(f'store {type(v).__name__} into DATE')
    if base == 'datetime':
        if isinstance(v, datetime.datetime):
            return v
        if isinstance(v, datetime.date):
            return datetime.datetime(v.year, v.month, v.day)
        if isinstance(v, str):
            d = parse_datetime(v)
            if d is None:
                raise cond(1292, f"Incorrect datetime value: '{v}' for {what} '{name}' at row 1")
            return d
        raise NotSupported(f'store {type(v).__name__} into DATETIME')
    if base == 'json':
        s = to_str(v)
        try:
            json.loads(s)
        except ValueError:
            raise cond(3140, f"Invalid JSON text for {what} '{name}'")
        return s
    raise NotSupported(f'type {base}')


def cast(v, ty):
    """CAST(v AS ty)."""
    if v is None:
        return None
    base = ty.base
    if base == 'int':
        return cast_signed(v, ty.unsigned)
    if base == 'char':
        s = to_str(v)
        return s[:ty.length] if ty.length is not None else s
    if base == 'blob':
        return v if isinstance(v, bytes) else to_str(v).encode()
    if base == 'date':
        if isinstance(v, datetime.datetime):
            return v.date()
        if isinstance(v, datetime.date):
            return v
        if isinstance(v, str):
            return parse_date(v)
        if isinstance(v, int):
            return parse_date(f'{v:08d}')
        return None
    if base == 'datetime':
        if isinstance(v, datetime.datetime):
            return v
        if isinstance(v, datetime.date):
            return datetime.datetime(v.year, v.month, v.day)
        if isinstance(v, str):
            return parse_datetime(v)
        return None
    if base == 'decimal':
        try:
            return coerce(v if not isinstance(v, str) else str_to_number(v), ty)
        except Exception:
            raise
    if base == 'double':
        return float(to_number(v))
    if base == 'json':
        raise NotSupported('CAST AS JSON')
    raise NotSupported(f'CAST AS {base}')


# ---------------------------------------------------------------- JSON helpers
def json_value_of(v):
    """SQL value -> python object to embed in a JSON document."""
    if v is None:
        return None
    if isinstance(v, bool):
        return int(v)
    if isinstance(v, (int, float, str)):
        return v
    if isinstance(v, Decimal):
        return v
    if isinstance(v, (datetime.date, datetime.datetime)):
        return to_str(v)
    if isinstance(v, bytes):
        raise NotSupported('binary value in JSON')
    if isinstance(v, JsonDoc):
        return v.obj
    return v


class JsonDoc:
    """Marker wrapper for values of JSON type flowing between JSON functions."""
    __slots__ = ('obj',)

    def __init__(self, obj):
        self.obj = obj


def _mysql_key_order(k):
    b = k.encode('utf-8')
    return (len(b), b)


def json_dumps(obj) -> str:
    """Serialise like MySQL prints JSON: ', ' and ': ' separators, object keys ordered by (length, bytes)."""
    if obj is None:
        return 'null'
    if obj is True:
        return 'true'
    if obj is False:
        return 'false'
    if isinstance(obj, str):
        return json.dumps(obj, ensure_ascii=False)
    if isinstance(obj, int):
        return str(obj)
    if isinstance(obj, float):
        return repr(obj)
    if isinstance(obj, Decimal):
        return format(obj, 'f')
    if isinstance(obj, dict):
        return '{' + ', '.join(f'{json.dumps(k, ensure_ascii=False)}: {json_dumps(obj[k])}'
                               for k in sorted(obj, key=_mysql_key_order)) + '}'
    if isinstance(obj, (list, tuple)):
        return '[' + ', '.join(json_dumps(x) for x in obj) + ']'
    raise NotSupported(f'JSON serialisation of {type(obj).__name__}')


def json_parse(v):
    if isinstance(v, JsonDoc):
        return v.obj
    if v is None:
        return None
    try:
        return json.loads(to_str(v))
    except ValueError:
        raise cond(3141, 'Invalid JSON text in argument 1 to function')


def json_path_get(doc, path: str):
    """Very small JSON path subset: $, .key, ."key", [n]."""
    if not path.startswith('$'):
        raise cond(3143, 'Invalid JSON path expression')
    i, n = 1, len(path)
    cur = doc
    while i < n:
        c = path[i]
        if c == '.':
            i += 1
            if i < n and path[i] == '"':
                j = path.index('"', i + 1)
                key = path[i + 1:j]
                i = j + 1
            else:
                j = i
                while j < n and (path[j].isalnum() or path[j] in '_$'):
                    j += 1
                if j == i:
                    raise NotSupported(f'JSON path {path!r}')
                key = path[i:j]
                i = j
            if not isinstance(cur, dict) or key not in cur:
                return _MISSING
            cur = cur[key]
        elif c == '[':
            j = path.index(']', i)
            idx = path[i + 1:j].strip()
            if not idx.isdigit():
                raise NotSupported(f'JSON path {path!r}')
            idx = int(idx)
            i = j + 1
            if isinstance(cur, list):
                if idx >= len(cur):
                    return _MISSING
                cur = cur[idx]
            else:
                if idx != 0:
                    return _MISSING
        else:
            raise NotSupported(f'JSON path {path!r}')
    return cur


_MISSING = object()
