"""Self-test for minimysql.   cd /verif && PYTHONPATH=/verif /venv/bin/python -m vlib.minimysql.selftest

1. semantic unit tests (each cites the MySQL 8.0 Reference Manual behaviour it pins down)
2. Batch schema loads; every routine/trigger of the migration chain parses
3. smoke scenario through the real gear.database.Database on top of the fake aiomysql
4. the audit queries of batch/driver/main.py (check_incremental, check_resource_aggregation) run
"""
from __future__ import annotations

import ast
import asyncio
import json
import sys
import time
import traceback
from decimal import Decimal

from . import Engine, NotSupported, driver, errors, schema
from .engine import dict_rows

REPO = '/repo'
_results = []


def test(fn):
    _results.append(fn)
    return fn


def new():
    e = Engine()
    return e, e.connect()


def raises(exc, code, f, *a):
    try:
        f(*a)
    except exc as e:
        assert e.args[0] == code, f'expected error {code}, got {e.args}'
        return e
    raise AssertionError(f'expected {exc.__name__}({code})')


def one(s, sql, args=None):
    rows = s.query(sql, args)
    assert len(rows) == 1, rows
    return rows[0]


def val(s, sql, args=None):
    return list(one(s, sql, args).values())[0]


# ====================================================================== 1. semantics
@test
def t_three_valued_logic():
    # Manual 14.4.3 "Logical Operators": NULL AND 0 = 0, NULL AND 1 = NULL, NULL OR 1 = 1, NOT NULL = NULL.
    e, s = new()
    r = one(s, 'SELECT NULL AND 0 a, NULL AND 1 b, NULL OR 1 c, NULL OR 0 d, NOT NULL e, 1 XOR NULL f, NULL = NULL g, '
               'NULL <=> NULL h, 1 <=> NULL i, NULL IS NULL j, 1 + NULL k')
    assert r == {'a': 0, 'b': None, 'c': 1, 'd': None, 'e': None, 'f': None, 'g': None, 'h': 1, 'i': 0, 'j': 1,
                 'k': None}, r


@test
def t_greatest_least_coalesce():
    # Manual 14.4.2: "GREATEST()/LEAST() return NULL if any argument is NULL" (8.0 behaviour).
    e, s = new()
    r = one(s, 'SELECT GREATEST(1, NULL, 3) a, LEAST(NULL, 2) b, GREATEST(2, 7, 3) c, LEAST(2, 7, 3) d, '
               'COALESCE(NULL, NULL, 4) e, IFNULL(NULL, 5) f, IFNULL(6, 5) g, NULLIF(1, 1) h, NULLIF(1, 2) i, '
               "IF(NULL, 'y', 'n') j, GREATEST(COALESCE(NULL - 5, 0), 0) k")
    assert r == {'a': None, 'b': None, 'c': 7, 'd': 2, 'e': 4, 'f': 5, 'g': 6, 'h': None, 'i': 1, 'j': 'n', 'k': 0}, r


@test
def t_in_with_nulls():
    # Manual 14.4.2 IN(): "returns NULL if the expression on the left is NULL, or no match is found and one of the
    # expressions in the list is NULL"; NOT IN follows (NOT NULL = NULL).
    e, s = new()
    r = one(s, 'SELECT 1 IN (1, NULL) a, 2 IN (1, NULL) b, 2 NOT IN (1, NULL) c, 2 NOT IN (1, 3) d, NULL IN (1) e, '
               '(1, 2) IN ((1, 2), (3, 4)) f, 2 BETWEEN 1 AND 3 g, 2 NOT BETWEEN 1 AND NULL h')
    assert r == {'a': 1, 'b': None, 'c': None, 'd': 1, 'e': None, 'f': 1, 'g': 1, 'h': None}, r
    s.execute('CREATE TABLE t (a INT)')
    s.execute('INSERT INTO t VALUES (1), (NULL)')
    assert val(s, 'SELECT 2 NOT IN (SELECT a FROM t)') is None
    assert val(s, 'SELECT 1 IN (SELECT a FROM t)') == 1
    assert s.query('SELECT a FROM t WHERE a NOT IN (SELECT a FROM t WHERE a IS NULL)') == []


@test
def t_aggregates_and_nulls():
    # Manual 14.19.1: aggregate functions ignore NULL; "SUM() returns NULL if there were no matching rows";
    # COUNT() of no rows is 0; SUM of an integer column is DECIMAL (pymysql -> decimal.Decimal).
    e, s = new()
    s.execute('CREATE TABLE t (g INT, a INT, st VARCHAR(10))')
    s.execute("INSERT INTO t VALUES (1, 1, 'Ready'), (1, NULL, 'ready'), (2, 5, 'Running')")
    r = one(s, 'SELECT SUM(a) s, COUNT(*) c, COUNT(a) ca, MAX(a) mx, MIN(a) mn, COUNT(DISTINCT g) d FROM t')
    assert r == {'s': Decimal(6), 'c': 3, 'ca': 2, 'mx': 5, 'mn': 1, 'd': 2}, r
    assert isinstance(r['s'], Decimal)
    r = one(s, 'SELECT SUM(a) s, COUNT(*) c, COUNT(a) ca, MAX(a) m, COALESCE(SUM(a), 0) z FROM t WHERE g = 99')
    assert r == {'s': None, 'c': 0, 'ca': 0, 'm': None, 'z': 0}, r
    # booleans are integers: SUM(state = 'Ready') counts (case-insensitively) matching rows
    r = one(s, "SELECT SUM(st = 'Ready') n, CAST(COALESCE(SUM(a * (st = 'Ready')), 0) AS SIGNED) m FROM t")
    assert r == {'n': Decimal(2), 'm': 1} and type(r['m']) is int, r
    assert s.query('SELECT g, SUM(a) s FROM t GROUP BY g HAVING s > 1') == [{'g': 2, 's': Decimal(5)}]
    # result type of COALESCE() over a DOUBLE expression is DOUBLE even when the integer literal is chosen
    s.execute('CREATE TABLE r (u BIGINT, rate DOUBLE)')
    v = val(s, 'SELECT COALESCE(SUM(u * rate), 0) FROM r')
    assert v == 0.0 and type(v) is float, v
    v = val(s, 'SELECT c FROM (SELECT COALESCE(SUM(u * rate), 0) AS c FROM r) AS x')
    assert type(v) is float
    assert s.query('SELECT g FROM t WHERE g = 99 GROUP BY g') == []


@test
def t_arithmetic():
    # Manual 14.6.1: "/" on integers yields DECIMAL with div_precision_increment=4 extra digits; DIV is integer
    # division; division by zero gives NULL; % takes the sign of the dividend; BIGINT arithmetic is exact.
    e, s = new()
    r = one(s, 'SELECT 7 / 2 a, 7 DIV 2 b, -7 DIV 2 c, 7 % 3 d, -7 % 3 e, 1 / 0 f, 1 / 3 g, '
               '9223372036854775807 - 1 h, 2 * 3.5 i, 1e0 * 2 j, MOD(7, 4) k, -1 * 1 * 0 l, 5 DIV 0 m')
    assert r['a'] == Decimal('3.5000') and r['b'] == 3 and r['c'] == -3 and r['d'] == 1 and r['e'] == -1
    assert r['f'] is None and r['g'] == Decimal('0.3333') and r['h'] == 9223372036854775806
    assert r['i'] == Decimal('7.0') and r['j'] == 2.0 and type(r['j']) is float and r['k'] == 3 and r['l'] == 0
    assert r['m'] is None
    r = one(s, "SELECT -1 * (1 = 1) * (2 > 1) a, (NOT 0) + (NOT 5) b, FLOOR(0.5 * 7) c, CEIL(1.2) d, ROUND(2.5) e, "
               "ABS(-3) f, FLOOR(7) g, '5' + 1 h")
    assert r == {'a': -1, 'b': 1, 'c': 3.0, 'd': 2, 'e': 3, 'f': 3, 'g': 7, 'h': 6}, r


@test
def t_collation():
    # Manual 12.8.1 / 12.10.1: the default collation utf8mb4_0900_ai_ci compares case- and accent-insensitively
    # (NO PAD); columns declared COLLATE utf8mb4_0900_as_cs / utf8mb4_bin compare exactly.
    e, s = new()
    s.execute('CREATE TABLE u (name VARCHAR(20) NOT NULL, name_cs VARCHAR(20) NOT NULL COLLATE utf8mb4_0900_as_cs, '
              'PRIMARY KEY (name), UNIQUE KEY (name_cs))')
    s.execute("INSERT INTO u VALUES ('Alice', 'Alice')")
    assert val(s, "SELECT COUNT(*) FROM u WHERE name = 'alice'") == 1
    assert val(s, "SELECT COUNT(*) FROM u WHERE name_cs = 'alice'") == 0
    assert val(s, "SELECT COUNT(*) FROM u WHERE name_cs = 'Alice'") == 1
    assert val(s, "SELECT 'Ready' = 'READY'") == 1 and val(s, "SELECT 'a' = 'a '") == 0
    assert val(s, "SELECT BINARY 'a' = 'A'") == 0
    raises(errors.IntegrityError, 1062, s.execute, "INSERT INTO u VALUES ('ALICE', 'x')")   # PK is case-insensitive
    s.execute("INSERT INTO u VALUES ('bob', 'alice')")                                      # cs unique key is not
    assert val(s, "SELECT '5' = 5") == 1 and val(s, "SELECT 'abc' = 0") == 1 and val(s, "SELECT '10' > 9") == 1
    assert val(s, "SELECT 'abc' LIKE 'A%'") == 1 and val(s, "SELECT 'abc' LIKE 'a_'") == 0
    assert [r['name'] for r in s.query('SELECT name FROM u ORDER BY name DESC')] == ['bob', 'Alice']


@test
def t_routine_variable_precedence():
    # Manual 15.6.4.2 "Local Variable Scope and Resolution": "If an SQL statement contains a reference to a column
    # and a declared local variable [or parameter] with the same name, MySQL currently interprets the reference
    # as the name of a variable."
    e, s = new()
    s.execute('CREATE TABLE c (id INT PRIMARY KEY, job_group_id INT)')
    s.execute('INSERT INTO c VALUES (1, 0), (2, 0), (3, 7)')
    s.execute('CREATE FUNCTION f (id INT) RETURNS INT RETURN (SELECT COUNT(*) FROM c WHERE c.id = id)')
    assert val(s, 'SELECT f(2)') == 1
    # unqualified `id` on BOTH sides is the parameter -> predicate is TRUE for every row
    s.execute('CREATE FUNCTION g (id INT) RETURNS INT RETURN (SELECT COUNT(*) FROM c WHERE id = id)')
    assert val(s, 'SELECT g(2)') == 3
    s.execute('''CREATE PROCEDURE p (IN job_group_id INT) BEGIN
        DECLARE n INT; SELECT COUNT(*) INTO n FROM c WHERE c.job_group_id = job_group_id; SELECT n; END''')
    assert s.query('CALL p(7)') == [{'n': 1}]


@test
def t_select_into():
    # Manual 15.2.13.1 SELECT ... INTO: no rows -> warning 1329 "No data", variables keep their values (and a
    # CONTINUE HANDLER FOR NOT FOUND fires); more than one row -> error 1172.
    e, s = new()
    s.execute('CREATE TABLE t (a INT)')
    s.execute('INSERT INTO t VALUES (1), (2)')
    s.execute('''CREATE PROCEDURE p (IN k INT) BEGIN
        DECLARE v INT DEFAULT 42; DECLARE nf INT DEFAULT 0;
        DECLARE CONTINUE HANDLER FOR NOT FOUND SET nf = 1;
        SELECT a INTO v FROM t WHERE a = k; SELECT v, nf; END''')
    assert s.query('CALL p(2)') == [{'v': 2, 'nf': 0}]
    assert s.query('CALL p(9)') == [{'v': 42, 'nf': 1}]
    s.execute('CREATE PROCEDURE q () BEGIN DECLARE v INT DEFAULT 42; SELECT a INTO v FROM t WHERE a = 9; SELECT v; END')
    assert s.query('CALL q()') == [{'v': 42}]
    s.execute('CREATE PROCEDURE r () BEGIN DECLARE v INT; SELECT a INTO v FROM t; END')
    raises(errors.OperationalError, 1172, s.execute, 'CALL r()')
    s.execute('SELECT a INTO @x FROM t WHERE a = 1')
    assert val(s, 'SELECT @x') == 1


@test
def t_subquery_cardinality():
    # Manual 15.2.15.2 / error 1242 ER_SUBQUERY_NO_1_ROW: a scalar subquery returning > 1 row is an error; so is
    # a stored function whose RETURN (SELECT ...) yields several rows.  Zero rows -> NULL.
    e, s = new()
    s.execute('CREATE TABLE t (a INT)')
    s.execute('INSERT INTO t VALUES (1), (1)')
    err = raises(errors.OperationalError, 1242, s.execute, 'SELECT (SELECT a FROM t)')
    assert 'more than 1 row' in err.args[1]
    assert val(s, 'SELECT (SELECT a FROM t WHERE a = 5)') is None
    s.execute('CREATE FUNCTION f () RETURNS INT RETURN (SELECT a FROM t)')
    raises(errors.OperationalError, 1242, s.execute, 'SELECT f()')
    raises(errors.OperationalError, 1241, s.execute, 'SELECT (SELECT a, a FROM t LIMIT 1)')


@test
def t_insert_odku():
    # Manual 15.2.7.2 INSERT ... ON DUPLICATE KEY UPDATE: "the affected-rows value per row is 1 if the row is
    # inserted as a new row, 2 if an existing row is updated, and 0 if an existing row is set to its current
    # values"; ROW_COUNT() reports the same; VALUES(col) refers to the value that would have been inserted.
    e, s = new()
    s.execute('CREATE TABLE t (k INT PRIMARY KEY, v INT NOT NULL DEFAULT 0, w INT)')
    assert s.execute('INSERT INTO t (k, v) VALUES (1, 10) ON DUPLICATE KEY UPDATE v = v + VALUES(v)').affected == 1
    assert val(s, 'SELECT ROW_COUNT()') == 1
    assert s.execute('INSERT INTO t (k, v) VALUES (1, 5) ON DUPLICATE KEY UPDATE v = v + VALUES(v)').affected == 2
    assert val(s, 'SELECT ROW_COUNT()') == 2
    assert s.execute('INSERT INTO t (k, v) VALUES (1, 5) ON DUPLICATE KEY UPDATE k = k').affected == 0
    assert val(s, 'SELECT ROW_COUNT()') == 0
    assert val(s, 'SELECT v FROM t WHERE k = 1') == 15
    assert s.execute('INSERT INTO t (k, v) VALUES (1, 1), (2, 2), (2, 3) ON DUPLICATE KEY UPDATE v = v + VALUES(v)'
                     ).affected == 2 + 1 + 2
    assert s.query('SELECT k, v FROM t') == [{'k': 1, 'v': 16}, {'k': 2, 'v': 5}]
    # row alias form (8.0.19+)
    assert s.execute('INSERT INTO t (k, v) VALUES (2, 100) AS new ON DUPLICATE KEY UPDATE v = new.v + t.v').affected == 2
    assert val(s, 'SELECT v FROM t WHERE k = 2') == 105
    # INSERT ... SELECT evaluates the select list (incl. @v := ...) for each produced row, then inserts that row
    s.execute('CREATE TABLE src (k INT PRIMARY KEY, n INT)')
    s.execute('INSERT INTO src VALUES (1, 100), (2, 200), (3, 300)')
    s.execute('INSERT INTO t (k, v) SELECT k, @n := n FROM src ON DUPLICATE KEY UPDATE v = v + @n')
    assert s.query('SELECT k, v FROM t') == [{'k': 1, 'v': 116}, {'k': 2, 'v': 305}, {'k': 3, 'v': 300}]
    # columns of the SELECT's tables are visible in the UPDATE clause of an ungrouped INSERT ... SELECT
    s.execute('INSERT INTO t (k, v) SELECT k, 0 FROM src ON DUPLICATE KEY UPDATE w = n * 2')
    assert [r['w'] for r in s.query('SELECT w FROM t')] == [200, 400, 600]
    assert s.execute('INSERT IGNORE INTO t (k, v) VALUES (1, 1), (9, 9)').affected == 1


@test
def t_insert_select_same_table_is_buffered():
    # Manual 15.2.7.1 INSERT ... SELECT: "When selecting from and inserting into the same table, MySQL creates an
    # internal temporary table to hold the rows from the SELECT and then inserts those rows into the target
    # table" -> user variables assigned in the select list hold the LAST row's value during every insert.
    e, s = new()
    s.execute('CREATE TABLE t (k INT PRIMARY KEY, v INT)')
    s.execute('INSERT INTO t VALUES (1, 10), (2, 20)')
    # nested assignment (the form used by cancel_job_group: -1 * (@x := col)): evaluated only while buffering
    q = 'INSERT INTO t (k, v) SELECT s.k, 0 + (@n := s.v) FROM t AS s ON DUPLICATE KEY UPDATE v = t.v + @n'
    s.execute(q)
    assert s.query('SELECT k, v FROM t') == [{'k': 1, 'v': 30}, {'k': 2, 'v': 40}]
    # a select item that IS an assignment is re-executed per row read back from the temporary table
    # (sql_select.cc, change_to_use_tmp_fields(): "@:=<expression>" is replaced with "@:=<tmp table column>")
    s.execute('INSERT INTO t (k, v) SELECT s.k, @n := s.v FROM t AS s ON DUPLICATE KEY UPDATE v = t.v + @n')
    assert s.query('SELECT k, v FROM t') == [{'k': 1, 'v': 60}, {'k': 2, 'v': 80}]
    e.insert_select_same_table_buffered = False      # the switch exposes the streaming alternative
    s.execute(q)
    assert s.query('SELECT k, v FROM t') == [{'k': 1, 'v': 120}, {'k': 2, 'v': 160}]


@test
def t_constraint_errors():
    # Error reference: 1062 ER_DUP_ENTRY, 1452 ER_NO_REFERENCED_ROW_2, 1451 ER_ROW_IS_REFERENCED_2,
    # 1048 ER_BAD_NULL_ERROR, 1364 ER_NO_DEFAULT_FOR_FIELD (strict mode), 1265 (ENUM, strict), 1406, 1366.
    e, s = new()
    s.execute('CREATE TABLE p (id INT AUTO_INCREMENT PRIMARY KEY, name VARCHAR(5) NOT NULL, '
              "st ENUM('open', 'closed') NOT NULL DEFAULT 'open', flag BOOLEAN NOT NULL DEFAULT FALSE, UNIQUE(name))")
    s.execute('CREATE TABLE c (id INT PRIMARY KEY, pid INT, FOREIGN KEY (pid) REFERENCES p(id) ON DELETE CASCADE)')
    s.execute('CREATE TABLE r (id INT PRIMARY KEY, pid INT NOT NULL, FOREIGN KEY (pid) REFERENCES p(id))')
    r = s.execute("INSERT INTO p (name) VALUES ('a')")
    assert r.lastrowid == 1 and val(s, 'SELECT LAST_INSERT_ID()') == 1
    assert one(s, 'SELECT * FROM p') == {'id': 1, 'name': 'a', 'st': 'open', 'flag': 0}
    raises(errors.IntegrityError, 1062, s.execute, "INSERT INTO p (name) VALUES ('A')")
    raises(errors.IntegrityError, 1048, s.execute, 'INSERT INTO p (name) VALUES (NULL)')
    raises(errors.OperationalError, 1364, s.execute, "INSERT INTO p (st) VALUES ('open')")
    raises(errors.DataError, 1265, s.execute, "INSERT INTO p (name, st) VALUES ('b', 'bogus')")
    raises(errors.DataError, 1406, s.execute, "INSERT INTO p (name) VALUES ('toolong')")
    raises(errors.DataError, 1366, s.execute, "INSERT INTO c (id, pid) VALUES ('x', 1)")
    s.execute("INSERT INTO p (name, st, flag) VALUES ('b', 'CLOSED', TRUE)")
    assert one(s, "SELECT id, st, flag FROM p WHERE name = 'b'") == {'id': 3, 'st': 'closed', 'flag': 1}
    raises(errors.IntegrityError, 1452, s.execute, 'INSERT INTO c VALUES (1, 99)')
    s.execute('INSERT INTO c VALUES (1, 1), (2, NULL), (3, 3)')
    s.execute('INSERT INTO r VALUES (1, 3)')
    raises(errors.IntegrityError, 1451, s.execute, 'DELETE FROM p WHERE id = 3')
    assert s.execute('DELETE FROM p WHERE id = 1').affected == 1          # cascades to c(1)
    assert [x['id'] for x in s.query('SELECT id FROM c')] == [2, 3]
    raises(errors.IntegrityError, 1452, s.execute, 'UPDATE c SET pid = 77 WHERE id = 2')
    err = raises(errors.OperationalError, 1644, s.execute, "SIGNAL SQLSTATE '45000' SET MESSAGE_TEXT = 'boom'") \
        if False else None
    s.execute("CREATE PROCEDURE sig () BEGIN SIGNAL SQLSTATE '45000' SET MESSAGE_TEXT = \"boom\"; END")
    err = raises(errors.OperationalError, 1644, s.execute, 'CALL sig()')
    assert err.args == (1644, 'boom')


@test
def t_triggers():
    # Manual 27.3.1: BEFORE triggers may SET NEW.col; for UPDATE "the trigger activates for each row that the
    # statement matches" - also rows whose values do not change (sql_update.cc invokes AFTER triggers for every
    # found row) - while affected-rows counts only changed rows (Manual 15.2.17).  For INSERT ... ON DUPLICATE KEY
    # UPDATE: BEFORE INSERT always, then AFTER INSERT or BEFORE/AFTER UPDATE (Manual 27.3.1).
    e, s = new()
    s.execute('CREATE TABLE t (k INT PRIMARY KEY, v INT, w INT)')
    s.execute('CREATE TABLE log (id INT AUTO_INCREMENT PRIMARY KEY, what VARCHAR(40))')
    s.execute("CREATE TRIGGER bi BEFORE INSERT ON t FOR EACH ROW BEGIN SET NEW.w = NEW.v * 2; "
              "INSERT INTO log (what) VALUES (CONCAT('bi', NEW.k)); END")
    s.execute("CREATE TRIGGER ai AFTER INSERT ON t FOR EACH ROW INSERT INTO log (what) VALUES (CONCAT('ai', NEW.k))")
    s.execute("CREATE TRIGGER bu BEFORE UPDATE ON t FOR EACH ROW BEGIN IF NEW.v < OLD.v THEN SET NEW.v = OLD.v; END IF; "
              "INSERT INTO log (what) VALUES (CONCAT('bu', OLD.k)); END")
    s.execute("CREATE TRIGGER au AFTER UPDATE ON t FOR EACH ROW "
              "INSERT INTO log (what) VALUES (CONCAT('au', NEW.k, ':', OLD.v, '>', NEW.v))")
    s.execute("CREATE TRIGGER ad AFTER DELETE ON t FOR EACH ROW INSERT INTO log (what) VALUES (CONCAT('ad', OLD.k))")

    def log():
        out = [r['what'] for r in s.query('SELECT what FROM log ORDER BY id')]
        s.execute('DELETE FROM log')
        return out
    s.execute('INSERT INTO t (k, v) VALUES (1, 5), (2, 6)')
    assert log() == ['bi1', 'ai1', 'bi2', 'ai2']
    assert s.query('SELECT * FROM t') == [{'k': 1, 'v': 5, 'w': 10}, {'k': 2, 'v': 6, 'w': 12}]
    assert s.execute('UPDATE t SET v = 6').affected == 1          # row 2 is matched but unchanged
    assert log() == ['bu1', 'au1:5>6', 'bu2', 'au2:6>6']
    assert s.execute('UPDATE t SET v = 1 WHERE k = 1').affected == 0   # BEFORE trigger rewrote NEW.v back
    assert log() == ['bu1', 'au1:6>6']
    assert s.execute('INSERT INTO t (k, v) VALUES (1, 9) ON DUPLICATE KEY UPDATE v = VALUES(v)').affected == 2
    assert log() == ['bi1', 'bu1', 'au1:6>9']
    s.execute('DELETE FROM t WHERE k = 2')
    assert log() == ['ad2']
    # an error raised by a trigger aborts and undoes the whole statement (statement-level atomicity)
    s.execute("CREATE TRIGGER bi2 BEFORE INSERT ON log FOR EACH ROW BEGIN IF NEW.what = 'bi13' THEN "
              "SIGNAL SQLSTATE '45000' SET MESSAGE_TEXT = 'unlucky'; END IF; END")
    raises(errors.OperationalError, 1644, s.execute, 'INSERT INTO t (k, v) VALUES (12, 1), (13, 1)')
    assert val(s, 'SELECT COUNT(*) FROM t') == 1 and log() == []


@test
def t_update_semantics():
    # Manual 15.2.17 UPDATE: single-table assignments "are generally evaluated from left to right"; "each matching
    # row is updated once, even if it matches the conditions multiple times" (multiple-table syntax).  minimysql
    # evaluates a multi-table UPDATE's join and all SET expressions against the pre-statement rows.
    e, s = new()
    s.execute('CREATE TABLE a (id INT PRIMARY KEY, x INT, y INT)')
    s.execute('CREATE TABLE b (id INT PRIMARY KEY, aid INT, z INT)')
    s.execute('INSERT INTO a VALUES (1, 1, 0), (2, 10, 0)')
    s.execute('INSERT INTO b VALUES (1, 1, 100), (2, 1, 200), (3, 2, 300)')
    s.execute('UPDATE a SET x = x + 1, y = x')
    assert s.query('SELECT * FROM a') == [{'id': 1, 'x': 2, 'y': 2}, {'id': 2, 'x': 11, 'y': 11}]
    n = s.execute('UPDATE a INNER JOIN b ON b.aid = a.id SET a.x = a.x + 1, b.z = a.x').affected
    assert n == 2 + 3, n
    assert s.query('SELECT id, x FROM a') == [{'id': 1, 'x': 3}, {'id': 2, 'x': 12}]      # a(1) updated once
    assert [r['z'] for r in s.query('SELECT z FROM b')] == [2, 2, 11]                      # pre-statement a.x
    s.execute('UPDATE a LEFT JOIN (SELECT aid, SUM(z) AS sz FROM b GROUP BY aid) AS t ON t.aid = a.id '
              'SET y = COALESCE(t.sz, -1) WHERE a.id >= 1')
    assert [r['y'] for r in s.query('SELECT y FROM a')] == [4, 11]
    s.execute('UPDATE a, b SET a.y = 0, b.z = 0 WHERE a.id = b.aid AND b.id = 3')
    assert [r['y'] for r in s.query('SELECT y FROM a')] == [4, 0]
    assert s.execute('DELETE b FROM b LEFT JOIN a ON a.id = b.aid WHERE a.y = 4').affected == 2
    assert s.execute('UPDATE a SET x = 0 ORDER BY id DESC LIMIT 1').affected == 1
    assert [r['x'] for r in s.query('SELECT x FROM a')] == [3, 0]
    # Optimizer dependent corner (sql_update.cc Query_result_update): when the first table of the chosen join order
    # is itself updated "on the fly", later tables' SET expressions see its NEW values.  Off by default; switchable.
    s.execute('INSERT INTO b VALUES (7, 1, 0)')
    e.multi_update_on_the_fly = True
    s.execute('UPDATE a INNER JOIN b ON b.aid = a.id SET a.x = a.x + 1, b.z = a.x WHERE a.id = 1')
    assert val(s, 'SELECT x FROM a WHERE id = 1') == 4 and val(s, 'SELECT z FROM b WHERE id = 7') == 4
    e.multi_update_on_the_fly = False
    s.execute('UPDATE a INNER JOIN b ON b.aid = a.id SET a.x = a.x + 1, b.z = a.x WHERE a.id = 1')
    assert val(s, 'SELECT x FROM a WHERE id = 1') == 5 and val(s, 'SELECT z FROM b WHERE id = 7') == 4


@test
def t_transactions():
    # Manual 15.3.1: START TRANSACTION implicitly commits an open transaction; ROLLBACK undoes to its start; with
    # autocommit=1 each statement commits.  Manual 15.3.2/InnoDB error handling: a failing statement rolls back
    # only itself.  A CALL is not atomic: statements completed before the failing one stay in the transaction.
    e, s = new()
    s.execute('CREATE TABLE t (k INT PRIMARY KEY)')
    s.execute('START TRANSACTION')
    s.execute('INSERT INTO t VALUES (1)')
    s.execute('START TRANSACTION')          # implicit commit of k=1
    s.execute('INSERT INTO t VALUES (2)')
    s.execute('ROLLBACK')
    assert [r['k'] for r in s.query('SELECT k FROM t')] == [1]
    s.execute('START TRANSACTION')
    s.execute('INSERT INTO t VALUES (3)')
    raises(errors.IntegrityError, 1062, s.execute, 'INSERT INTO t VALUES (4), (5), (1)')   # undoes 4 and 5 only
    assert [r['k'] for r in s.query('SELECT k FROM t')] == [1, 3]
    s.execute('COMMIT')
    s.execute('ROLLBACK')
    assert [r['k'] for r in s.query('SELECT k FROM t')] == [1, 3]
    s.execute('CREATE PROCEDURE p () BEGIN INSERT INTO t VALUES (6); INSERT INTO t VALUES (7), (1); '
              'INSERT INTO t VALUES (8); END')
    s.execute('START TRANSACTION')
    raises(errors.IntegrityError, 1062, s.execute, 'CALL p()')
    assert [r['k'] for r in s.query('SELECT k FROM t')] == [1, 3, 6]       # 6 stays, (7, 1) undone, 8 never ran
    s.execute('ROLLBACK')
    assert [r['k'] for r in s.query('SELECT k FROM t')] == [1, 3]
    raises(errors.IntegrityError, 1062, s.execute, 'CALL p()')              # autocommit: 6 is durable
    assert [r['k'] for r in s.query('SELECT k FROM t')] == [1, 3, 6]
    s2 = e.connect(autocommit=False)
    s2.execute('INSERT INTO t VALUES (9)')
    s2.execute('ROLLBACK')
    assert val(s, 'SELECT COUNT(*) FROM t WHERE k = 9') == 0
    s.execute('SET autocommit = 0')
    s.execute('DELETE FROM t')
    s.execute('ROLLBACK')
    assert val(s, 'SELECT COUNT(*) FROM t') == 3
    # procedure-managed transactions
    s.execute('SET autocommit = 1')
    s.execute('CREATE PROCEDURE tx (IN ok INT) BEGIN START TRANSACTION; INSERT INTO t VALUES (20); '
              'IF ok THEN COMMIT; SELECT 0 AS rc; ELSE ROLLBACK; SELECT 1 AS rc; END IF; END')
    assert s.query('CALL tx(0)') == [{'rc': 1}] and val(s, 'SELECT COUNT(*) FROM t WHERE k = 20') == 0
    assert s.query('CALL tx(1)') == [{'rc': 0}] and val(s, 'SELECT COUNT(*) FROM t WHERE k = 20') == 1
    # Manual 15.3.1: in a READ ONLY transaction writes (and SELECT ... FOR UPDATE, which takes write locks) fail with
    # error 1792; LOCK IN SHARE MODE is allowed.
    s.execute('START TRANSACTION READ ONLY')
    raises(errors.OperationalError, 1792, s.execute, 'DELETE FROM t')
    raises(errors.OperationalError, 1792, s.execute, 'SELECT k FROM t FOR UPDATE')
    assert len(s.query('SELECT k FROM t LOCK IN SHARE MODE')) == 4
    s.execute('COMMIT')
    assert s.execute('DELETE FROM t WHERE k = 20').affected == 1


@test
def t_order_limit_defaults():
    # Manual 10.2.1.16 / B.3.4.3: NULLs sort first in ascending order (last with DESC).  Without ORDER BY minimysql
    # returns rows in PRIMARY KEY order (deterministic stand-in for InnoDB's clustered-index scan).
    e, s = new()
    s.execute('CREATE TABLE t (k INT PRIMARY KEY, v INT, s VARCHAR(5))')
    s.execute("INSERT INTO t VALUES (3, NULL, 'b'), (1, 2, 'B'), (2, 1, 'a')")
    assert [r['k'] for r in s.query('SELECT k FROM t')] == [1, 2, 3]
    assert [r['v'] for r in s.query('SELECT v FROM t ORDER BY v')] == [None, 1, 2]
    assert [r['v'] for r in s.query('SELECT v FROM t ORDER BY v DESC')] == [2, 1, None]
    assert [r['k'] for r in s.query('SELECT k FROM t ORDER BY s, k DESC')] == [2, 3, 1]
    assert [r['k'] for r in s.query('SELECT k FROM t ORDER BY k DESC LIMIT 2')] == [3, 2]
    assert [r['k'] for r in s.query('SELECT k FROM t ORDER BY k LIMIT 1, 2')] == [2, 3]
    assert [r['k'] for r in s.query('SELECT k FROM t ORDER BY -v DESC')] == [2, 1, 3]
    assert [r['x'] for r in s.query('SELECT k AS x FROM t UNION SELECT 1 UNION ALL SELECT 1 ORDER BY x')] == [1, 1, 2, 3]
    assert s.query('SELECT DISTINCT s FROM t') == [{'s': 'B'}, {'s': 'a'}]


@test
def t_auto_increment_defaults_types():
    # Manual 5.6.9 AUTO_INCREMENT, 13.6 data type defaults; DATE values; RAND()/clock are pluggable.
    import datetime
    e, s = new()
    e.clock = lambda: 86400.0 * 365 + 3600
    e.rand_source = lambda: 0.75
    s.execute('CREATE TABLE t (id BIGINT NOT NULL AUTO_INCREMENT, d DATE, x DOUBLE, txt TEXT, '
              'ts TIMESTAMP DEFAULT CURRENT_TIMESTAMP, PRIMARY KEY (id))')
    s.execute('INSERT INTO t (d, x, txt) VALUES (CAST(UTC_DATE() AS DATE), 1, 5)')
    r = one(s, 'SELECT * FROM t')
    assert r == {'id': 1, 'd': datetime.date(1971, 1, 1), 'x': 1.0, 'txt': '5',
                 'ts': datetime.datetime(1971, 1, 1, 1, 0)}, r
    s.execute('INSERT INTO t (id, d) VALUES (10, %s)', ('2024-02-03',))
    assert s.execute('INSERT INTO t (x) VALUES (2)').lastrowid == 11
    assert val(s, 'SELECT COUNT(*) FROM t WHERE d = %s', ('2024-02-03',)) == 1
    assert val(s, 'SELECT FLOOR(RAND() * 8)') == 6.0 and val(s, 'SELECT UNIX_TIMESTAMP()') == 86400 * 365 + 3600
    assert val(s, "SELECT JSON_OBJECT('b', 1, 'a', 'x')") == '{"a": "x", "b": 1}'
    assert val(s, "SELECT JSON_EXTRACT('[3, 4]', '$[0]')") == '3'
    assert val(s, "SELECT CAST(JSON_EXTRACT('[3, 4]', '$[1]') AS SIGNED)") == 4
    assert val(s, "SELECT JSON_EXTRACT('[]', '$[0]') IS NULL") == 1


@test
def t_joins_subqueries_lateral():
    e, s = new()
    s.execute('CREATE TABLE g (b INT, g INT, PRIMARY KEY (b, g))')
    s.execute('CREATE TABLE anc (b INT, g INT, a INT, PRIMARY KEY (b, g, a))')
    s.execute('CREATE TABLE canc (id INT, g INT, PRIMARY KEY (id, g))')
    s.execute('INSERT INTO g VALUES (1, 0), (1, 1), (1, 2)')
    s.execute('INSERT INTO anc VALUES (1, 0, 0), (1, 1, 1), (1, 1, 0), (1, 2, 2), (1, 2, 1), (1, 2, 0)')
    s.execute('INSERT INTO canc VALUES (1, 1)')
    q = '''SELECT g.g, t.cancelled IS NOT NULL AS cancelled FROM g LEFT JOIN LATERAL (
             SELECT 1 AS cancelled FROM anc INNER JOIN canc ON anc.b = canc.id AND anc.a = canc.g
             WHERE g.b = anc.b AND g.g = anc.g) AS t ON TRUE WHERE g.b = %s'''
    assert s.query(q, (1,)) == [{'g': 0, 'cancelled': 0}, {'g': 1, 'cancelled': 1}, {'g': 2, 'cancelled': 1}]
    assert val(s, 'SELECT EXISTS (SELECT 1 FROM canc WHERE id = 1 AND g = 1)') == 1
    assert [r['g'] for r in s.query('SELECT g FROM g WHERE (b, g) IN (SELECT b, g FROM anc WHERE a = 1)')] == [1, 2]
    assert s.query('WITH x AS (SELECT g, COUNT(*) AS n FROM anc GROUP BY g) SELECT g, n FROM x WHERE n > 1 ORDER BY n DESC') \
        == [{'g': 2, 'n': 3}, {'g': 1, 'n': 2}]
    assert s.query('SELECT g, ROW_NUMBER() OVER (ORDER BY g DESC) DIV 2 AS it FROM g') == \
        [{'g': 0, 'it': 1}, {'g': 1, 'it': 1}, {'g': 2, 'it': 0}]
    err = raises(errors.IntegrityError, 1052, s.execute, 'SELECT g FROM g JOIN anc ON g.b = anc.b') if False else None
    try:
        s.execute('SELECT g FROM g JOIN anc ON g.b = anc.b')
        raise AssertionError('ambiguous column accepted')
    except errors.MySQLError as ex:
        assert ex.args[0] == 1052
    try:
        s.execute('SELECT g FROM g RIGHT JOIN anc ON g.b = anc.b')
        raise AssertionError('RIGHT JOIN must be NotSupported')
    except NotSupported:
        pass


@test
def t_cursor_loop_and_out_params():
    e, s = new()
    s.execute('CREATE TABLE t (k INT PRIMARY KEY)')
    s.execute('INSERT INTO t VALUES (1), (2), (3)')
    s.execute('''CREATE PROCEDURE inner_p (IN a INT, OUT b INT) BEGIN SET b = IFNULL(b, 0) + a * 2; END''')
    s.execute('''CREATE PROCEDURE p () BEGIN
        DECLARE cur_k INT; DECLARE done BOOLEAN DEFAULT FALSE; DECLARE total INT DEFAULT 0; DECLARE o INT DEFAULT 99;
        DECLARE c CURSOR FOR SELECT k FROM t ORDER BY k ASC;
        DECLARE CONTINUE HANDLER FOR NOT FOUND SET done = TRUE;
        OPEN c;
        l: LOOP
          FETCH c INTO cur_k;
          IF done THEN LEAVE l; END IF;
          CALL inner_p(cur_k, o);
          SET total = total + o;
        END LOOP;
        CLOSE c;
        SELECT total, o;
      END''')
    assert s.query('CALL p()') == [{'total': 12, 'o': 6}]      # OUT parameters start as NULL inside the callee
    s.execute('CALL inner_p(4, @out)')
    assert val(s, 'SELECT @out') == 8


@test
def t_driver_param_binding():
    # pymysql: query % escaped_args - '%%' is a literal percent sign, None -> NULL, bool -> 0/1, sequences -> (a,b)
    e, s = new()
    s.execute('CREATE TABLE t (k INT PRIMARY KEY, v VARCHAR(20), b BLOB)')
    s.execute('INSERT INTO t VALUES (%s, %s, %s)', (1, "it's 100% \\ ok", b'\x00\x01'))
    assert one(s, 'SELECT v, b FROM t') == {'v': "it's 100% \\ ok", 'b': b'\x00\x01'}
    assert val(s, "SELECT COUNT(*) FROM t WHERE v LIKE '%%100%%' AND k IN %s", ([1, 2],)) == 1
    assert val(s, 'SELECT %(a)s + %(b)s', {'a': 1, 'b': True}) == 2
    assert val(s, 'SELECT %s IS NULL', (None,)) == 1
    assert val(s, "SELECT '%s'") == '%s'       # args=None: no formatting at all
    try:
        s.execute('SELECT %s, %s', (1,))
        raise AssertionError
    except TypeError:
        pass


@test
def t_concurrency_model_and_driver():
    # One transaction at a time (gate from START TRANSACTION to COMMIT/ROLLBACK); on_transaction_start lets a
    # harness choose the order; fault_hook injects pymysql errors; aiomysql-style pool / cursors.
    driver.install()
    import aiomysql
    import pymysql

    async def run():
        e = Engine()
        driver.set_engine(e)
        s0 = e.connect()
        s0.execute('CREATE TABLE t (k INT PRIMARY KEY, v INT)')
        s0.execute('CREATE TABLE u (k INT PRIMARY KEY, name VARCHAR(10))')
        s0.execute("INSERT INTO t VALUES (1, 0)")
        s0.execute("INSERT INTO u VALUES (1, 'x')")
        pool = await aiomysql.create_pool(maxsize=2, host='localhost', user='u', password='p', db='d', port=3306,
                                          charset='utf8', cursorclass=aiomysql.cursors.DictCursor, autocommit=False)
        assert isinstance(pool, aiomysql.Pool)
        trace = []

        async def txn(name, delay):
            async with pool.acquire() as conn:
                async with conn.cursor() as cur:
                    await cur.execute('START TRANSACTION;')
                    trace.append(name + ':begin')
                    await cur.execute('SELECT v FROM t WHERE k = 1 FOR UPDATE')
                    v = (await cur.fetchone())['v']
                    await asyncio.sleep(delay)              # other coroutines run here but cannot start a txn
                    await cur.execute('UPDATE t SET v = %s WHERE k = 1', (v + 1,))
                    assert cur.rowcount == 1
                await conn.commit()
                trace.append(name + ':commit')
        await asyncio.gather(txn('a', 0.01), txn('b', 0))
        assert trace in (['a:begin', 'a:commit', 'b:begin', 'b:commit'], ['b:begin', 'b:commit', 'a:begin', 'a:commit']), trace
        assert s0.query('SELECT v FROM t')[0]['v'] == 2           # no lost update
        # harness-controlled ordering through on_transaction_start
        parked = {}

        async def park(sess):
            fut = asyncio.get_running_loop().create_future()
            parked[sess.id] = fut
            await fut
        e.on_transaction_start = park
        trace.clear()
        tasks = [asyncio.ensure_future(txn(n, 0)) for n in 'xyz'[:2]]
        await asyncio.sleep(0.01)
        assert len(parked) == 2 and trace == []
        order = sorted(parked, reverse=True)
        for sid in order:
            parked[sid].set_result(None)
            await asyncio.sleep(0.01)
        await asyncio.gather(*tasks)
        e.on_transaction_start = None
        assert s0.query('SELECT v FROM t')[0]['v'] == 4
        # pool size limit: a third acquire waits until a connection is released
        c1 = await pool.acquire()
        c2 = await pool.acquire()
        t3 = asyncio.ensure_future(pool.acquire().__aenter__())
        await asyncio.sleep(0.01)
        assert not t3.done()
        await pool.release(c1)
        c3 = await asyncio.wait_for(t3, 1)
        # DictCursor names a repeated column `table.column` (pymysql DictCursorMixin)
        async with c3.cursor() as cur:
            await cur.execute('SELECT * FROM t LEFT JOIN u ON t.k = u.k')
            assert await cur.fetchall() == [{'k': 1, 'v': 4, 'u.k': 1, 'name': 'x'}]
            n = await cur.executemany('INSERT INTO u (k, name) VALUES (%s, %s)', [(2, 'a'), (3, 'b')])
            assert n == 2 and cur.rowcount == 2
            await cur.execute('SELECT k FROM u ORDER BY k')
            assert await cur.fetchmany(2) == [{'k': 1}, {'k': 2}] and await cur.fetchone() == {'k': 3}
            assert await cur.fetchone() is None
        async with c3.cursor(aiomysql.cursors.Cursor) as cur:
            await cur.execute('SELECT k, name FROM u WHERE k = %s', (2,))
            assert await cur.fetchall() == [(2, 'a')] and cur.description[1][0] == 'name'
        await c3.rollback()
        assert s0.query('SELECT COUNT(*) AS n FROM u')[0]['n'] == 1
        # a connection released with an open transaction is closed and its work rolled back (aiomysql behaviour)
        async with c2.cursor() as cur:
            await cur.execute('INSERT INTO u VALUES (9, %s)', ('z',))
        await pool.release(c2)
        assert c2.closed and s0.query('SELECT COUNT(*) AS n FROM u')[0]['n'] == 1
        await pool.release(c3)
        # fault injection
        calls = []

        def hook(sess, phase, sql):
            calls.append(phase)
            if phase == 'commit':
                raise pymysql.err.OperationalError(1213, 'Deadlock found when trying to get lock; try restarting transaction')
        e.fault_hook = hook
        async with pool.acquire() as conn:
            async with conn.cursor() as cur:
                await cur.execute('START TRANSACTION')
                await cur.execute('INSERT INTO u VALUES (5, %s)', ('q',))
            try:
                await conn.commit()
                raise AssertionError('fault not injected')
            except pymysql.err.OperationalError as ex:
                assert ex.args[0] == 1213
            await conn.rollback()
        e.fault_hook = None
        assert calls == ['acquire', 'begin', 'statement', 'commit', 'rollback'], calls
        assert s0.query('SELECT COUNT(*) AS n FROM u')[0]['n'] == 1
        pool.close()
        await pool.wait_closed()
        # synchronous pymysql facade
        c = pymysql.connect(host='localhost', autocommit=True, cursorclass=pymysql.cursors.DictCursor)
        with c.cursor() as cur:
            cur.execute('SELECT name FROM u WHERE k = %s', (1,))
            assert cur.fetchone() == {'name': 'x'}
        c.close()
    asyncio.run(run())


# ====================================================================== 2. schema
_ENGINE = None


def batch_engine():
    global _ENGINE
    if _ENGINE is None:
        _ENGINE = Engine()
        schema.load_batch_schema(_ENGINE, REPO)
    return _ENGINE.fork()


@test
def t_schema_loads():
    e = batch_engine()
    rep = schema._report
    n = len(rep['loaded_routines'])
    kinds = {}
    for k, _n, _s in rep['loaded_routines']:
        kinds[k] = kinds.get(k, 0) + 1
    assert len(e.tables) >= 30, len(e.tables)
    assert kinds.get('PROCEDURE', 0) >= 13 and kinds.get('FUNCTION', 0) == 3 and kinds.get('TRIGGER', 0) >= 6, kinds
    assert 'events_mark' in e.tables and 'n_max_attempts' in e.get_table('jobs').colmap
    assert 'dockerhub_proxy' in e.get_table('feature_flags').colmap and 'label' in e.get_table('pools').colmap
    # every routine body compiles (plans all statements) against the schema
    s = e.connect()
    from .nodes import walk
    from .compiler import Scope
    planned = 0
    for r in list(e.procedures.values()) + list(e.functions.values()):
        ctx = e._routine_ctx(r)
        planned += _plan_all(e, r.body, ctx)
    for tr in e.trigger_names.values():
        from .compiler import Ctx
        from .executor import _routine_varnames
        ctx = Ctx(e, _routine_varnames([], tr.body), e.get_table(tr.table), 'trigger')
        planned += _plan_all(e, tr.body, ctx)
    print(f'   schema: {len(e.tables)} tables, {n} routines/triggers from the chain {kinds}, '
          f'{planned} embedded statements planned')
    print('   ' + '; '.join(rep['fixes']))


def _plan_all(e, body, ctx):
    """Plan every DML/SELECT statement inside a routine body (catches unsupported constructs eagerly)."""
    from .nodes import walk
    n = 0
    stack = [body]
    while stack:
        st = stack.pop()
        k = st.k
        if k in ('block', 'loop', 'while', 'repeat'):
            stack.extend(st.body)
        elif k == 'if':
            for _c, b in st.branches:
                stack.extend(b)
            if st.els:
                stack.extend(st.els)
        elif k == 'declare_cursor':
            e.planner.plan_query(st.q, None, ctx)
            n += 1
        elif k == 'declare_handler':
            stack.append(st.stmt)
        elif k in ('spec', 'union'):
            e.planner.plan_query(st, None, ctx)
            n += 1
        elif k == 'insert':
            e._plan_insert(st, ctx)
            n += 1
        elif k == 'update':
            e._plan_update(st, ctx)
            n += 1
        elif k == 'delete':
            e._plan_delete(st, ctx)
            n += 1
    return n


# ====================================================================== 3. smoke scenario through gear.Database
def _main_py_queries(func_name):
    """SQL string literals inside function `func_name` of batch/driver/main.py (extracted with ast at test time)."""
    src = open(f'{REPO}/batch/batch/driver/main.py').read()
    tree = ast.parse(src)
    out = []
    for node in ast.walk(tree):
        if isinstance(node, (ast.AsyncFunctionDef, ast.FunctionDef)) and node.name == func_name:
            for x in ast.walk(node):
                if isinstance(x, ast.Constant) and isinstance(x.value, str) and 'SELECT' in x.value and 'FROM' in x.value:
                    out.append(x.value)
    return out


def _fix_metric_stub():
    """hostenv's prometheus_client stub returns a plain decorator from Metric.time(); gear.metrics uses it as a
    context manager (PrometheusSQLTimer).  Patch the stub class at run time (hostenv.py itself is not ours)."""
    import gear.metrics as gm
    m = gm.SQL_QUERY_LATENCY.labels(query_name='x') if hasattr(gm, 'SQL_QUERY_LATENCY') else None
    if m is None or hasattr(m.time(), '__enter__'):
        return

    class _Timer:
        def __enter__(self):
            return self

        def __exit__(self, *a):
            return False

        def __call__(self, f):
            return f
    type(m).time = lambda self: _Timer()


async def _smoke():
    from vlib import hostenv
    hostenv.prepare_services()
    from gear import Database, transaction
    _fix_metric_stub()

    eng = batch_engine()
    schema.seed_minimal(eng, n_tokens=4)
    seq = iter(range(10 ** 6))
    eng.rand_source = lambda: (next(seq) % 4) / 4 + 0.01       # spread rows over all 4 tokens
    driver.set_engine(eng)
    db = Database()
    await db.async_init(maxsize=5)
    user, now = 'test', 1_700_000_000_000

    # ---- front_end._create_batch
    @transaction(db)
    async def create_batch(tx):
        assert await tx.execute_and_fetchone('SELECT * FROM batches WHERE token = %s AND user = %s FOR UPDATE;',
                                             ('tok', user)) is None
        bid = await tx.execute_insertone(
            '''
INSERT INTO batches (userdata, user, billing_project, attributes, callback, n_jobs, time_created, time_completed, token, state, format_version, cancel_after_n_failures, migrated_batch)
VALUES (%s, %s, %s, %s, %s, %s, %s, %s, %s, %s, %s, %s, %s);
''', (json.dumps({'username': user}), user, 'test', json.dumps({'name': 'smoke'}), None, 0, now, now, 'tok',
            'complete', 7, None, True))
        await tx.execute_insertone(
            '''
INSERT INTO job_groups (batch_id, job_group_id, `user`, attributes, cancel_after_n_failures, state, n_jobs, time_created, time_completed, callback, update_id)
VALUES (%s, %s, %s, %s, %s, %s, %s, %s, %s, %s, %s);
''', (bid, 0, user, json.dumps({'name': 'smoke'}), None, 'complete', 0, now, now, None, None))
        await tx.execute_insertone(
            '''
INSERT INTO job_group_self_and_ancestors (batch_id, job_group_id, ancestor_id, level)
VALUES (%s, %s, %s, %s);
''', (bid, 0, 0, 0))
        await tx.execute_insertone(
            '''
INSERT INTO job_groups_n_jobs_in_complete_states (id, job_group_id)
VALUES (%s, %s);
''', (bid, 0))
        await tx.execute_many(
            '''
INSERT INTO job_group_attributes (batch_id, job_group_id, `key`, `value`)
VALUES (%s, %s, %s, %s);
''', [(bid, 0, 'name', 'smoke')])
        return bid
    bid = await create_batch()
    assert bid == 1

    # ---- front_end._create_batch_update
    @transaction(db)
    async def create_update(tx):
        rec = await tx.execute_and_fetchone(
            '''
SELECT update_id, start_job_id, n_jobs, start_job_group_id, n_job_groups
FROM batch_updates
WHERE batch_id = %s
ORDER BY update_id DESC
LIMIT 1
FOR UPDATE;
''', (bid,))
        assert rec is None
        await tx.execute_insertone(
            '''
INSERT INTO batch_updates
(batch_id, update_id, token, start_job_group_id, n_job_groups, start_job_id, n_jobs, committed, time_created)
VALUES (%s, %s, %s, %s, %s, %s, %s, %s, %s);
''', (bid, 1, 'utok', 1, 1, 1, 3, False, now))
    await create_update()

    # ---- front_end._create_job_groups: one child group (id 1) of the root
    @transaction(db)
    async def create_job_group(tx):
        assert await tx.execute_and_fetchone(
            '''
SELECT 1 AS cancelled
FROM job_group_self_and_ancestors
INNER JOIN job_groups_cancelled
  ON job_group_self_and_ancestors.batch_id = job_groups_cancelled.id AND
     job_group_self_and_ancestors.ancestor_id = job_groups_cancelled.job_group_id
WHERE job_group_self_and_ancestors.batch_id = %s AND job_group_self_and_ancestors.job_group_id = %s;
''', (bid, 0)) is None
        await tx.execute_insertone(
            '''
INSERT INTO job_groups (batch_id, job_group_id, `user`, attributes, cancel_after_n_failures, state, n_jobs, time_created, time_completed, callback, update_id)
VALUES (%s, %s, %s, %s, %s, %s, %s, %s, %s, %s, %s);
''', (bid, 1, user, None, None, 'complete', 0, now, now, None, 1))
        n = await tx.execute_update(
            '''
INSERT INTO job_group_self_and_ancestors (batch_id, job_group_id, ancestor_id, level)
SELECT batch_id, %s, ancestor_id, ancestors.level + 1
FROM job_group_self_and_ancestors ancestors
WHERE batch_id = %s AND job_group_id = %s;
''', (1, bid, 0))
        assert n == 1
        await tx.execute_insertone(
            '''
INSERT INTO job_group_self_and_ancestors (batch_id, job_group_id, ancestor_id, level)
VALUES (%s, %s, %s, %s);
''', (bid, 1, 1, 0))
        await tx.execute_insertone(
            '''
INSERT INTO job_groups_n_jobs_in_complete_states (id, job_group_id)
VALUES (%s, %s);
''', (bid, 1))
    await create_job_group()

    # ---- front_end._create_jobs: 3 jobs, job 3 depends on job 1; jobs 1,2 in group 1, job 3 in the root group
    @transaction(db)
    async def create_jobs(tx):
        rec = await tx.execute_and_fetchone(
            '''
SELECT `state`, format_version, `committed`, start_job_id, start_job_group_id
FROM batch_updates
INNER JOIN batches ON batch_updates.batch_id = batches.id
WHERE batch_updates.batch_id = %s AND batch_updates.update_id = %s AND user = %s AND NOT deleted;
''', (bid, 1, user))
        assert rec == {'state': 'complete', 'format_version': 7, 'committed': 0, 'start_job_id': 1,
                       'start_job_group_id': 1}, rec
        spec = json.dumps({'process': {'type': 'docker'}})
        jobs = [(bid, 1, 1, 1, 'Ready', spec, False, 1000, 0, 'standard', None, None, 20),
                (bid, 2, 1, 1, 'Ready', spec, True, 2000, 0, 'standard', 1, 1, 20),
                (bid, 3, 1, 0, 'Pending', spec, False, 500, 1, 'highmem', None, None, 20)]
        await tx.execute_many(
            '''
INSERT INTO jobs (batch_id, job_id, update_id, job_group_id, state, spec, always_run, cores_mcpu, n_pending_parents, inst_coll, n_regions, regions_bits_rep, n_max_attempts)
VALUES (%s, %s, %s, %s, %s, %s, %s, %s, %s, %s, %s, %s, %s);
''', jobs, query_name='insert_jobs')
        await tx.execute_many(
            '''
INSERT INTO `job_parents` (batch_id, job_id, parent_id)
VALUES (%s, %s, %s);
''', [(bid, 3, 1)])
        await tx.execute_many(
            '''
INSERT INTO `job_attributes` (batch_id, job_id, `key`, `value`)
VALUES (%s, %s, %s, %s);
''', [(bid, 1, 'name', 'j1'), (bid, 2, 'name', 'j2')])
        await tx.execute_many(
            '''
INSERT INTO jobs_telemetry (batch_id, job_id, time_ready)
VALUES (%s, %s, %s);
''', [(bid, 1, now), (bid, 2, now), (bid, 3, None)])
        # per (job group, inst_coll): (n_jobs, n_ready_jobs, ready_cores_mcpu) / cancellable counterparts
        staging = [(bid, 1, 'standard', 2, 2, 2, 3000, bid, 1), (bid, 1, 'highmem', 0, 1, 0, 0, bid, 0)]
        await tx.execute_many(
            '''
INSERT INTO job_groups_inst_coll_staging (batch_id, update_id, job_group_id, inst_coll, token, n_jobs, n_ready_jobs, ready_cores_mcpu)
SELECT %s, %s, ancestor_id, %s, %s, %s, %s, %s
FROM job_group_self_and_ancestors
WHERE batch_id = %s AND job_group_id = %s
ON DUPLICATE KEY UPDATE
n_jobs = n_jobs + VALUES(n_jobs),
n_ready_jobs = n_ready_jobs + VALUES(n_ready_jobs),
ready_cores_mcpu = ready_cores_mcpu + VALUES(ready_cores_mcpu);
''', staging)
        await tx.execute_many(
            '''
INSERT INTO job_group_inst_coll_cancellable_resources (batch_id, update_id, job_group_id, inst_coll, token, n_ready_cancellable_jobs, ready_cancellable_cores_mcpu)
SELECT %s, %s, ancestor_id, %s, %s, %s, %s
FROM job_group_self_and_ancestors
WHERE batch_id = %s AND job_group_id = %s
ON DUPLICATE KEY UPDATE
n_ready_cancellable_jobs = n_ready_cancellable_jobs + VALUES(n_ready_cancellable_jobs),
ready_cancellable_cores_mcpu = ready_cancellable_cores_mcpu + VALUES(ready_cancellable_cores_mcpu);
''', [(bid, 1, 'standard', 2, 1, 1000, bid, 1)])
        await tx.execute_many(
            '''
INSERT INTO batch_bunches (batch_id, token, start_job_id)
VALUES (%s, %s, %s);
''', [(bid, 'bunchtok', 1)])
    await create_jobs()

    # inserting a duplicate bunch: the multi-row INSERT is ONE statement -> 1062 and nothing is kept
    try:
        await db.execute_many(
            'INSERT INTO `job_parents` (batch_id, job_id, parent_id)\nVALUES (%s, %s, %s);', [(bid, 2, 1), (bid, 3, 1)])
        raise AssertionError('expected duplicate key error')
    except errors.IntegrityError as e:
        assert e.args[0] == 1062
    assert (await db.select_and_fetchone('SELECT COUNT(*) AS n FROM job_parents'))['n'] == 1

    # ---- front_end._commit_update
    rc = await db.check_call_procedure('CALL commit_batch_update(%s, %s, %s);', (bid, 1, now + 1), 'commit_batch_update')
    assert rc == {'rc': 0}, rc
    rec = await db.select_and_fetchone('SELECT state, n_jobs, time_completed FROM batches WHERE id = %s', (bid,))
    assert rec == {'state': 'running', 'n_jobs': 3, 'time_completed': None}, rec
    groups = [r async for r in db.select_and_fetchall('SELECT job_group_id, state, n_jobs FROM job_groups WHERE batch_id = %s', (bid,))]
    assert groups == [{'job_group_id': 0, 'state': 'running', 'n_jobs': 3},
                      {'job_group_id': 1, 'state': 'running', 'n_jobs': 2}], groups
    # committing twice is idempotent
    assert (await db.check_call_procedure('CALL commit_batch_update(%s, %s, %s);', (bid, 1, now + 2))) == {'rc': 0}

    async def audit(strict=False):
        # NB: the repo's check_incremental query also selects every row with a non-zero expected_* value (it ends
        # in "OR expected_n_ready_jobs != 0 ..."), so it only returns [] on a quiescent system.  While jobs are in
        # flight we compare the actual_* and expected_* columns ourselves.
        bad = []
        for q in _main_py_queries('check_incremental'):
            async for r in db.select_and_fetchall(q):
                if strict or any(r[k] != r['expected_' + k[len('actual_'):]] for k in r if k.startswith('actual_')):
                    bad.append(r)
        return bad
    assert await audit() == [], await audit()

    # ---- driver: instance + scheduling
    @transaction(db)
    async def create_instance(tx):
        await tx.just_execute(
            '''
INSERT INTO instances (name, state, activation_token, token, cores_mcpu,
  time_created, last_updated, version, location, inst_coll, machine_type, preemptible, instance_config)
VALUES (%s, %s, %s, %s, %s, %s, %s, %s, %s, %s, %s, %s, %s);
''', ('inst-1', 'pending', 'act', 'itok', 16000, now, now, 1, 'us-central1-a', 'standard', 'n1-standard-16', True,
            '{}'))
        await tx.just_execute(
            '''
INSERT INTO instances_free_cores_mcpu (name, free_cores_mcpu)
VALUES (%s, %s);
''', ('inst-1', 16000))
    await create_instance()
    rv = await db.check_call_procedure('CALL activate_instance(%s, %s, %s);', ('inst-1', '10.0.0.5', now + 5))
    assert rv == {'rc': 0, 'token': 'itok'}, rv

    t_sched = t_complete = 0.0
    for job_id, attempt in ((1, 'a1'), (2, 'a2')):
        t0 = time.perf_counter()
        rv = await db.check_call_procedure('CALL schedule_job(%s, %s, %s, %s);', (bid, job_id, attempt, 'inst-1'),
                                           'schedule_job')
        t_sched += time.perf_counter() - t0
        assert rv['rc'] == 0 and rv['delta_cores_mcpu'] == 0, rv
    free = await db.select_and_fetchone('SELECT free_cores_mcpu FROM instances_free_cores_mcpu WHERE name = %s', ('inst-1',))
    assert free['free_cores_mcpu'] == 16000 - 3000
    assert await audit() == []
    rv = await db.check_call_procedure('CALL mark_job_started(%s, %s, %s, %s, %s);', (bid, 1, 'a1', 'inst-1', now + 10))
    assert rv == {'rc': 0, 'delta_cores_mcpu': 0}, rv

    @transaction(db)
    async def add_resources(tx, job_id, attempt):
        rows = [r async for r in tx.execute_and_fetchall('SELECT resource, resource_id, deduped_resource_id FROM resources;')]
        args = [(bid, job_id, attempt, r['resource_id'], r['deduped_resource_id'], 1000) for r in rows[:3]]
        await tx.execute_many(
            '''
INSERT INTO `attempt_resources` (batch_id, job_id, attempt_id, resource_id, deduped_resource_id, quantity)
VALUES (%s, %s, %s, %s, %s, %s)
ON DUPLICATE KEY UPDATE quantity = quantity;
''', args)
    await add_resources(1, 'a1')
    await add_resources(2, 'a2')
    await db.execute_update('UPDATE attempts\nSET rollup_time = %s\nWHERE (batch_id = %s AND job_id = %s AND attempt_id = %s);',
                            (now + 500, bid, 1, 'a1'))

    for job_id, attempt, state, end in ((1, 'a1', 'Success', now + 1000), (2, 'a2', 'Failed', now + 2000)):
        t0 = time.perf_counter()
        rv = await db.check_call_procedure(
            'CALL mark_job_complete(%s, %s, %s, %s, %s, %s, %s, %s, %s, %s);',
            (bid, job_id, attempt, 'inst-1', state, json.dumps({'state': state}), now + 10, end, 'finished', end),
            'mark_job_complete')
        t_complete += time.perf_counter() - t0
        assert rv['rc'] == 0 and rv['old_state'] == 'Running' and rv['delta_cores_mcpu'] in (1000, 2000), rv
    # job 3 became Ready when its parent succeeded
    rec = await db.select_and_fetchone('SELECT state, n_pending_parents, cancelled FROM jobs WHERE batch_id = %s AND job_id = 3', (bid,))
    assert rec == {'state': 'Ready', 'n_pending_parents': 0, 'cancelled': 0}, rec
    rec = await db.select_and_fetchone('SELECT time_ready FROM jobs_telemetry WHERE batch_id = %s AND job_id = 3', (bid,))
    assert rec['time_ready'] == now + 1000
    rec = await db.select_and_fetchone('SELECT state, time_completed FROM job_groups WHERE batch_id = %s AND job_group_id = 1', (bid,))
    assert rec == {'state': 'complete', 'time_completed': now + 2000}, rec
    assert await audit() == []

    # job 3: scheduled on a highmem instance, completes
    await db.just_execute(
        '''INSERT INTO instances (name, state, activation_token, token, cores_mcpu,
  time_created, last_updated, version, location, inst_coll, machine_type, preemptible, instance_config)
VALUES (%s, %s, %s, %s, %s, %s, %s, %s, %s, %s, %s, %s, %s);''',
        ('inst-2', 'active', None, 'itok2', 16000, now, now, 1, 'us-central1-a', 'highmem', 'n1-highmem-16', True, '{}'))
    await db.just_execute('INSERT INTO instances_free_cores_mcpu (name, free_cores_mcpu) VALUES (%s, %s);', ('inst-2', 16000))
    rv = await db.check_call_procedure('CALL schedule_job(%s, %s, %s, %s);', (bid, 3, 'a3', 'inst-2'))
    assert rv['rc'] == 0
    rv = await db.check_call_procedure(
        'CALL mark_job_complete(%s, %s, %s, %s, %s, %s, %s, %s, %s, %s);',
        (bid, 3, 'a3', 'inst-2', 'Success', '{}', now + 3000, now + 4000, 'finished', now + 4000))
    assert rv['rc'] == 0 and rv['cur_batch_n_completed'] == 3 and rv['total_jobs_in_batch'] == 3, rv
    # replaying mark_job_complete is harmless
    rv = await db.check_call_procedure(
        'CALL mark_job_complete(%s, %s, %s, %s, %s, %s, %s, %s, %s, %s);',
        (bid, 3, 'a3', 'inst-2', 'Success', '{}', now + 3000, now + 4000, 'finished', now + 4000))
    assert rv == {'rc': 0, 'old_state': 'Success', 'delta_cores_mcpu': 0}, rv

    rows = [r async for r in db.select_and_fetchall('SELECT job_group_id, state FROM job_groups WHERE batch_id = %s', (bid,))]
    assert rows == [{'job_group_id': 0, 'state': 'complete'}, {'job_group_id': 1, 'state': 'complete'}], rows
    rec = await db.select_and_fetchone('SELECT state, time_completed FROM batches WHERE id = %s', (bid,))
    assert rec == {'state': 'complete', 'time_completed': now + 4000}, rec
    rows = [r async for r in db.select_and_fetchall('SELECT * FROM job_groups_n_jobs_in_complete_states ORDER BY job_group_id')]
    assert rows == [{'id': 1, 'job_group_id': 0, 'n_completed': 3, 'n_succeeded': 2, 'n_failed': 1, 'n_cancelled': 0},
                    {'id': 1, 'job_group_id': 1, 'n_completed': 2, 'n_succeeded': 1, 'n_failed': 1, 'n_cancelled': 0}], rows
    sums = await db.select_and_fetchone(
        '''SELECT CAST(COALESCE(SUM(n_ready_jobs), 0) AS SIGNED) a, CAST(COALESCE(SUM(n_running_jobs), 0) AS SIGNED) b,
           CAST(COALESCE(SUM(ready_cores_mcpu), 0) AS SIGNED) c, CAST(COALESCE(SUM(running_cores_mcpu), 0) AS SIGNED) d,
           CAST(COALESCE(SUM(n_creating_jobs), 0) AS SIGNED) e, COUNT(*) n FROM user_inst_coll_resources''')
    assert (sums['a'], sums['b'], sums['c'], sums['d'], sums['e']) == (0, 0, 0, 0, 0) and sums['n'] > 1, sums
    free = [r async for r in db.select_and_fetchall('SELECT name, free_cores_mcpu FROM instances_free_cores_mcpu')]
    assert free == [{'name': 'inst-1', 'free_cores_mcpu': 16000}, {'name': 'inst-2', 'free_cores_mcpu': 16000}], free

    # ---- billing aggregation audit (check_resource_aggregation)
    results = []
    for q in _main_py_queries('check_resource_aggregation'):
        results.append([r async for r in db.select_and_fetchall(q)])
    assert len(results) == 6 and all(len(r) > 0 for r in results), [len(r) for r in results]
    by_attempt = {(r['batch_id'], r['job_id'], r['attempt_id']): json.loads(r['resources']) for r in results[0]}
    assert by_attempt[(1, 1, 'a1')] == {k: 1000 * 990 for k in by_attempt[(1, 1, 'a1')]}, by_attempt
    agg_job = {(r['batch_id'], r['job_id']): json.loads(r['resources']) for r in results[2]}
    assert agg_job[(1, 1)] == by_attempt[(1, 1, 'a1')] and agg_job[(1, 2)] == by_attempt[(1, 2, 'a2')], agg_job
    attempt_by_group = {(r['batch_id'], r['ancestor_id']): json.loads(r['resources']) for r in results[1]}
    agg_group = {(r['batch_id'], r['job_group_id']): json.loads(r['resources']) for r in results[3]}
    assert attempt_by_group == agg_group, (attempt_by_group, agg_group)

    # ---- UI style reads: front_end._get_batch / _get_job_group
    get_batch = '''
SELECT batches.*,
  cancelled_t.cancelled IS NOT NULL AS cancelled,
  job_groups_n_jobs_in_complete_states.n_completed,
  job_groups_n_jobs_in_complete_states.n_succeeded,
  job_groups_n_jobs_in_complete_states.n_failed,
  job_groups_n_jobs_in_complete_states.n_cancelled,
  cost_t.*
FROM job_groups
LEFT JOIN batches ON batches.id = job_groups.batch_id
LEFT JOIN job_groups_n_jobs_in_complete_states
       ON job_groups.batch_id = job_groups_n_jobs_in_complete_states.id AND job_groups.job_group_id = job_groups_n_jobs_in_complete_states.job_group_id
LEFT JOIN (
  SELECT id, 1 AS cancelled
  FROM job_groups_cancelled
  WHERE id = %s AND job_group_id = %s
) AS cancelled_t ON batches.id = cancelled_t.id
LEFT JOIN LATERAL (
  SELECT COALESCE(SUM(`usage` * rate), 0) AS cost, JSON_OBJECTAGG(resources.resource, COALESCE(`usage` * rate, 0)) AS cost_breakdown
  FROM (
    SELECT resource_id, CAST(COALESCE(SUM(`usage`), 0) AS SIGNED) AS `usage`
    FROM aggregated_job_group_resources_v3
    WHERE job_groups.batch_id = aggregated_job_group_resources_v3.batch_id AND job_groups.job_group_id = aggregated_job_group_resources_v3.job_group_id
    GROUP BY resource_id
  ) AS usage_t
  LEFT JOIN resources ON usage_t.resource_id = resources.resource_id
) AS cost_t ON TRUE
WHERE job_groups.batch_id = %s AND job_groups.job_group_id = %s AND NOT deleted;
'''
    rec = await db.select_and_fetchone(get_batch, (bid, 0, bid, 0))
    assert rec['id'] == bid and rec['cancelled'] == 0 and rec['n_completed'] == 3 and rec['cost'] > 0, rec
    assert set(json.loads(rec['cost_breakdown'])) == set(by_attempt[(1, 1, 'a1')]), rec

    # ---- cancellation: second batch with an unfinished job, cancel the job group, is_*_cancelled functions
    @transaction(db)
    async def second_batch(tx):
        b2 = await tx.execute_insertone(
            '''INSERT INTO batches (userdata, user, billing_project, attributes, callback, n_jobs, time_created, time_completed, token, state, format_version, cancel_after_n_failures, migrated_batch)
VALUES (%s, %s, %s, %s, %s, %s, %s, %s, %s, %s, %s, %s, %s);''',
            ('{}', user, 'test', None, None, 0, now, now, 'tok2', 'complete', 7, None, True))
        await tx.just_execute('INSERT INTO job_groups (batch_id, job_group_id, `user`, attributes, cancel_after_n_failures, state, n_jobs, time_created, time_completed, callback, update_id) VALUES (%s, %s, %s, %s, %s, %s, %s, %s, %s, %s, %s);',
                              (b2, 0, user, None, None, 'complete', 0, now, now, None, None))
        await tx.just_execute('INSERT INTO job_group_self_and_ancestors (batch_id, job_group_id, ancestor_id, level) VALUES (%s, %s, %s, %s);', (b2, 0, 0, 0))
        await tx.just_execute('INSERT INTO job_groups_n_jobs_in_complete_states (id, job_group_id) VALUES (%s, %s);', (b2, 0))
        await tx.just_execute('INSERT INTO batch_updates (batch_id, update_id, token, start_job_group_id, n_job_groups, start_job_id, n_jobs, committed, time_created) VALUES (%s, %s, %s, %s, %s, %s, %s, %s, %s);',
                              (b2, 1, 'u', 1, 0, 1, 2, False, now))
        await tx.execute_many('INSERT INTO jobs (batch_id, job_id, update_id, job_group_id, state, spec, always_run, cores_mcpu, n_pending_parents, inst_coll, n_regions, regions_bits_rep, n_max_attempts)\nVALUES (%s, %s, %s, %s, %s, %s, %s, %s, %s, %s, %s, %s, %s);',
                              [(b2, 1, 1, 0, 'Ready', '{}', False, 250, 0, 'standard', None, None, 20),
                               (b2, 2, 1, 0, 'Ready', '{}', True, 250, 0, 'standard', None, None, 20)])
        await tx.execute_many('''INSERT INTO job_groups_inst_coll_staging (batch_id, update_id, job_group_id, inst_coll, token, n_jobs, n_ready_jobs, ready_cores_mcpu)
SELECT %s, %s, ancestor_id, %s, %s, %s, %s, %s
FROM job_group_self_and_ancestors
WHERE batch_id = %s AND job_group_id = %s
ON DUPLICATE KEY UPDATE
n_jobs = n_jobs + VALUES(n_jobs),
n_ready_jobs = n_ready_jobs + VALUES(n_ready_jobs),
ready_cores_mcpu = ready_cores_mcpu + VALUES(ready_cores_mcpu);''', [(b2, 1, 'standard', 3, 2, 2, 500, b2, 0)])
        await tx.execute_many('''INSERT INTO job_group_inst_coll_cancellable_resources (batch_id, update_id, job_group_id, inst_coll, token, n_ready_cancellable_jobs, ready_cancellable_cores_mcpu)
SELECT %s, %s, ancestor_id, %s, %s, %s, %s
FROM job_group_self_and_ancestors
WHERE batch_id = %s AND job_group_id = %s
ON DUPLICATE KEY UPDATE
n_ready_cancellable_jobs = n_ready_cancellable_jobs + VALUES(n_ready_cancellable_jobs),
ready_cancellable_cores_mcpu = ready_cancellable_cores_mcpu + VALUES(ready_cancellable_cores_mcpu);''',
                              [(b2, 1, 'standard', 3, 1, 250, b2, 0)])
        return b2
    b2 = await second_batch()
    assert (await db.check_call_procedure('CALL commit_batch_update(%s, %s, %s);', (b2, 1, now)))['rc'] == 0
    assert await audit() == []
    rec = await db.select_and_fetchone('SELECT is_job_cancelled(%s, 1) a, is_job_group_cancelled(%s, 0) b, is_batch_cancelled(%s) c',
                                       (b2, b2, b2))
    assert rec == {'a': 0, 'b': 0, 'c': 0}, rec

    # batch.cancel_job_group_in_db
    @transaction(db)
    async def cancel(tx):
        assert await tx.execute_and_fetchone(
            '''
SELECT 1
FROM job_groups
LEFT JOIN batches ON batches.id = job_groups.batch_id
LEFT JOIN batch_updates ON job_groups.batch_id = batch_updates.batch_id AND
  job_groups.update_id = batch_updates.update_id
WHERE job_groups.batch_id = %s AND job_groups.job_group_id = %s AND NOT deleted AND (batch_updates.committed OR job_groups.job_group_id = %s)
FOR UPDATE;
''', (b2, 0, 0)) == {'1': 1}
        await tx.just_execute('CALL cancel_job_group(%s, %s);', (b2, 0))
    await cancel()
    await cancel()     # idempotent
    rec = await db.select_and_fetchone('SELECT is_job_cancelled(%s, 1) a, is_job_cancelled(%s, 2) a2, is_job_group_cancelled(%s, 0) b, is_batch_cancelled(%s) c',
                                       (b2, b2, b2, b2))
    assert rec == {'a': 1, 'a2': 0, 'b': 1, 'c': 1}, rec       # job 2 is always_run
    assert await audit() == []
    rows = [r async for r in db.select_and_fetchall(
        'SELECT user, CAST(COALESCE(SUM(n_cancelled_ready_jobs), 0) AS SIGNED) AS n_cancelled_ready_jobs\nFROM user_inst_coll_resources\nGROUP BY user\nHAVING n_cancelled_ready_jobs > 0;')]
    assert rows == [{'user': 'test', 'n_cancelled_ready_jobs': 1}], rows
    # jobs cannot be added to a cancelled group (trigger jobs_before_insert -> SIGNAL 45000)
    try:
        await db.execute_many('INSERT INTO jobs (batch_id, job_id, update_id, job_group_id, state, spec, always_run, cores_mcpu, n_pending_parents, inst_coll, n_regions, regions_bits_rep, n_max_attempts)\nVALUES (%s, %s, %s, %s, %s, %s, %s, %s, %s, %s, %s, %s, %s);',
                              [(b2, 3, 1, 0, 'Ready', '{}', False, 250, 0, 'standard', None, None, 20)])
        raise AssertionError('expected 1644')
    except errors.OperationalError as e:
        assert e.args == (1644, 'job group has already been cancelled'), e.args
    # the canceller marks the cancelled ready job complete; the always_run job runs to completion
    rv = await db.check_call_procedure('CALL mark_job_complete(%s, %s, %s, %s, %s, %s, %s, %s, %s, %s);',
                                       (b2, 1, None, None, 'Cancelled', None, None, None, 'cancelled', now + 5000))
    assert rv['rc'] == 0, rv
    rv = await db.check_call_procedure('CALL schedule_job(%s, %s, %s, %s);', (b2, 2, 'b1', 'inst-1'))
    assert rv['rc'] == 0, rv
    rv = await db.check_call_procedure('CALL unschedule_job(%s, %s, %s, %s, %s, %s);', (b2, 2, 'b1', 'inst-1', now + 6000, 'preempted'))
    assert rv == {'rc': 0, 'delta_cores_mcpu': 250}, rv
    rv = await db.check_call_procedure('CALL mark_job_creating(%s, %s, %s, %s, %s);', (b2, 2, 'b2', 'inst-1', now + 6500))
    assert rv['rc'] == 0, rv
    rv = await db.check_call_procedure('CALL mark_job_complete(%s, %s, %s, %s, %s, %s, %s, %s, %s, %s);',
                                       (b2, 2, 'b2', 'inst-1', 'Success', '{}', now + 6500, now + 7000, 'finished', now + 7000))
    assert rv['rc'] == 0, rv
    assert (await db.select_and_fetchone('SELECT state FROM batches WHERE id = %s', (b2,)))['state'] == 'complete'
    assert await audit(strict=True) == []
    rv = await db.check_call_procedure('CALL deactivate_instance(%s, %s, %s);', ('inst-1', 'deactivated', now + 8000))
    assert rv == {'rc': 0}, rv
    rv = await db.check_call_procedure('CALL mark_instance_deleted(%s);', ('inst-1',))
    assert rv == {'rc': 0}, rv
    # front_end._delete_batch
    @transaction(db)
    async def delete(tx):
        assert (await tx.execute_and_fetchone('SELECT `state` FROM batches\nWHERE id = %s AND NOT deleted;', (bid,)))['state'] == 'complete'
        await tx.just_execute('CALL cancel_job_group(%s, %s);', (bid, 0))
        await tx.execute_update('UPDATE batches SET deleted = 1 WHERE id = %s;', (bid,))
    await delete()
    assert await audit() == []
    # driver housekeeping queries
    for fn in ('cancel_fast_failing_job_groups', 'delete_committed_job_groups_inst_coll_staging_records',
               'delete_prev_cancelled_job_group_cancellable_resources_records', 'compact_agg_billing_project_users_table',
               'compact_agg_billing_project_users_by_date_table', 'monitor_user_resources', 'get_user_resources'):
        for q in _main_py_queries(fn):
            if '%s' not in q:
                [r async for r in db.select_and_fetchall(q)]
    # batch_updates references batches WITHOUT "ON DELETE CASCADE": a batch row cannot be deleted (error 1451) ...
    try:
        await db.just_execute('DELETE FROM batches WHERE id = %s', (b2,))
        raise AssertionError('expected 1451')
    except errors.IntegrityError as e:
        assert e.args[0] == 1451, e.args
    assert (await db.select_and_fetchone('SELECT COUNT(*) AS n FROM jobs WHERE batch_id = %s', (b2,)))['n'] == 2
    # ... while deleting a job cascades to its attempts
    n0 = (await db.select_and_fetchone('SELECT COUNT(*) AS n FROM attempts WHERE batch_id = %s AND job_id = 2', (b2,)))['n']
    assert n0 == 2, n0
    await db.just_execute('DELETE FROM jobs WHERE batch_id = %s AND job_id = 2', (b2,))
    assert (await db.select_and_fetchone('SELECT COUNT(*) AS n FROM attempts WHERE batch_id = %s', (b2,)))['n'] == 0
    await db.async_close()
    return eng, t_sched / 2, t_complete / 2


@test
def t_smoke_batch_lifecycle():
    eng, t_sched, t_complete = asyncio.run(_smoke())
    print(f'   smoke: {eng.stats["statements"]} client statements; CALL schedule_job {t_sched * 1e3:.2f} ms, '
          f'CALL mark_job_complete {t_complete * 1e3:.2f} ms (first executions, include planning)')


@test
def t_performance():
    # steady-state interpreter cost on a database with a 50-job chain (job j depends on job j-1)
    import statistics
    e = batch_engine()
    schema.seed_minimal(e, n_tokens=4)
    s = e.connect()
    now, n = 1000, 50
    ins = lambda table, cols, vals: s.execute(   # noqa: E731
        f"INSERT INTO {table} ({', '.join(cols)}) VALUES ({', '.join(['%s'] * len(cols))})", vals)
    bid = ins('batches', ['userdata', 'user', 'billing_project', 'n_jobs', 'time_created', 'token', 'state',
                          'format_version', 'migrated_batch'], ('{}', 'test', 'test', 0, now, 't', 'complete', 7, 1)).lastrowid
    jg = ['batch_id', 'job_group_id', '`user`', 'state', 'n_jobs', 'time_created', 'update_id']
    ins('job_groups', jg, (bid, 0, 'test', 'complete', 0, now, None))
    ins('batch_updates', ['batch_id', 'update_id', 'token', 'start_job_group_id', 'n_job_groups', 'start_job_id', 'n_jobs',
                          'committed', 'time_created'], (bid, 1, 'u', 1, 1, 1, n, 0, now))
    ins('job_groups', jg, (bid, 1, 'test', 'complete', 0, now, 1))
    for g, a, lvl in ((0, 0, 0), (1, 1, 0), (1, 0, 1)):
        ins('job_group_self_and_ancestors', ['batch_id', 'job_group_id', 'ancestor_id', 'level'], (bid, g, a, lvl))
    for g in (0, 1):
        ins('job_groups_n_jobs_in_complete_states', ['id', 'job_group_id'], (bid, g))
    for j in range(1, n + 1):
        ins('jobs', ['batch_id', 'job_id', 'update_id', 'job_group_id', 'state', 'spec', 'always_run', 'cores_mcpu',
                     'n_pending_parents', 'inst_coll', 'n_max_attempts'],
            (bid, j, 1, 1, 'Ready' if j == 1 else 'Pending', '{}', 0, 1000, 0 if j == 1 else 1, 'standard', 20))
        ins('jobs_telemetry', ['batch_id', 'job_id', 'time_ready'], (bid, j, None))
        if j > 1:
            ins('job_parents', ['batch_id', 'job_id', 'parent_id'], (bid, j, j - 1))
    s.execute('INSERT INTO job_groups_inst_coll_staging (batch_id, update_id, job_group_id, inst_coll, token, n_jobs, '
              'n_ready_jobs, ready_cores_mcpu) SELECT %s, 1, ancestor_id, %s, 0, %s, 1, 1000 '
              'FROM job_group_self_and_ancestors WHERE batch_id = %s AND job_group_id = 1', (bid, 'standard', n, bid))
    s.execute('INSERT INTO job_group_inst_coll_cancellable_resources (batch_id, update_id, job_group_id, inst_coll, token, '
              'n_ready_cancellable_jobs, ready_cancellable_cores_mcpu) SELECT %s, 1, ancestor_id, %s, 0, 1, 1000 '
              'FROM job_group_self_and_ancestors WHERE batch_id = %s AND job_group_id = 1', (bid, 'standard', bid))
    assert s.query('CALL commit_batch_update(%s, 1, %s)', (bid, now)) == [{'rc': 0}]
    ins('instances', ['name', 'state', 'token', 'cores_mcpu', 'time_created', 'last_updated', 'version', 'location',
                      'inst_coll', 'machine_type', 'preemptible'],
        ('i1', 'active', 't', 16000000, now, now, 1, 'z', 'standard', 'm', 1))
    ins('instances_free_cores_mcpu', ['name', 'free_cores_mcpu'], ('i1', 16000000))
    rids = [r['resource_id'] for r in s.query('SELECT resource_id FROM resources')][:3]
    ts, tc, n0 = [], [], e.stats['statements']
    t_all = time.perf_counter()
    for j in range(1, n + 1):
        t0 = time.perf_counter()
        assert s.query('CALL schedule_job(%s, %s, %s, %s)', (bid, j, 'a', 'i1'))[0]['rc'] == 0
        ts.append(time.perf_counter() - t0)
        for r in rids:
            s.execute('INSERT INTO attempt_resources (batch_id, job_id, attempt_id, resource_id, deduped_resource_id, '
                      'quantity) VALUES (%s, %s, %s, %s, %s, %s) ON DUPLICATE KEY UPDATE quantity = quantity',
                      (bid, j, 'a', r, r, 5))
        t0 = time.perf_counter()
        rv = s.query('CALL mark_job_complete(%s, %s, %s, %s, %s, %s, %s, %s, %s, %s)',
                     (bid, j, 'a', 'i1', 'Success', '{}', now + 1, now + 100, 'finished', now + 100))
        tc.append(time.perf_counter() - t0)
        assert rv[0]['rc'] == 0
    t_all = time.perf_counter() - t_all
    assert val(s, 'SELECT state FROM batches WHERE id = %s', (bid,)) == 'complete'
    ms, mc = statistics.median(ts) * 1e3, statistics.median(tc) * 1e3
    print(f'   perf: CALL schedule_job median {ms:.2f} ms, CALL mark_job_complete median {mc:.2f} ms '
          f'(50-job batch, plans cached); {e.stats["statements"] - n0} client statements in {t_all * 1e3:.0f} ms')
    assert mc < 25, mc


def main():
    t00 = time.time()
    failed = 0
    for fn in _results:
        t0 = time.time()
        try:
            fn()
            print(f'ok   {fn.__name__}  ({(time.time() - t0) * 1e3:.0f} ms)')
        except Exception:
            failed += 1
            print(f'FAIL {fn.__name__}')
            traceback.print_exc()
    print(f'{len(_results) - failed}/{len(_results)} tests passed in {time.time() - t00:.1f} s')
    return 1 if failed else 0


if __name__ == '__main__':
    sys.exit(main())
