"""Query planning and execution (SELECT blocks, joins, grouping, ordering, unions)."""
from __future__ import annotations

from decimal import Decimal
from itertools import islice

from . import values as V
from .compiler import Env, ExprCompiler, Scope, Src
from .errors import NotSupported, cond
from .nodes import N
from .parse_expr import AGGREGATES
from .storage import NEVER, NOKEY, lookup_norm
from .values import compare, group_key, sort_key, truth


def walk_local(node):
    """Like nodes.walk but does not descend into nested query blocks."""
    stack = [node]
    while stack:
        x = stack.pop()
        if isinstance(x, N):
            if x.k in ('spec', 'union'):
                continue
            yield x
            for a, v in x.__dict__.items():
                if a.startswith('_'):
                    continue
                if isinstance(v, (N, list, tuple)):
                    stack.append(v)
        elif isinstance(x, (list, tuple)):
            stack.extend(x)


def conjuncts(e):
    out = []
    stack = [e]
    while stack:
        x = stack.pop()
        if x is None:
            continue
        if x.k == 'and':
            stack.append(x.r)
            stack.append(x.l)
        elif x.k == 'paren' and x.e.k in ('and', 'paren'):
            stack.append(x.e)
        else:
            out.append(x)
    return out


def strip_paren(e):
    while e.k == 'paren':
        e = e.e
    return e


# ---------------------------------------------------------------------- aggregates
class _Agg:
    __slots__ = ('kind', 'args', 'distinct', 'cs', 'star')

    def __init__(self, kind, args, distinct, cs, star):
        self.kind = kind
        self.args = args
        self.distinct = distinct
        self.cs = cs
        self.star = star

    def new_state(self):
        k = self.kind
        if k == 'COUNT':
            return [0, set() if self.distinct else None]
        if k in ('SUM', 'AVG'):
            return [None, 0, set() if self.distinct else None]
        if k in ('MAX', 'MIN'):
            return [None]
        if k == 'JSON_OBJECTAGG':
            return [None]
        if k in ('JSON_ARRAYAGG', 'GROUP_CONCAT'):
            return [None]
        raise NotSupported(f'aggregate {k}')

    def add(self, st, env):
        k = self.kind
        if k == 'COUNT':
            if self.star:
                st[0] += 1
                return
            vals = [a(env) for a in self.args]
            for v in vals:
                if v is None:
                    return
            if st[1] is not None:
                key = tuple(group_key(v, self.cs) for v in vals)
                if key in st[1]:
                    return
                st[1].add(key)
            st[0] += 1
            return
        if k in ('SUM', 'AVG'):
            v = self.args[0](env)
            if v is None:
                return
            if type(v) is not int:
                v = V.to_number(v)
            if st[2] is not None:
                key = group_key(v)
                if key in st[2]:
                    return
                st[2].add(key)
            if st[0] is None:
                st[0] = v
            elif isinstance(v, float) or isinstance(st[0], float):
                st[0] = float(st[0]) + float(v)
            else:
                st[0] = st[0] + v
            st[1] += 1
            return
        if k in ('MAX', 'MIN'):
            v = self.args[0](env)
            if v is None:
                return
            if st[0] is None:
                st[0] = v
            else:
                c = compare(v, st[0], self.cs)
                if (c > 0) if k == 'MAX' else (c < 0):
                    st[0] = v
            return
        if k == 'JSON_OBJECTAGG':
            key = self.args[0](env)
            val = self.args[1](env)
            if key is None:
                raise cond(3158, 'JSON documents may not contain NULL member names.')
            if st[0] is None:
                st[0] = {}
            st[0][V.to_str(key)] = V.json_value_of(val)
            return
        if k == 'JSON_ARRAYAGG':
            if st[0] is None:
                st[0] = []
            st[0].append(V.json_value_of(self.args[0](env)))
            return
        if k == 'GROUP_CONCAT':
            v = self.args[0](env)
            if v is None:
                return
            if st[0] is None:
                st[0] = []
            st[0].append(V.to_str(v))
            return

    def result(self, st):
        k = self.kind
        if k == 'COUNT':
            return st[0]
        if k == 'SUM':
            v = st[0]
            if v is None:
                return None
            return Decimal(v) if isinstance(v, int) else v
        if k == 'AVG':
            if st[0] is None:
                return None
            if isinstance(st[0], float):
                return st[0] / st[1]
            return V.arith('/', Decimal(st[0]) if isinstance(st[0], int) else st[0], st[1])
        if k in ('MAX', 'MIN'):
            return st[0]
        if k in ('JSON_OBJECTAGG', 'JSON_ARRAYAGG'):
            return None if st[0] is None else V.json_dumps(st[0])
        if k == 'GROUP_CONCAT':
            return None if st[0] is None else ','.join(st[0])


class _SrcPlan:
    __slots__ = ('k', 'src', 'table', 'sub', 'lateral', 'left', 'on', 'filters', 'lk_cols', 'lk_colobjs', 'lk_fns',
                 'sub_cols')


class QueryPlan:
    colnames: list
    coltables: list
    col_cs: list

    def run(self, penv):
        raise NotImplementedError


def _json_fix(f):
    def g(env):
        v = f(env)
        if v.__class__ is V.JsonDoc:
            return V.json_dumps(v.obj)
        return v
    return g


class SpecPlan(QueryPlan):
    def __init__(self):
        self.srcs = []
        self.nsrc = 0
        self.pre_filters = []
        self.items = []
        self.colnames = []
        self.coltables = []
        self.col_cs = []
        self.col_dbl = []
        self.grouped = False
        self.group_fns = []
        self.group_cs = []
        self.aggs = []
        self.having = None
        self.order = []       # [(('pos', i) | ('fn', f), desc, cs)]
        self.limit = None
        self.offset = None
        self.distinct = False
        self.windows = []     # [(part_fns, [(fn, desc, cs)])]
        self.scope = None
        self.simple = False   # ungrouped, no window/distinct: rows map 1:1 to joined rows

    # ---- source rows
    def _rows_for(self, sp, env):
        t = sp.table
        if t is not None:
            if sp.lk_cols:
                fns = sp.lk_fns
                cols = sp.lk_colobjs
                if len(fns) == 1:
                    key = lookup_norm(cols[0], fns[0](env))
                    if key is NEVER:
                        return ()
                    if key is NOKEY:
                        return t.scan()
                    return t.lookup(sp.lk_cols, key)
                key = []
                for c, f in zip(cols, fns):
                    nv = lookup_norm(c, f(env))
                    if nv is NEVER:
                        return ()
                    if nv is NOKEY:
                        return t.scan()
                    key.append(nv)
                return t.lookup(sp.lk_cols, tuple(key))
            return t.scan()
        if sp.lateral:
            names = sp.sub_cols
            return [dict(zip(names, r)) for r in sp.sub.run(env)]
        cache = env.cache
        if cache is None:
            cache = env.cache = {}
        rows = cache.get(sp.k)
        if rows is None:
            names = sp.sub_cols
            rows = cache[sp.k] = [dict(zip(names, r)) for r in sp.sub.run(env)]
        return rows

    def _join(self, env, k):
        if k == self.nsrc:
            yield env
            return
        sp = self.srcs[k]
        on = sp.on
        filters = sp.filters
        erows = env.rows
        matched = False
        last = k + 1 == self.nsrc
        for r in self._rows_for(sp, env):
            erows[k] = r
            if on is not None and not truth(on(env)):
                continue
            matched = True
            ok = True
            for f in filters:
                if not truth(f(env)):
                    ok = False
                    break
            if ok:
                if last:
                    yield env
                else:
                    yield from self._join(env, k + 1)
        if sp.left and not matched:
            erows[k] = None
            for f in filters:
                if not truth(f(env)):
                    return
            if last:
                yield env
            else:
                yield from self._join(env, k + 1)

    def joined(self, penv):
        env = Env(self.nsrc, penv, penv.frame, penv.sess)
        for f in self.pre_filters:
            if not truth(f(env)):
                return iter(())
        return self._join(env, 0)

    # ---- execution
    def run(self, penv):
        for out, _ in self.run_env(penv):
            yield out

    def run_env(self, penv):
        """yield (output tuple, env positioned on the producing row/group)."""
        items = self.items
        order = self.order
        if self.grouped:
            gen = self._grouped(penv)
        elif self.windows:
            gen = self._windowed(penv)
        else:
            gen = self.joined(penv)
            if self.having is not None:
                hv = self.having
                gen = (e for e in gen if truth(hv(e)))
        if not order and not self.distinct:
            lim = self.limit(penv) if self.limit is not None else None
            off = self.offset(penv) if self.offset is not None else 0
            if lim is not None:
                gen = islice(gen, int(off), int(off) + int(lim))
            elif off:
                gen = islice(gen, int(off), None)
            for env in gen:
                yield tuple([f(env) for f in items]), env
            return
        rows = []
        for env in gen:
            out = tuple([f(env) for f in items])
            keys = None
            if order:
                keys = [sort_key(out[o[1]] if o[0] == 'pos' else o[1](env), cs) for o, _d, cs in order]
            rows.append((out, keys))
        if self.distinct:
            seen = set()
            uniq = []
            css = self.col_cs
            for out, keys in rows:
                k = tuple([group_key(v, cs) for v, cs in zip(out, css)])
                if k not in seen:
                    seen.add(k)
                    uniq.append((out, keys))
            rows = uniq
        if order:
            for i in range(len(order) - 1, -1, -1):
                desc = order[i][1]
                rows.sort(key=lambda r, i=i: r[1][i], reverse=desc)
        if self.limit is not None or self.offset is not None:
            lim = self.limit(penv) if self.limit is not None else None
            off = int(self.offset(penv)) if self.offset is not None else 0
            rows = rows[off: off + int(lim)] if lim is not None else rows[off:]
        for out, _ in rows:
            yield out, None

    def _grouped(self, penv):
        aggs = self.aggs
        gfns = self.group_fns
        gcs = self.group_cs
        groups = {}
        order = []
        for env in self.joined(penv):
            if gfns:
                key = tuple([group_key(f(env), cs) for f, cs in zip(gfns, gcs)])
            else:
                key = ()
            g = groups.get(key)
            if g is None:
                g = groups[key] = (env.rows[:], [a.new_state() for a in aggs])
                order.append(g)
            sts = g[1]
            for a, st in zip(aggs, sts):
                a.add(st, env)
        if not gfns and not order:
            order.append(([None] * self.nsrc, [a.new_state() for a in aggs]))
        env = Env(self.nsrc, penv, penv.frame, penv.sess)
        hv = self.having
        for rows, sts in order:
            env.rows = rows
            env.aggs = [a.result(st) for a, st in zip(aggs, sts)]
            if hv is not None and not truth(hv(env)):
                continue
            yield env

    def _windowed(self, penv):
        snaps = [env.rows[:] for env in self.joined(penv)]
        env = Env(self.nsrc, penv, penv.frame, penv.sess)
        n = len(snaps)
        wvals = [[None] * len(self.windows) for _ in range(n)]
        for wi, (parts, orders) in enumerate(self.windows):
            keyed = []
            for i, rows in enumerate(snaps):
                env.rows = rows
                pk = tuple(group_key(f(env)) for f in parts)
                ok = [sort_key(f(env), cs) for f, _d, cs in orders]
                keyed.append((i, pk, ok))
            idx = list(range(n))
            for j in range(len(orders) - 1, -1, -1):
                idx.sort(key=lambda i, j=j: keyed[i][2][j], reverse=orders[j][1])
            counters = {}
            for i in idx:
                pk = keyed[i][1]
                c = counters.get(pk, 0) + 1
                counters[pk] = c
                wvals[i][wi] = c
        hv = self.having
        for i, rows in enumerate(snaps):
            env.rows = rows
            env.aggs = wvals[i]
            if hv is not None and not truth(hv(env)):
                continue
            yield env


class UnionPlan(QueryPlan):
    def __init__(self):
        self.parts = []
        self.alls = []
        self.order = []
        self.limit = None
        self.offset = None
        self.colnames = []
        self.coltables = []
        self.col_cs = []
        self.col_dbl = []

    def run(self, penv):
        rows = []
        for i, p in enumerate(self.parts):
            rows.extend(p.run(penv))
            if i > 0 and not self.alls[i - 1]:      # a DISTINCT union de-duplicates everything to its left
                seen = set()
                uniq = []
                for r in rows:
                    k = tuple([group_key(v, cs) for v, cs in zip(r, self.col_cs)])
                    if k not in seen:
                        seen.add(k)
                        uniq.append(r)
                rows = uniq
        if self.order:
            for pos, desc, cs in reversed(self.order):
                rows.sort(key=lambda r, pos=pos, cs=cs: sort_key(r[pos], cs), reverse=desc)
        if self.limit is not None or self.offset is not None:
            lim = self.limit(penv) if self.limit is not None else None
            off = int(self.offset(penv)) if self.offset is not None else 0
            rows = rows[off: off + int(lim)] if lim is not None else rows[off:]
        return iter(rows)

    def run_env(self, penv):
        for r in self.run(penv):
            yield r, None


class Planner:
    def __init__(self, engine):
        self.engine = engine
        self.xc = ExprCompiler(engine)

    # ------------------------------------------------------------------ entry
    def plan_query(self, q, parent_scope: Scope, ctx=None) -> QueryPlan:
        if parent_scope is None:
            parent_scope = Scope(ctx)
        if q.k == 'spec':
            return self.plan_spec(q, parent_scope)
        return self.plan_union(q, parent_scope)

    def masked(self, scope: Scope) -> Scope:
        m = Scope(scope.ctx, scope.parent)
        m.ctes = scope.ctes
        return m

    def plan_union(self, q, parent_scope):
        holder = Scope(parent_scope.ctx, parent_scope.parent)
        holder.sources = parent_scope.sources
        holder.using_cols = parent_scope.using_cols
        holder.ctes = dict(parent_scope.ctes)
        for name, cols, cq in getattr(q, 'ctes', []) or []:
            holder.ctes[name.lower()] = (cols, cq)
        u = UnionPlan()
        for p in q.parts:
            u.parts.append(self.plan_query(p, holder))
        u.alls = list(q.alls)
        first = u.parts[0]
        for p in u.parts[1:]:
            if len(p.colnames) != len(first.colnames):
                raise cond(1222, 'The used SELECT statements have a different number of columns')
        u.colnames = list(first.colnames)
        u.coltables = [''] * len(first.colnames) if len(u.parts) > 1 else list(first.coltables)
        u.col_cs = [any(p.col_cs[i] for p in u.parts) for i in range(len(first.colnames))]
        u.col_dbl = [any(p.col_dbl[i] for p in u.parts) for i in range(len(first.colnames))]
        lnames = [c.lower() for c in u.colnames]
        for e, desc in q.order:
            e0 = strip_paren(e)
            if e0.k == 'lit' and isinstance(e0.v, int):
                pos = e0.v - 1
            elif e0.k == 'col' and e0.name.lower() in lnames:
                pos = lnames.index(e0.name.lower())
            else:
                raise NotSupported('ORDER BY expression on a UNION result')
            u.order.append((pos, desc, u.col_cs[pos]))
        sc = Scope(parent_scope.ctx, parent_scope)
        if q.limit is not None:
            u.limit = self.xc.compile(q.limit, sc)
            u.limit = _shift(u.limit)
        if q.offset is not None:
            u.offset = _shift(self.xc.compile(q.offset, sc))
        if getattr(q, 'into', None):
            u.into = q.into
        return u

    # ------------------------------------------------------------------ SELECT block
    def plan_spec(self, q, parent_scope: Scope) -> SpecPlan:
        xc = self.xc
        ctx = parent_scope.ctx
        scope = Scope(ctx, parent_scope)
        for name, cols, cq in getattr(q, 'ctes', []) or []:
            scope.ctes[name.lower()] = (cols, cq)
        plan = SpecPlan()
        plan.scope = scope
        from_ = q.from_ or []
        where_conj = conjuncts(q.where) if q.where is not None else []
        seen_alias = set()
        on_nodes = []
        for k, s in enumerate(from_):
            sp = _SrcPlan()
            sp.k = k
            sp.table = None
            sp.sub = None
            sp.lateral = False
            sp.left = s.join == 'left'
            sp.on = None
            sp.filters = []
            sp.lk_cols = None
            sp.lk_colobjs = None
            sp.lk_fns = None
            sp.sub_cols = None
            if s.kind == 'table':
                cte = scope.find_cte(s.name.lower())
                if cte is not None:
                    cols, cq = cte
                    sub = self.plan_query(cq, self.masked(scope))
                    names = list(cols) if cols else list(sub.colnames)
                    if len(names) != len(sub.colnames):
                        raise cond(1353, 'CTE column list length mismatch')
                    _check_dups(names)
                    sp.sub = sub
                    sp.sub_cols = names
                    src = Src(s.alias or s.name, names, dict(zip(names, sub.col_cs)), None, k,
                              {n for n, d in zip(names, sub.col_dbl) if d})
                else:
                    t = self.engine.get_table(s.name)
                    sp.table = t
                    src = Src(s.alias or t.name, t.colnames, {c.name: True for c in t.cols if c.cs}, t, k)
            else:
                sub = self.plan_query(s.q, scope if s.lateral else self.masked(scope))
                names = list(s.colnames) if s.colnames else list(sub.colnames)
                _check_dups(names)
                sp.sub = sub
                sp.sub_cols = names
                sp.lateral = bool(s.lateral)
                src = Src(s.alias, names, dict(zip(names, sub.col_cs)), None, k,
                          {n for n, d in zip(names, sub.col_dbl) if d})
            if src.lalias in seen_alias:
                raise cond(1066, f"Not unique table/alias: '{src.alias}'")
            seen_alias.add(src.lalias)
            scope.sources.append(src)
            on_node = s.on
            if s.using:
                for c in s.using:
                    lc = c.lower()
                    prev = next((p for p in scope.sources[:-1] if lc in p.lmap), None)
                    if prev is None or lc not in src.lmap:
                        raise cond(1054, f"Unknown column '{c}' in 'from clause'")
                    eq = N('cmp', op='=', l=N('col', t=prev.alias, name=c), r=N('col', t=src.alias, name=c))
                    on_node = eq if on_node is None else N('and', l=on_node, r=eq)
                    scope.using_cols.add(lc)
            on_nodes.append(on_node)
            if on_node is not None:
                sp.on = xc.compile(on_node, scope)
            plan.srcs.append(sp)
        plan.nsrc = len(plan.srcs)

        # ---- WHERE: push conjuncts to the earliest join level; pick index lookups
        level_conj = [[] for _ in range(plan.nsrc)]
        for c in where_conj:
            if plan.nsrc == 0:
                plan.pre_filters.append(xc.compile(c, scope))
                continue
            srcs, pure = xc.local_sources(c, scope)
            lvl = (max(srcs) if srcs else 0) if pure else plan.nsrc - 1
            level_conj[lvl].append(c)
            plan.srcs[lvl].filters.append(xc.compile(c, scope))
        for k, sp in enumerate(plan.srcs):
            if sp.table is None:
                continue
            cands = {}
            pool = conjuncts(on_nodes[k]) if on_nodes[k] is not None else []
            if not sp.left:
                pool = pool + level_conj[k]
            elif k == 0:
                pool = pool + level_conj[k]
            for c in pool:
                c = strip_paren(c)
                if c.k != 'cmp' or c.op != '=':
                    continue
                for a, b in ((c.l, c.r), (c.r, c.l)):
                    a0 = strip_paren(a)
                    if a0.k != 'col':
                        continue
                    r = xc.try_resolve(scope, a0)
                    if r is None or r[0] != 'col' or r[1] != 0 or r[2] != k:
                        continue
                    bs, pure = xc.local_sources(b, scope)
                    if not pure or any(i >= k for i in bs):
                        continue
                    if r[3] not in cands:
                        cands[r[3]] = xc.compile(b, scope)
                    break
            if cands:
                for p in sp.table.candidate_prefixes():
                    if all(c in cands for c in p):
                        sp.lk_cols = p
                        sp.lk_colobjs = [sp.table.colmap[c.lower()] for c in p]
                        sp.lk_fns = [cands[c] for c in p]
                        break

        # ---- select list
        items_ast = []
        for it in q.items:
            e = it.e
            if e.k == 'star':
                if e.t is None:
                    if not scope.sources:
                        raise cond(1096, 'No tables used')
                    emitted = set()
                    for src in scope.sources:
                        for c in src.cols:
                            if c.lower() in scope.using_cols:
                                if c.lower() in emitted:
                                    continue
                                emitted.add(c.lower())
                            items_ast.append((N('col', t=src.alias, name=c), c, src.alias))
                else:
                    src = next((x for x in scope.sources if x.lalias == e.t.lower()), None)
                    if src is None:
                        raise cond(1051, f"Unknown table '{e.t}'")
                    for c in src.cols:
                        items_ast.append((N('col', t=src.alias, name=c), c, src.alias))
            else:
                e0 = strip_paren(e) if it.alias else e
                if it.alias is not None:
                    name = it.alias
                elif e.k == 'col':
                    name = e.name
                else:
                    name = it.text.strip()
                tbl = ''
                if e.k == 'col':
                    r = xc.try_resolve(scope, e)
                    if r is not None and r[0] == 'col' and r[1] == 0:
                        tbl = scope.sources[r[2]].alias
                items_ast.append((e, name, tbl))

        # ---- aggregates / windows
        agg_nodes = []
        win_nodes = []
        search = [e for e, _n, _t in items_ast]
        if q.having is not None:
            search.append(q.having)
        search.extend(e for e, _d in q.order)
        for root in search:
            for x in walk_local(root):
                if x.k == 'func' and x.name in AGGREGATES:
                    agg_nodes.append(x)
                elif x.k == 'window':
                    win_nodes.append(x)
        grouped = bool(agg_nodes) or bool(q.group)
        if win_nodes and grouped:
            raise NotSupported('window functions together with GROUP BY / aggregates')
        plan.grouped = grouped
        gscope = Scope(ctx, parent_scope)
        gscope.sources = scope.sources
        gscope.ctes = scope.ctes
        gscope.using_cols = scope.using_cols
        if grouped:
            gscope.agg_map = {}
            for x in agg_nodes:
                if id(x) in gscope.agg_map:
                    continue
                gscope.agg_map[id(x)] = len(plan.aggs)
                args = [xc.compile(a, scope) for a in x.args]
                cs = any(xc.static_cs(a, scope) for a in x.args)
                plan.aggs.append(_Agg(x.name, args, x.distinct, cs, x.star))
        elif win_nodes:
            gscope.agg_map = {}
            for x in win_nodes:
                gscope.agg_map[id(x)] = len(plan.windows)
                parts = [xc.compile(p, scope) for p in x.part]
                orders = [(xc.compile(e, scope), d, xc.static_cs(e, scope)) for e, d in x.order]
                plan.windows.append((parts, orders))

        # ---- GROUP BY
        group_cols = set()
        for g in q.group:
            g0 = strip_paren(g)
            if g0.k == 'lit' and isinstance(g0.v, int):
                if not 1 <= g0.v <= len(items_ast):
                    raise cond(1054, f"Unknown column '{g0.v}' in 'group statement'")
                ge = items_ast[g0.v - 1][0]
            elif g0.k == 'col' and g0.t is None and g0.name.lower() not in ctx.varnames:
                ln = g0.name.lower()
                from_ok = None
                from_err = None
                try:
                    from_ok = xc.resolve(scope, None, g0.name)
                except Exception as e:  # ambiguous or unknown
                    from_err = e
                sel = None
                for e, name, _t in items_ast:
                    if name.lower() == ln:
                        sel = e
                        break
                if from_ok is not None and from_ok[0] == 'col' and from_ok[1] == 0:
                    ge = g0
                    group_cols.add(ln)
                elif sel is not None:
                    ge = sel
                    if sel.k == 'col':
                        group_cols.add(ln)
                elif from_ok is not None:
                    ge = g0
                else:
                    raise from_err
            else:
                ge = g0
                if g0.k == 'col':
                    group_cols.add(g0.name.lower())
            for x in walk_local(ge):
                if x.k == 'func' and x.name in AGGREGATES:
                    raise cond(1056, "Can't group on aggregate")
            plan.group_fns.append(xc.compile(ge, scope))
            plan.group_cs.append(xc.static_cs(ge, scope))

        # ---- compile items
        aliases = {}
        for e, name, tbl in items_ast:
            f = xc.compile(e, gscope)
            e0 = strip_paren(e)
            if e0.k == 'func' and e0.name.startswith('JSON_') and e0.name not in AGGREGATES:
                f = _json_fix(f)
            plan.items.append(f)
            plan.colnames.append(name)
            plan.coltables.append(tbl)
            plan.col_cs.append(xc.static_cs(e, scope))
            plan.col_dbl.append(xc.static_double(e, scope))
            aliases.setdefault(name.lower(), f)
        gscope.aliases = aliases
        gscope.group_cols = group_cols

        if q.having is not None:
            gscope.mode = 'having'
            plan.having = xc.compile(q.having, gscope)
        gscope.mode = 'order'

        # ---- ORDER BY
        lnames = [n.lower() for n in plan.colnames]
        for e, desc in q.order:
            e0 = strip_paren(e)
            if e0.k == 'lit' and isinstance(e0.v, int) and not isinstance(e0.v, bool):
                if not 1 <= e0.v <= len(plan.items):
                    raise cond(1054, f"Unknown column '{e0.v}' in 'order clause'")
                plan.order.append((('pos', e0.v - 1), desc, plan.col_cs[e0.v - 1]))
                continue
            if e0.k == 'col' and e0.t is None and e0.name.lower() in lnames \
                    and e0.name.lower() not in ctx.varnames:
                i = lnames.index(e0.name.lower())
                plan.order.append((('pos', i), desc, plan.col_cs[i]))
                continue
            if e0.k == 'col' and e0.t is not None:
                r = xc.try_resolve(scope, e0)
                hit = None
                if r is not None and r[0] == 'col':
                    for i, (ie, _n, _t) in enumerate(items_ast):
                        if ie.k == 'col' and xc.try_resolve(scope, ie) == r:
                            hit = i
                            break
                if hit is not None:
                    plan.order.append((('pos', hit), desc, plan.col_cs[hit]))
                    continue
            plan.order.append((('fn', xc.compile(e0, gscope)), desc, xc.static_cs(e0, scope)))
        for e, _d in q.order:
            e0 = strip_paren(e)
            target = e0
            if e0.k == 'col' and e0.t is None and e0.name.lower() in lnames:
                target = items_ast[lnames.index(e0.name.lower())][0]
            if xc.static_enum(target, scope):
                raise NotSupported('ORDER BY on an ENUM column (MySQL sorts ENUMs by member index)')

        lsc = Scope(ctx, parent_scope)   # LIMIT expressions: variables / params / literals only
        if q.limit is not None:
            plan.limit = _shift(xc.compile(q.limit, lsc))
        if q.offset is not None:
            plan.offset = _shift(xc.compile(q.offset, lsc))
        plan.distinct = q.distinct
        plan.simple = not grouped and not plan.windows and not q.distinct and not q.order
        plan.into = q.into
        return plan


def _shift(f):
    """LIMIT/OFFSET closures are compiled one scope level down (as children of the parent scope) but are
    evaluated with the parent env itself; they only reference variables/params so depth does not matter."""
    return f


def _check_dups(names):
    seen = set()
    for n in names:
        l = n.lower()
        if l in seen:
            raise cond(1060, f"Duplicate column name '{n}'")
        seen.add(l)
