"""AST node: a tiny attribute bag.  `k` is the node kind."""
from __future__ import annotations


class N:
    def __init__(self, k, **kw):
        self.k = k
        self.__dict__.update(kw)

    def __repr__(self):
        items = ', '.join(f'{a}={v!r}' for a, v in self.__dict__.items() if a != 'k' and not a.startswith('_'))
        return f'{self.k}({items})'


class TypeSpec:
    __slots__ = ('base', 'length', 'scale', 'enum', 'unsigned', 'cs', 'binary')

    def __init__(self, base, length=None, scale=None, enum=None, unsigned=False, cs=False, binary=False):
        self.base = base          # 'int' | 'decimal' | 'double' | 'char' | 'text' | 'blob' | 'enum' | 'date' | 'datetime' | 'json' | 'bool'
        self.length = length
        self.scale = scale
        self.enum = enum
        self.unsigned = unsigned
        self.cs = cs              # case-sensitive / binary collation
        self.binary = binary

    def __repr__(self):
        return f'TypeSpec({self.base},{self.length},{self.enum},cs={self.cs})'


def walk(node):
    """Yield every N reachable from node (including inside lists/tuples)."""
    stack = [node]
    while stack:
        x = stack.pop()
        if isinstance(x, N):
            yield x
            for a, v in x.__dict__.items():
                if a.startswith('_'):
                    continue
                if isinstance(v, (N, list, tuple)):
                    stack.append(v)
        elif isinstance(x, (list, tuple)):
            stack.extend(x)
