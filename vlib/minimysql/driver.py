"""Fake ``pymysql`` and ``aiomysql`` modules backed by a minimysql Engine.

``install()`` registers the modules in sys.modules; ``set_engine(engine)`` selects the server that
``aiomysql.create_pool`` / ``pymysql.connect`` talk to."""
from __future__ import annotations

import asyncio
import datetime
import re
import sys
import types
from decimal import Decimal

from . import errors as E
from . import values as V
from .errors import SqlCondition
from .lexer import PARAM_CLOSE, PARAM_OPEN
from .nodes import N
from .parser import parse_one

_engine = None


def set_engine(engine):
    global _engine
    _engine = engine


def get_engine():
    if _engine is None:
        raise E.OperationalError(2003, "Can't connect to MySQL server (minimysql: no engine set; call driver.set_engine)")
    return _engine


# ---------------------------------------------------------------------- parameter binding
def _convert(a):
    """Python parameter -> SQL value, mirroring pymysql.converters.escape_item."""
    if a is None or type(a) is int or type(a) is str or type(a) is float:
        return a
    if isinstance(a, bool):
        return int(a)
    if isinstance(a, (int, str, float)):
        return a
    if isinstance(a, Decimal):
        return a
    if isinstance(a, (bytes, bytearray)):
        return bytes(a)
    if isinstance(a, datetime.datetime):
        return a.strftime('%Y-%m-%d %H:%M:%S') + (f'.{a.microsecond:06d}' if a.microsecond else '')
    if isinstance(a, datetime.date):
        return a.isoformat()
    if isinstance(a, datetime.timedelta):
        s = int(a.total_seconds())
        return f'{s // 3600:02d}:{(s // 60) % 60:02d}:{s % 60:02d}'
    if isinstance(a, (list, tuple, set, frozenset)):
        return tuple(_convert(x) for x in a)
    raise TypeError(f'minimysql: cannot bind parameter of type {type(a).__name__}')


def _marker(i):
    return f'{PARAM_OPEN}{i}{PARAM_CLOSE}'


_bind_cache: dict = {}


def bind(sql, args):
    """-> (sql text with parameter markers, params tuple).  Follows pymysql: ``query % escaped_args``."""
    if isinstance(args, (tuple, list)):
        n = len(args)
        key = (sql, n)
        text = _bind_cache.get(key)
        if text is None:
            text = sql % tuple(_marker(i) for i in range(n))
            if len(_bind_cache) > 20000:
                _bind_cache.clear()
            _bind_cache[key] = text
        return text, tuple([_convert(a) for a in args])
    if isinstance(args, dict):
        names = list(args.keys())
        key = (sql, tuple(names))
        text = _bind_cache.get(key)
        if text is None:
            text = sql % {k: _marker(i) for i, k in enumerate(names)}
            _bind_cache[key] = text
        return text, tuple([_convert(args[k]) for k in names])
    text = sql % _marker(0)
    return text, (_convert(args),)


RE_INSERT_VALUES = re.compile(
    r"\s*((?:INSERT|REPLACE)\s.+\sVALUES?\s+)"
    r"(\(\s*(?:%s|%\(.+\)s)\s*(?:,\s*(?:%s|%\(.+\)s)\s*)*\))"
    r"(\s*(?:ON DUPLICATE.*)?);?\s*\Z",
    re.IGNORECASE | re.DOTALL)

_many_cache: dict = {}


def bulk_insert_node(sql, args_list):
    """pymysql/aiomysql executemany(): an ``INSERT ... VALUES (%s, ...)`` is sent as ONE multi-row statement.
    Returns (node, params) or None when the query does not match RE_INSERT_VALUES."""
    m = RE_INSERT_VALUES.match(sql)
    if not m:
        return None
    first = args_list[0]
    text, _ = bind(sql, first)
    key = (text, len(args_list))
    node = _many_cache.get(key)
    per = len(first)
    if node is None:
        base, _n, _s = parse_one(text)
        if base.k != 'insert' or base.rows is None or len(base.rows) != 1:
            return None
        row0 = base.rows[0]
        rows = []
        for r in range(len(args_list)):
            rows.append([_shift_params(e, r * per) for e in row0])
        node = N('insert', table=base.table, cols=base.cols, rows=rows, select=None,
                 odku=[(c, _shift_params(e, 0)) for c, e in base.odku] if base.odku else None,
                 ignore=base.ignore, row_alias=base.row_alias, col_aliases=base.col_aliases)
        if base.odku:
            for _c, e in base.odku:
                from .nodes import walk
                if any(x.k == 'param' for x in walk(e)):
                    return None
        if len(_many_cache) > 5000:
            _many_cache.clear()
        _many_cache[key] = node
    params = []
    for a in args_list:
        if isinstance(a, dict):
            _t, p = bind(sql, a)
            params.extend(p)
        else:
            if not isinstance(a, (tuple, list)):
                a = (a,)
            if len(a) != per:
                raise TypeError('not all arguments converted during string formatting')
            params.extend(_convert(x) for x in a)
    return node, tuple(params)


def _shift_params(e, off):
    if off == 0:
        return e
    if e.k == 'param':
        return N('param', i=e.i + off)
    kw = {}
    for a, v in e.__dict__.items():
        if a == 'k':
            continue
        if isinstance(v, N):
            v = _shift_params(v, off)
        elif isinstance(v, list):
            v = [_shift_params(x, off) if isinstance(x, N) else
                 (tuple(_shift_params(y, off) if isinstance(y, N) else y for y in x) if isinstance(x, tuple) else x)
                 for x in v]
        kw[a] = v
    return N(e.k, **kw)


def _prepare(sql, args):
    try:
        if args is not None:
            text, params = bind(sql, args)
        else:
            text, params = sql, ()
        node, _n, _s = parse_one(text)
    except SqlCondition as c:
        raise c.to_error() from None
    return node, params


_NO_GATE = ('commit', 'rollback', 'noop')


def _phase(node):
    k = node.k
    if k == 'begin':
        return 'begin'
    if k == 'commit':
        return 'commit'
    if k == 'rollback':
        return 'rollback'
    return 'statement'


# ---------------------------------------------------------------------- result handling shared by cursors
class _CursorBase:
    _dict = False
    arraysize = 1

    def __init__(self, connection):
        self.connection = connection
        self._rows = None
        self._sets = []
        self._fields = None
        self.description = None
        self.rowcount = -1
        self.lastrowid = 0
        self.rownumber = 0
        self._executed = None
        self._closed = False

    @property
    def closed(self):
        return self._closed

    def _load(self, result):
        self._sets = list(result.sets)
        self.lastrowid = result.lastrowid
        self.rowcount = result.affected
        self._next_set(first=True)
        if self._rows is not None:
            self.rowcount = len(self._rows)

    def _next_set(self, first=False):
        if not self._sets:
            self._rows = None
            self.description = None
            self._fields = None
            self.rownumber = 0
            return False
        rs = self._sets.pop(0)
        self.description = tuple((n, None, None, None, None, None, None) for n in rs.colnames)
        rows = rs.rows
        fixed = []
        for r in rows:
            if any(v.__class__ is V.JsonDoc for v in r):
                r = tuple(V.json_dumps(v.obj) if v.__class__ is V.JsonDoc else v for v in r)
            fixed.append(r)
        if self._dict:
            fields = []
            for n, t in zip(rs.colnames, rs.coltables):
                if n in fields:
                    n = (t or '') + '.' + n
                fields.append(n)
            self._fields = fields
            self._rows = [dict(zip(fields, r)) for r in fixed]
        else:
            self._rows = fixed
        self.rownumber = 0
        return True

    def _fetchone(self):
        if self._rows is None or self.rownumber >= len(self._rows):
            return None
        r = self._rows[self.rownumber]
        self.rownumber += 1
        return r

    def _fetchmany(self, size=None):
        if self._rows is None:
            return [] if self._dict else ()
        end = self.rownumber + (size or self.arraysize)
        out = self._rows[self.rownumber:end]
        self.rownumber = min(end, len(self._rows))
        return out if self._dict else tuple(out) if not out else out

    def _fetchall(self):
        if self._rows is None:
            return [] if self._dict else ()
        out = self._rows[self.rownumber:]
        self.rownumber = len(self._rows)
        return out

    def mogrify(self, query, args=None):
        return query if args is None else query % _escape_args(args)


def _escape_args(args):
    def lit(a):
        a = _convert(a)
        if a is None:
            return 'NULL'
        if isinstance(a, str):
            return "'" + a.replace('\\', '\\\\').replace("'", "\\'") + "'"
        if isinstance(a, bytes):
            return "_binary'" + a.decode('latin1').replace('\\', '\\\\').replace("'", "\\'") + "'"
        if isinstance(a, tuple):
            return '(' + ','.join(lit(x) for x in a) + ')'
        return str(a)
    if isinstance(args, (tuple, list)):
        return tuple(lit(a) for a in args)
    if isinstance(args, dict):
        return {k: lit(v) for k, v in args.items()}
    return lit(args)


# ---------------------------------------------------------------------- aiomysql facade
class _AwaitableCtx:
    """Object that is both awaitable and an async context manager (like aiomysql.utils._ContextManager)."""

    def __init__(self, coro):
        self._coro = coro
        self._obj = None

    def __await__(self):
        return self._coro.__await__()

    async def __aenter__(self):
        self._obj = await self._coro
        return self._obj

    async def __aexit__(self, exc_type, exc, tb):
        await self._obj.close()
        self._obj = None


class _ConnectionContextManager(_AwaitableCtx):
    async def __aexit__(self, exc_type, exc, tb):
        self._obj.close()
        self._obj = None


class _PoolContextManager(_AwaitableCtx):
    async def __aexit__(self, exc_type, exc, tb):
        self._obj.close()
        await self._obj.wait_closed()
        self._obj = None


class _PoolAcquireContextManager:
    def __init__(self, coro, pool):
        self._coro = coro
        self._conn = None
        self._pool = pool

    def __await__(self):
        return self._coro.__await__()

    async def __aenter__(self):
        self._conn = await self._coro
        return self._conn

    async def __aexit__(self, exc_type, exc, tb):
        try:
            await self._pool.release(self._conn)
        finally:
            self._pool = None
            self._conn = None


class _Done:
    """Already-completed awaitable (aiomysql's Pool.release returns a finished future)."""

    def __await__(self):
        return iter(())


class AioCursor(_CursorBase):
    async def execute(self, query, args=None):
        conn = self.connection
        if conn is None or self._closed:
            raise E.ProgrammingError('Cursor closed')
        node, params = _prepare(query, args)
        self._executed = query
        result = await conn._run(node, params, query)
        self._load(result)
        return self.rowcount

    async def executemany(self, query, args):
        if not args:
            return
        args = list(args)
        try:
            bulk = bulk_insert_node(query, args)
        except SqlCondition as c:
            raise c.to_error() from None
        if bulk is not None:
            node, params = bulk
            result = await self.connection._run(node, params, query)
            self._load(result)
            return self.rowcount
        rows = 0
        for a in args:
            await self.execute(query, a)
            rows += self.rowcount
        self.rowcount = rows
        return rows

    async def callproc(self, procname, args=()):
        q = f"CALL {procname}({','.join(['%s'] * len(args))})"
        await self.execute(q, tuple(args))
        return args

    async def fetchone(self):
        return self._fetchone()

    async def fetchmany(self, size=None):
        return self._fetchmany(size)

    async def fetchall(self):
        return self._fetchall()

    async def nextset(self):
        return self._next_set() or None

    async def scroll(self, value, mode='relative'):
        self.rownumber = self.rownumber + value if mode == 'relative' else value

    async def close(self):
        self._closed = True
        self.connection = None

    async def __aenter__(self):
        return self

    async def __aexit__(self, exc_type, exc, tb):
        await self.close()

    def __aiter__(self):
        return self

    async def __anext__(self):
        r = self._fetchone()
        if r is None:
            raise StopAsyncIteration
        return r


class AioDictCursor(AioCursor):
    _dict = True


class AioSSCursor(AioCursor):
    pass


class AioSSDictCursor(AioDictCursor):
    pass


class AioConnection:
    def __init__(self, engine, autocommit=False, cursorclass=AioCursor, **kw):
        self._engine = engine
        self._sess = engine.connect(autocommit=bool(autocommit))
        self._cursorclass = cursorclass
        self._closed = False
        self._kw = kw
        self.host = kw.get('host')
        self.db = kw.get('db')
        self.user = kw.get('user')

    @property
    def closed(self):
        return self._closed

    @property
    def session(self):
        return self._sess

    async def _run(self, node, params, sql):
        if self._closed:
            raise E.InterfaceError(0, 'Not connected')
        eng, sess = self._engine, self._sess
        hook = eng.fault_hook
        if hook is not None:
            hook(sess, _phase(node), sql)
        sched = getattr(eng, 'sched_hook', None)
        if sched is not None:
            await sched(sess, sql)          # schedule point owned by the harness (generated interleavings of concurrent requests)
        gate = eng.gate
        owned = gate.owner is sess
        plain_select = (node.k in ('spec', 'union') and not getattr(node, 'locking_read', False)) or node.k in ('begin', 'set', 'noop')
        if not owned:
            if node.k in _NO_GATE and not sess.in_txn:
                # COMMIT / ROLLBACK / SET with nothing open: no transaction starts, nothing to serialise
                return eng.execute_node(sess, node, params)
            cb = eng.on_transaction_start
            import asyncio
            if gate.owner is not None and getattr(gate, 'owner_task', None) is asyncio.current_task():
                raise E.NotSupported('minimysql: a task that holds an open write transaction issued a statement on a second '
                                     'connection (would wait on itself; lock-level concurrency is not modelled)')
            await gate.acquire(sess)
            gate.owner_task = asyncio.current_task()
            if cb is not None and not sess.in_txn:
                # observed with the gate held: no other transaction is open, so the observer sees committed state only (matters
                # once two requests are in flight at the same time)
                await cb(sess)
        try:
            return eng.execute_node(sess, node, params)
        finally:
            # Transactions are serialised from their first write or locking read to COMMIT/ROLLBACK.  Plain (non-locking)
            # SELECTs -- in READ ONLY transactions, or before a transaction's first write -- take the gate per statement only:
            # they never see another transaction's uncommitted writes, and they do not block writers afterwards (InnoDB serves
            # them from MVCC snapshots; the repo nests streaming selects around write transactions in one task, e.g. scheduler,
            # canceller and the clean-up loops, which would self-deadlock under a per-transaction gate).
            hold = sess.in_txn and not sess.read_only and (owned or not plain_select)
            if not hold and gate.owner is sess:
                gate.release(sess)
                gate.owner_task = None

    def cursor(self, *cursors):
        cls = cursors[0] if cursors else self._cursorclass
        if len(cursors) > 1:
            cls = type('Cursor', tuple(cursors), {})
        cur = cls(self)

        async def mk():
            return cur
        return _AwaitableCtx(mk())

    async def begin(self):
        node, params = _prepare('BEGIN', None)
        await self._run(node, params, 'BEGIN')

    async def commit(self):
        node, params = _prepare('COMMIT', None)
        await self._run(node, params, 'COMMIT')

    async def rollback(self):
        node, params = _prepare('ROLLBACK', None)
        await self._run(node, params, 'ROLLBACK')

    async def autocommit(self, value):
        node, params = _prepare('SET autocommit = %s', (1 if value else 0,))
        await self._run(node, params, 'SET autocommit')

    def get_autocommit(self):
        return bool(self._sess.autocommit)

    def get_transaction_status(self):
        return bool(self._sess.in_txn)

    async def ping(self, reconnect=True):
        if self._closed:
            raise E.InterfaceError(0, 'Not connected')

    async def select_db(self, db):
        self.db = db

    def close(self):
        if not self._closed:
            self._closed = True
            self._engine.close_session(self._sess)

    async def ensure_closed(self):
        self.close()

    async def __aenter__(self):
        return self

    async def __aexit__(self, *a):
        self.close()


class Pool:
    def __init__(self, engine, minsize=1, maxsize=10, echo=False, pool_recycle=-1, loop=None, **kw):
        self._engine = engine
        self.minsize = minsize
        self.maxsize = maxsize
        self._kw = kw
        self._free: list = []
        self._used: set = set()
        self._waiters: list = []
        self._closing = False
        self._closed = False
        self._acquiring = 0

    @property
    def size(self):
        return len(self._free) + len(self._used) + self._acquiring

    @property
    def freesize(self):
        return len(self._free)

    @property
    def closed(self):
        return self._closed

    def acquire(self):
        return _PoolAcquireContextManager(self._acquire(), self)

    async def _acquire(self):
        if self._closing:
            raise RuntimeError('Cannot acquire connection after closing pool')
        hook = self._engine.fault_hook
        if hook is not None:
            hook(None, 'acquire', '')
        while True:
            while self._free:
                conn = self._free.pop()
                if not conn.closed:
                    self._used.add(conn)
                    return conn
            if self.size < self.maxsize:
                kw = dict(self._kw)
                conn = AioConnection(self._engine, autocommit=kw.pop('autocommit', False),
                                     cursorclass=kw.pop('cursorclass', AioCursor), **kw)
                self._used.add(conn)
                return conn
            fut = asyncio.get_running_loop().create_future()
            self._waiters.append(fut)
            try:
                await fut
            finally:
                if fut in self._waiters:
                    self._waiters.remove(fut)

    def _wakeup(self):
        for fut in self._waiters:
            if not fut.done():
                fut.set_result(None)
                break

    def release(self, conn):
        if conn in self._used:
            self._used.discard(conn)
            if not conn.closed:
                if conn.get_transaction_status():
                    # aiomysql closes connections released while a transaction is open (server rolls back)
                    conn.close()
                elif self._closing:
                    conn.close()
                else:
                    self._engine.gate.release(conn._sess)
                    self._free.append(conn)
            self._wakeup()
        return _Done()

    def close(self):
        self._closing = True

    def terminate(self):
        self.close()
        for c in list(self._used) + self._free:
            c.close()
        self._used.clear()
        self._free.clear()

    async def wait_closed(self):
        if self._closed:
            return
        if not self._closing:
            raise RuntimeError('.wait_closed() should be called after .close()')
        for c in self._free:
            c.close()
        self._free.clear()
        while self._used:
            fut = asyncio.get_running_loop().create_future()
            self._waiters.append(fut)
            await fut
        self._closed = True

    async def clear(self):
        for c in self._free:
            c.close()
        self._free.clear()

    async def __aenter__(self):
        return self

    async def __aexit__(self, *a):
        self.close()
        await self.wait_closed()


def create_pool(minsize=1, maxsize=10, echo=False, pool_recycle=-1, loop=None, **kwargs):
    async def mk():
        return Pool(get_engine(), minsize=minsize, maxsize=maxsize, echo=echo, pool_recycle=pool_recycle, **kwargs)
    return _PoolContextManager(mk())


def aio_connect(**kwargs):
    async def mk():
        kw = dict(kwargs)
        return AioConnection(get_engine(), autocommit=kw.pop('autocommit', False),
                             cursorclass=kw.pop('cursorclass', AioCursor), **kw)
    return _ConnectionContextManager(mk())


# ---------------------------------------------------------------------- synchronous pymysql facade
class SyncCursor(_CursorBase):
    def execute(self, query, args=None):
        node, params = _prepare(query, args)
        self._load(self.connection._run(node, params, query))
        return self.rowcount

    def executemany(self, query, args):
        if not args:
            return
        args = list(args)
        bulk = bulk_insert_node(query, args)
        if bulk is not None:
            self._load(self.connection._run(bulk[0], bulk[1], query))
            return self.rowcount
        rows = 0
        for a in args:
            self.execute(query, a)
            rows += self.rowcount
        self.rowcount = rows
        return rows

    def fetchone(self):
        return self._fetchone()

    def fetchmany(self, size=None):
        return self._fetchmany(size)

    def fetchall(self):
        return self._fetchall()

    def nextset(self):
        return self._next_set() or None

    def close(self):
        self._closed = True

    def __enter__(self):
        return self

    def __exit__(self, *a):
        self.close()

    def __iter__(self):
        return iter(self.fetchone, None)


class SyncDictCursor(SyncCursor):
    _dict = True


class SyncConnection:
    def __init__(self, engine, autocommit=False, cursorclass=SyncCursor, **kw):
        self._engine = engine
        self._sess = engine.connect(autocommit=bool(autocommit))
        self._cursorclass = cursorclass
        self._closed = False

    @property
    def open(self):
        return not self._closed

    def _run(self, node, params, sql):
        eng, sess = self._engine, self._sess
        hook = eng.fault_hook
        if hook is not None:
            hook(sess, _phase(node), sql)
        if not eng.gate.try_acquire(sess):
            raise E.OperationalError(1205, 'Lock wait timeout exceeded; try restarting transaction '
                                           '(minimysql: synchronous connection while another transaction is open)')
        try:
            return eng.execute_node(sess, node, params)
        finally:
            if not sess.in_txn:
                eng.gate.release(sess)

    def cursor(self, cursor=None):
        return (cursor or self._cursorclass)(self)

    def begin(self):
        self._run(*_prepare('BEGIN', None), 'BEGIN')

    def commit(self):
        self._run(*_prepare('COMMIT', None), 'COMMIT')

    def rollback(self):
        self._run(*_prepare('ROLLBACK', None), 'ROLLBACK')

    def autocommit(self, value):
        self._run(*_prepare('SET autocommit = %s', (1 if value else 0,)), 'SET autocommit')

    def get_autocommit(self):
        return bool(self._sess.autocommit)

    def ping(self, reconnect=True):
        pass

    def select_db(self, db):
        pass

    def close(self):
        if not self._closed:
            self._closed = True
            self._engine.close_session(self._sess)

    def __enter__(self):
        return self

    def __exit__(self, *a):
        self.close()


def sync_connect(*a, **kw):
    kw = dict(kw)
    return SyncConnection(get_engine(), autocommit=kw.pop('autocommit', False),
                          cursorclass=kw.pop('cursorclass', SyncCursor), **kw)


# ---------------------------------------------------------------------- module installation
def _module(name, **attrs):
    m = types.ModuleType(name)
    m.__dict__.update(attrs)
    m.__minimysql__ = True
    sys.modules[name] = m
    return m


def escape_string(value, mapping=None):
    return (value.replace('\\', '\\\\').replace('\0', '\\0').replace('\n', '\\n').replace('\r', '\\r')
            .replace('\032', '\\Z').replace("'", "\\'").replace('"', '\\"'))


_installed = False


def install():
    """Register fake pymysql / aiomysql modules.  Idempotent."""
    global _installed
    if _installed:
        return
    _installed = True
    err = _module('pymysql.err', MySQLError=E.MySQLError, Warning=E.Warning, Error=E.Error,
                  InterfaceError=E.InterfaceError, DatabaseError=E.DatabaseError, DataError=E.DataError,
                  OperationalError=E.OperationalError, IntegrityError=E.IntegrityError,
                  InternalError=E.InternalError, ProgrammingError=E.ProgrammingError,
                  NotSupportedError=E.NotSupportedError)
    er = _module('pymysql.constants.ER', DUP_ENTRY=1062, LOCK_DEADLOCK=1213, LOCK_WAIT_TIMEOUT=1205,
                 NO_REFERENCED_ROW_2=1452, ROW_IS_REFERENCED_2=1451, BAD_NULL_ERROR=1048, NO_DEFAULT_FOR_FIELD=1364,
                 SIGNAL_EXCEPTION=1644, TOO_MANY_ROWS=1172, SUBQUERY_NO_1_ROW=1242, NO_SUCH_TABLE=1146,
                 BAD_FIELD_ERROR=1054, PARSE_ERROR=1064, CON_COUNT_ERROR=1040, DATA_TOO_LONG=1406,
                 TRUNCATED_WRONG_VALUE_FOR_FIELD=1366, WARN_DATA_TRUNCATED=1265, SP_DOES_NOT_EXIST=1305)
    cr = _module('pymysql.constants.CR', CR_CONN_HOST_ERROR=2003, CR_SERVER_LOST=2013, CR_SERVER_GONE_ERROR=2006)
    client = _module('pymysql.constants.CLIENT', MULTI_STATEMENTS=1 << 16, FOUND_ROWS=2, MULTI_RESULTS=1 << 17)
    ft = _module('pymysql.constants.FIELD_TYPE', DECIMAL=0, TINY=1, SHORT=2, LONG=3, FLOAT=4, DOUBLE=5, NULL=6,
                 TIMESTAMP=7, LONGLONG=8, INT24=9, DATE=10, TIME=11, DATETIME=12, YEAR=13, VARCHAR=15, BIT=16,
                 JSON=245, NEWDECIMAL=246, ENUM=247, SET=248, TINY_BLOB=249, MEDIUM_BLOB=250, LONG_BLOB=251,
                 BLOB=252, VAR_STRING=253, STRING=254, GEOMETRY=255)
    constants = _module('pymysql.constants', ER=er, CR=cr, CLIENT=client, FIELD_TYPE=ft)
    constants.__path__ = []
    pcursors = _module('pymysql.cursors', Cursor=SyncCursor, DictCursor=SyncDictCursor, SSCursor=SyncCursor,
                       SSDictCursor=SyncDictCursor)
    conv = _module('pymysql.converters', escape_string=escape_string, escape_item=lambda v, charset=None, mapping=None:
                   _escape_args(v), escape_str=lambda v, mapping=None: "'" + escape_string(v) + "'",
                   conversions={}, encoders={}, decoders={})
    pconn = _module('pymysql.connections', Connection=SyncConnection)
    pm = _module('pymysql', err=err, constants=constants, cursors=pcursors, converters=conv, connections=pconn,
                 connect=sync_connect, Connect=sync_connect, Connection=SyncConnection,
                 escape_string=escape_string, install_as_MySQLdb=lambda: None, VERSION=(1, 1, 0, 'final', 1),
                 __version__='1.1.0', paramstyle='pyformat', apilevel='2.0', threadsafety=1)
    pm.__path__ = []
    for n in ('MySQLError', 'Warning', 'Error', 'InterfaceError', 'DatabaseError', 'DataError', 'OperationalError',
              'IntegrityError', 'InternalError', 'ProgrammingError', 'NotSupportedError'):
        setattr(pm, n, getattr(E, n))
    acursors = _module('aiomysql.cursors', Cursor=AioCursor, DictCursor=AioDictCursor, SSCursor=AioSSCursor,
                       SSDictCursor=AioSSDictCursor)
    autils = _module('aiomysql.utils', _PoolContextManager=_PoolContextManager,
                     _PoolAcquireContextManager=_PoolAcquireContextManager,
                     _ConnectionContextManager=_ConnectionContextManager, _ContextManager=_AwaitableCtx)
    apool = _module('aiomysql.pool', Pool=Pool, create_pool=create_pool)
    aconn = _module('aiomysql.connection', Connection=AioConnection, connect=aio_connect)
    am = _module('aiomysql', cursors=acursors, utils=autils, pool=apool, connection=aconn, Pool=Pool,
                 create_pool=create_pool, connect=aio_connect, Connection=AioConnection, Cursor=AioCursor,
                 DictCursor=AioDictCursor, SSCursor=AioSSCursor, SSDictCursor=AioSSDictCursor,
                 escape_string=escape_string, __version__='0.2.0')
    am.__path__ = []
    for n in ('MySQLError', 'Warning', 'Error', 'InterfaceError', 'DatabaseError', 'DataError', 'OperationalError',
              'IntegrityError', 'InternalError', 'ProgrammingError', 'NotSupportedError'):
        setattr(am, n, getattr(E, n))
