"""Statement execution: DML, CALL, SET, compound statements, routines, triggers."""
from __future__ import annotations

from itertools import islice

from . import values as V
from .compiler import Ctx, Env, Scope, Src
from .errors import NotSupported, SqlCondition, cond
from .nodes import N, walk
from .parser import parse_one
from .planner import SpecPlan, strip_paren
from .values import sort_key, truth


class _Leave(Exception):
    def __init__(self, label):
        self.label = label


class _Iterate(Exception):
    def __init__(self, label):
        self.label = label


class _Return(Exception):
    def __init__(self, value):
        self.value = value


class _ExitBlock(Exception):
    def __init__(self, block):
        self.block = block


class Frame:
    __slots__ = ('vars', 'types', 'new', 'old', 'handlers', 'cursors', 'ctx', 'kind', 'name')

    def __init__(self, ctx, kind, name):
        self.vars = {}
        self.types = {}
        self.new = None
        self.old = None
        self.handlers = []     # stack of (block node, [handler nodes])
        self.cursors = {}
        self.ctx = ctx
        self.kind = kind
        self.name = name


def _routine_varnames(params, body):
    names = {p[1].lower() for p in params}
    for x in walk(body):
        if x.k == 'declare':
            for n in x.names:
                names.add(n.lower())
    return frozenset(names)


_TXN_FREE = {'set', 'begin', 'commit', 'rollback', 'noop'}


class ExecutorMixin:
    # ------------------------------------------------------------------ top level
    def execute(self, sess, sql, args=None):
        """Parse (cached) + execute one client statement; returns Result.  Raises pymysql-style errors.
        Synchronous entry point: it does not take the transaction gate (use the aiomysql facade for that)."""
        if args is not None:
            from .driver import bind
            sql, params = bind(sql, args)
        else:
            params = ()
        try:
            node, nparams, _slips = parse_one(sql)
        except SqlCondition as c:
            raise c.to_error() from None
        return self.execute_node(sess, node, params)

    def execute_node(self, sess, node, params=()):
        from .engine import Result
        self.stats['statements'] += 1
        sess.params = params
        sess.result_sets = []
        sess.stmt_insert_id = 0
        mark = len(sess.undo)
        k = node.k
        try:
            if k not in _TXN_FREE and not sess.autocommit and not sess.in_txn and _touches_tables(node):
                sess.in_txn = True
            rc = self.exec_stmt(node, sess, None)
        except SqlCondition as c:
            if k != 'call':
                self.undo_to(sess, mark)
            self._end_statement(sess)
            raise c.to_error() from None
        except (_Leave, _Iterate, _Return, _ExitBlock):
            self.undo_to(sess, mark)
            raise cond(1064, 'control-flow statement outside of routine').to_error() from None
        except Exception:
            if k != 'call':
                self.undo_to(sess, mark)
            self._end_statement(sess)
            raise
        self._end_statement(sess)
        sets = sess.result_sets
        sess.result_sets = []
        if k in ('spec', 'union'):
            affected = len(sets[0].rows) if sets else 0
            sess.row_count = -1
        else:
            affected = rc if isinstance(rc, int) else 0
            if k in ('insert', 'update', 'delete'):
                sess.row_count = affected
            if k == 'call' and sets:
                affected = len(sets[0].rows)
        if sess.stmt_insert_id:
            sess.last_insert_id = sess.stmt_insert_id
        return Result(sets, affected, sess.stmt_insert_id)

    def _end_statement(self, sess):
        if not sess.in_txn:
            # autocommit statement (or statement after the transaction ended): make effects durable
            sess.undo.clear()

    # ------------------------------------------------------------------ dispatch
    def exec_stmt(self, node, sess, frame):
        k = node.k
        if k in ('spec', 'union'):
            return self.exec_select(node, sess, frame)
        m = getattr(self, 'x_' + k, None)
        if m is None:
            raise NotSupported(f'statement {k}')
        if k in ('insert', 'update', 'delete'):
            if sess.read_only:
                raise cond(1792, 'Cannot execute statement in a READ ONLY transaction.')
            mark = len(sess.undo)
            try:
                n = m(node, sess, frame)
            except BaseException:
                self.undo_to(sess, mark)     # statement-level atomicity
                raise
            sess.row_count = n
            return n
        return m(node, sess, frame)

    def _ctx(self, frame):
        return frame.ctx if frame is not None else self.top_ctx

    def _plan(self, node, frame, builder):
        p = self._plans.get(node)
        if p is None:
            p = self._plans[node] = builder(node, self._ctx(frame))
        return p

    # ------------------------------------------------------------------ SELECT
    def exec_select(self, node, sess, frame):
        from .engine import ResultSet
        plan = self._plan(node, frame, lambda n, ctx: self.planner.plan_query(n, None, ctx))
        penv = Env(0, None, frame, sess)
        if sess.read_only and getattr(node, 'for_update', False):
            raise cond(1792, 'Cannot execute statement in a READ ONLY transaction.')
        into = getattr(plan, 'into', None)
        if into:
            rows = list(islice(plan.run(penv), 2))
            if len(rows) > 1:
                raise cond(1172, 'Result consisted of more than one row')
            if not rows:
                sess.row_count = 0
                raise cond(1329, 'No data - zero rows fetched, selected, or processed', '02000')
            row = rows[0]
            if len(row) != len(into):
                raise cond(1222, 'The used SELECT statements have a different number of columns')
            for (kind, name), v in zip(into, row):
                if v.__class__ is V.JsonDoc:
                    v = V.json_dumps(v.obj)
                if kind == 'u':
                    sess.user_vars[name] = v
                else:
                    self._set_var(frame, name, v)
            sess.row_count = 1
            return 1
        if sess.in_fn_or_trigger and frame is not None and frame.kind != 'procedure':
            raise cond(1415, 'Not allowed to return a result set from a ' + frame.kind)
        rows = list(plan.run(penv))
        sess.result_sets.append(ResultSet(list(plan.colnames), list(plan.coltables), rows))
        sess.row_count = -1
        return len(rows)

    def _set_var(self, frame, name, v):
        ln = name.lower()
        if frame is None or ln not in frame.vars:
            raise cond(1327, f'Undeclared variable: {name}')
        ty = frame.types.get(ln)
        frame.vars[ln] = V.coerce(v, ty, 'variable', name) if v is not None else None

    # ------------------------------------------------------------------ INSERT
    def _plan_insert(self, node, ctx):
        xc = self.planner.xc
        t = self.get_table(node.table)
        p = N('insert_plan', table=t)
        cols = [t.canon(c) for c in node.cols] if node.cols is not None else list(t.colnames)
        if len(set(cols)) != len(cols):
            raise cond(1110, 'Column specified twice')
        p.cols = cols
        base = Scope(ctx)
        p.rows = None
        p.select = None
        sel_scope = None
        if node.rows is not None:
            p.rows = []
            for r in node.rows:
                if len(r) != len(cols):
                    raise cond(1136, "Column count doesn't match value count at row 1")
                fns = []
                for e, c in zip(r, cols):
                    if e.k == 'default':
                        fns.append(None)
                    else:
                        fns.append(xc.compile(e, base))
                p.rows.append(fns)
        else:
            sp = self.planner.plan_query(node.select, None, ctx)
            if len(sp.colnames) != len(cols):
                raise cond(1136, "Column count doesn't match value count at row 1")
            p.select = sp
            if isinstance(sp, SpecPlan) and sp.simple:
                sel_scope = sp.scope
            # does the SELECT read the target table?  then MySQL buffers the result in a temporary table
            lt = t.name.lower()
            p.self_ref = any(x.k == 'src' and x.kind == 'table' and x.name.lower() == lt for x in walk(node.select))
            # select-list items that ARE a user-variable assignment (`@v := expr`, not nested in another function):
            # when reading the buffered rows back MySQL re-executes "@v := <stored column>" for each row
            # (sql_select.cc change_to_use_tmp_fields: SUSERVAR_FUNC); nested assignments are not re-evaluated.
            p.top_assigns = []
            if node.select.k == 'spec':
                for i, it in enumerate(node.select.items):
                    e0 = strip_paren(it.e)
                    if e0.k == 'assign':
                        p.top_assigns.append((i, e0.name))
        p.odku = None
        if node.odku:
            sc = Scope(ctx)
            sc.sources.append(Src(t.name, t.colnames, {c.name: True for c in t.cols if c.cs}, t, 0))
            if node.row_alias:
                names = node.col_aliases or t.colnames
                sc.sources.append(Src(node.row_alias, names, {}, None, 1))
            elif sel_scope is not None:
                for s in sel_scope.sources:
                    sc.sources.append(Src(s.alias, s.cols, s.cs, s.table, s.idx + 1, s.dbl))
                sc.using_cols = sel_scope.using_cols
            p.odku = []
            for c, e in node.odku:
                if c.t is not None and c.t.lower() != t.name.lower():
                    raise cond(1054, f"Unknown column '{c.t}.{c.name}' in 'field list'")
                col = t.colmap.get(c.name.lower())
                if col is None:
                    raise cond(1054, f"Unknown column '{c.name}' in 'field list'")
                p.odku.append((col, xc.compile(e, sc)))
            p.odku_nsrc = len(sc.sources)
            p.row_alias = bool(node.row_alias)
            p.alias_names = (node.col_aliases or t.colnames) if node.row_alias else None
        p.ignore = node.ignore
        return p

    def x_insert(self, node, sess, frame):
        p = self._plan(node, frame, self._plan_insert)
        t = p.table
        cols = p.cols
        env = Env(0, None, frame, sess)
        affected = 0
        sel_env_holder = [None]
        odku = None
        if p.odku is not None:
            oenv = Env(p.odku_nsrc, None, frame, sess)
            assigns = p.odku

            def odku(crow, proposed):
                work = dict(crow)
                oenv.rows[0] = work
                oenv.vrow = proposed
                if p.row_alias:
                    oenv.rows[1] = dict(zip(p.alias_names, [proposed[c] for c in t.colnames]))
                else:
                    se = sel_env_holder[0]
                    if se is not None:
                        oenv.rows[1:] = se.rows
                    oenv.parent = se.parent if se is not None else None
                for col, f in assigns:
                    v = f(oenv)
                    if v.__class__ is V.JsonDoc:
                        v = V.json_dumps(v.obj)
                    work[col.name] = V.coerce(v, col.ty, 'column', col.name) if v is not None else None
                return work
        if p.rows is not None:
            for fns in p.rows:
                given = {}
                for c, f in zip(cols, fns):
                    if f is None:
                        continue
                    v = f(env)
                    if v.__class__ is V.JsonDoc:
                        v = V.json_dumps(v.obj)
                    given[c] = v
                affected += self.insert_row(sess, t, given, odku, p.ignore)
            return affected
        penv = Env(0, None, frame, sess)
        if p.self_ref and self.insert_select_same_table_buffered:
            # MySQL materialises the SELECT into a temporary table first when the target table is also read:
            # every select-list expression (including @v := ...) is evaluated for ALL rows before any insert.
            buffered = [out for out, _e in p.select.run_env(penv)]
            for out in buffered:
                for i, name in p.top_assigns:
                    sess.user_vars[name] = out[i]
                affected += self.insert_row(sess, t, dict(zip(cols, _unjson(out))), odku, p.ignore)
            return affected
        for out, senv in p.select.run_env(penv):
            sel_env_holder[0] = senv if (p.odku is not None and p.odku_nsrc > 1 and not p.row_alias) else None
            affected += self.insert_row(sess, t, dict(zip(cols, _unjson(out))), odku, p.ignore)
        return affected

    # ------------------------------------------------------------------ UPDATE
    def _plan_update(self, node, ctx):
        xc = self.planner.xc
        spec = N('spec', distinct=False, items=[N('item', e=N('lit', v=1), alias=None, text='1')], from_=node.srcs,
                 where=node.where, group=[], having=None, order=[], limit=None, offset=None, into=None, ctes=[])
        sp = self.planner.plan_spec(spec, Scope(ctx))
        scope = sp.scope
        p = N('update_plan', sp=sp)
        p.multi = len(node.srcs) > 1
        p.assigns = []   # (src idx, Column, fn)
        for c, e in node.sets:
            r = xc.resolve(scope, c.t, c.name)
            if r[0] != 'col' or r[1] != 0:
                raise cond(1054, f"Unknown column '{c.name}' in 'field list'")
            idx = r[2]
            tbl = sp.srcs[idx].table
            if tbl is None:
                raise cond(1288, f'The target table {scope.sources[idx].alias} of the UPDATE is not updatable')
            p.assigns.append((idx, tbl.colmap[r[3].lower()], xc.compile(e, scope)))
        p.order = [(xc.compile(e, scope), d, xc.static_cs(e, scope)) for e, d in node.order]
        p.limit = xc.compile(node.limit, Scope(ctx)) if node.limit is not None else None
        if p.multi and (node.order or node.limit is not None):
            raise cond(1221, 'Incorrect usage of UPDATE and ORDER BY')
        p.targets = sorted({a[0] for a in p.assigns})
        return p

    def x_update(self, node, sess, frame):
        p = self._plan(node, frame, self._plan_update)
        sp = p.sp
        penv = Env(0, None, frame, sess)
        if not p.multi:
            t = sp.srcs[0].table
            if p.order:
                keyed = []
                for env in sp.joined(penv):
                    keyed.append(([sort_key(f(env), cs) for f, _d, cs in p.order], env.rows[0]))
                for i in range(len(p.order) - 1, -1, -1):
                    keyed.sort(key=lambda x, i=i: x[0][i], reverse=p.order[i][1])
                rows = [r for _k, r in keyed]
            else:
                rows = [env.rows[0] for env in sp.joined(penv)]
            if p.limit is not None:
                rows = rows[:int(p.limit(penv))]
            env = Env(1, penv, frame, sess)
            n = 0
            for row in rows:
                if row.rid not in t.rows:
                    continue
                new = dict(row)
                env.rows[0] = new          # single-table UPDATE: assignments are evaluated left to right
                for _i, col, f in p.assigns:
                    v = f(env)
                    if v.__class__ is V.JsonDoc:
                        v = V.json_dumps(v.obj)
                    new[col.name] = V.coerce(v, col.ty, 'column', col.name) if v is not None else None
                if self.update_row(sess, t, row, new):
                    n += 1
            return n
        # ---- multi-table UPDATE
        targets = p.targets
        seen = {i: set() for i in targets}
        pending = []       # (src idx, table, row, new dict)
        n = 0
        fly = self.multi_update_on_the_fly and 0 in targets
        env2 = Env(sp.nsrc, penv, frame, sess)
        if fly:
            it = sp.joined(penv)
        else:
            # the join is evaluated completely against the pre-statement state
            it = [e.rows[:] for e in sp.joined(penv)]
        for item in it:
            snap = item if not fly else item.rows[:]
            env2.rows = snap
            for i in targets:
                row = snap[i]
                if row is None or row.rid in seen[i]:
                    continue
                seen[i].add(row.rid)
                tbl = sp.srcs[i].table
                new = dict(row)
                if fly and i == 0:
                    work = snap[:]
                    work[0] = new
                    env2.rows = work
                for j, col, f in p.assigns:
                    if j != i:
                        continue
                    v = f(env2)
                    if v.__class__ is V.JsonDoc:
                        v = V.json_dumps(v.obj)
                    new[col.name] = V.coerce(v, col.ty, 'column', col.name) if v is not None else None
                env2.rows = snap
                if fly and i == 0:
                    if self.update_row(sess, tbl, row, new):
                        n += 1
                else:
                    pending.append((i, tbl, row, new))
        for i in targets:
            for j, tbl, row, new in pending:
                if j == i and row.rid in tbl.rows:
                    if self.update_row(sess, tbl, row, new):
                        n += 1
        return n

    # ------------------------------------------------------------------ DELETE
    def _plan_delete(self, node, ctx):
        xc = self.planner.xc
        spec = N('spec', distinct=False, items=[N('item', e=N('lit', v=1), alias=None, text='1')], from_=node.srcs,
                 where=node.where, group=[], having=None, order=[], limit=None, offset=None, into=None, ctes=[])
        sp = self.planner.plan_spec(spec, Scope(ctx))
        scope = sp.scope
        p = N('delete_plan', sp=sp)
        if node.targets is None:
            if len(node.srcs) != 1:
                raise cond(1064, 'multi-table DELETE requires target list')
            p.targets = [0]
        else:
            p.targets = []
            for tname in node.targets:
                idx = next((s.idx for s in scope.sources if s.lalias == tname.lower()), None)
                if idx is None:
                    raise cond(1109, f"Unknown table '{tname}' in MULTI DELETE")
                p.targets.append(idx)
            if node.order or node.limit is not None:
                raise cond(1064, 'ORDER BY/LIMIT not allowed in multi-table DELETE')
        for i in p.targets:
            if sp.srcs[i].table is None:
                raise cond(1288, 'The target table of the DELETE is not updatable')
        p.order = [(xc.compile(e, scope), d, xc.static_cs(e, scope)) for e, d in node.order]
        p.limit = xc.compile(node.limit, Scope(ctx)) if node.limit is not None else None
        return p

    def x_delete(self, node, sess, frame):
        p = self._plan(node, frame, self._plan_delete)
        sp = p.sp
        penv = Env(0, None, frame, sess)
        if p.order:
            keyed = [([sort_key(f(env), cs) for f, _d, cs in p.order], env.rows[:]) for env in sp.joined(penv)]
            for i in range(len(p.order) - 1, -1, -1):
                keyed.sort(key=lambda x, i=i: x[0][i], reverse=p.order[i][1])
            snaps = [s for _k, s in keyed]
        else:
            snaps = [env.rows[:] for env in sp.joined(penv)]
        if p.limit is not None:
            snaps = snaps[:int(p.limit(penv))]
        n = 0
        for i in p.targets:
            tbl = sp.srcs[i].table
            for snap in snaps:
                row = snap[i]
                if row is not None and self.delete_row(sess, tbl, row):
                    n += 1
        return n

    # ------------------------------------------------------------------ transactions / SET / misc
    def x_begin(self, node, sess, frame):
        self.begin(sess, node.read_only)
        return 0

    def x_commit(self, node, sess, frame):
        self.commit(sess)
        return 0

    def x_rollback(self, node, sess, frame):
        self.rollback(sess)
        return 0

    def x_noop(self, node, sess, frame):
        return 0

    def x_set(self, node, sess, frame):
        fns = self._plan(node, frame, lambda n, ctx: [self.planner.xc.compile(e, Scope(ctx)) for _t, e in n.assigns])
        env = Env(0, None, frame, sess)
        for (target, _e), f in zip(node.assigns, fns):
            v = f(env)
            if v.__class__ is V.JsonDoc:
                v = V.json_dumps(v.obj)
            kind = target[0]
            if kind == 'u':
                sess.user_vars[target[1]] = v
            elif kind == 'v' and frame is not None and target[1].lower() in frame.vars:
                self._set_var(frame, target[1], v)
            elif kind in ('s', 'v'):
                self._set_sysvar(sess, target[1].lower(), v)
            elif kind == 'n':
                which = target[1].lower()
                if frame is None or frame.new is None or which != 'new':
                    raise cond(1362 if which == 'old' else 1054, f"Updating of {target[1]} row is not allowed here")
                if frame.name[1] != 'before':
                    raise cond(1362, 'Updating of NEW row is not allowed in after trigger')
                tbl = frame.ctx.trigger_table
                col = tbl.colmap.get(target[2].lower())
                if col is None:
                    raise cond(1054, f"Unknown column '{target[2]}' in 'NEW'")
                frame.new[col.name] = V.coerce(v, col.ty, 'column', col.name) if v is not None else None
        return 0

    def _set_sysvar(self, sess, name, v):
        if name == 'autocommit':
            on = bool(truth(v))
            if on and not sess.autocommit and (sess.in_txn or sess.undo):
                self.commit(sess)
            sess.autocommit = on
            return
        if name in ('sql_mode', 'foreign_key_checks', 'unique_checks', 'innodb_lock_wait_timeout', 'time_zone',
                    'sql_safe_updates', 'group_concat_max_len', 'net_read_timeout', 'net_write_timeout',
                    'wait_timeout', 'interactive_timeout', 'max_execution_time', 'sql_notes', 'character_set_client',
                    'character_set_results', 'character_set_connection', 'collation_connection',
                    'transaction_isolation', 'tx_isolation', 'sql_log_bin', 'lock_wait_timeout',
                    'information_schema_stats_expiry'):
            sess.sysvars[name] = v
            return
        raise cond(1193, f"Unknown system variable '{name}'")

    def x_create_table(self, node, sess, frame):
        self._implicit_commit(sess)
        self.ddl_create_table(node)
        return 0

    def x_create_index(self, node, sess, frame):
        self._implicit_commit(sess)
        self.ddl_create_index(node)
        return 0

    def x_alter(self, node, sess, frame):
        self._implicit_commit(sess)
        self.ddl_alter(node)
        return 0

    def x_drop(self, node, sess, frame):
        self._implicit_commit(sess)
        self.ddl_drop(node)
        return 0

    def x_rename(self, node, sess, frame):
        self._implicit_commit(sess)
        self.ddl_rename(node.pairs)
        return 0

    def x_truncate(self, node, sess, frame):
        self._implicit_commit(sess)
        t = self.get_table(node.table)
        for r in list(t.rows.values()):
            t.raw_delete(r)
        t.auto_next = 1
        return 0

    def x_create_routine(self, node, sess, frame):
        self._implicit_commit(sess)
        self.ddl_create_routine(node)
        return 0

    def x_create_trigger(self, node, sess, frame):
        self._implicit_commit(sess)
        self.ddl_create_trigger(node)
        return 0

    def _implicit_commit(self, sess):
        if sess.in_fn_or_trigger:
            raise cond(1422, 'Explicit or implicit commit is not allowed in stored function or trigger.')
        self.commit(sess)

    # ------------------------------------------------------------------ CALL / routines
    def _routine_ctx(self, r):
        if r.ctx is None:
            r.ctx = Ctx(self, _routine_varnames(r.params, r.body), None, r.kind)
        return r.ctx

    def x_call(self, node, sess, frame):
        r = self.procedures.get(node.name.lower())
        if r is None:
            raise cond(1305, f'PROCEDURE {node.name} does not exist')
        if len(node.args) != len(r.params):
            raise cond(1318, f'Incorrect number of arguments for PROCEDURE {r.name}; expected {len(r.params)}, '
                             f'got {len(node.args)}')
        fns = self._plan(node, frame, lambda n, ctx: [self.planner.xc.compile(a, Scope(ctx)) for a in n.args])
        env = Env(0, None, frame, sess)
        f2 = Frame(self._routine_ctx(r), 'procedure', r.name)
        outs = []
        for (mode, pname, pty), a, fn in zip(r.params, node.args, fns):
            ln = pname.lower()
            f2.types[ln] = pty
            if mode in ('OUT', 'INOUT'):
                a0 = strip_paren(a)
                if a0.k == 'uvar':
                    outs.append((ln, 'u', a0.name))
                elif a0.k == 'col' and a0.t is None and frame is not None and a0.name.lower() in frame.vars:
                    outs.append((ln, 'v', a0.name))
                else:
                    raise cond(1414, f'OUT or INOUT argument for routine {r.name} is not a variable')
            if mode == 'OUT':
                f2.vars[ln] = None
            else:
                v = fn(env)
                f2.vars[ln] = V.coerce(v, pty, 'variable', pname) if v is not None else None
        sess.depth += 1
        try:
            self.run_body(r.body, sess, f2)
        except _Return:
            raise cond(1313, 'RETURN is only allowed in a FUNCTION')
        except (_Leave, _Iterate) as e:
            raise cond(1308, f'LEAVE/ITERATE with no matching label: {e.label}')
        finally:
            sess.depth -= 1
        for ln, kind, name in outs:
            v = f2.vars[ln]
            if kind == 'u':
                sess.user_vars[name] = v
            else:
                self._set_var(frame, name, v)
        return sess.row_count if isinstance(sess.row_count, int) and sess.row_count > 0 else 0

    def call_function(self, lname, args, sess):
        r = self.functions.get(lname)
        if r is None:
            raise cond(1305, f'FUNCTION {lname} does not exist')
        if len(args) != len(r.params):
            raise cond(1318, f'Incorrect number of arguments for FUNCTION {r.name}; expected {len(r.params)}, '
                             f'got {len(args)}')
        f2 = Frame(self._routine_ctx(r), 'function', r.name)
        for (_m, pname, pty), v in zip(r.params, args):
            ln = pname.lower()
            f2.types[ln] = pty
            if v.__class__ is V.JsonDoc:
                v = V.json_dumps(v.obj)
            f2.vars[ln] = V.coerce(v, pty, 'variable', pname) if v is not None else None
        sess.depth += 1
        sess.in_fn_or_trigger += 1
        saved_rc = sess.row_count
        try:
            self.run_body(r.body, sess, f2)
        except _Return as ret:
            v = ret.value
            return V.coerce(v, r.returns, 'return value', r.name) if v is not None else None
        finally:
            sess.depth -= 1
            sess.in_fn_or_trigger -= 1
            sess.row_count = saved_rc
        raise cond(1321, f'FUNCTION {r.name} ended without RETURN')

    def run_trigger(self, sess, tr, old, new):
        if tr.ctx is None:
            tr.ctx = Ctx(self, _routine_varnames([], tr.body), self.get_table(tr.table), 'trigger')
        f2 = Frame(tr.ctx, 'trigger', (tr.name, tr.time, tr.event))
        f2.new = new
        f2.old = old
        sess.depth += 1
        sess.in_fn_or_trigger += 1
        saved_rc = sess.row_count
        try:
            self.run_body(tr.body, sess, f2)
        except _Return:
            raise cond(1313, 'RETURN is only allowed in a FUNCTION')
        finally:
            sess.depth -= 1
            sess.in_fn_or_trigger -= 1
            sess.row_count = saved_rc

    # ------------------------------------------------------------------ compound statements
    def run_body(self, stmt, sess, frame):
        self.run_stmt(stmt, sess, frame)

    def run_stmt(self, st, sess, frame):
        k = st.k
        if k == 'block':
            return self._run_block(st, sess, frame)
        if k == 'if':
            fns = self._plan(st, frame, lambda n, ctx: [self.planner.xc.compile(c, Scope(ctx)) for c, _b in n.branches])
            env = Env(0, None, frame, sess)
            for f, (_c, body) in zip(fns, st.branches):
                try:
                    t = truth(f(env))
                except SqlCondition as c:
                    if self._handle(c, sess, frame):
                        return
                    raise
                if t:
                    for s in body:
                        self.run_stmt(s, sess, frame)
                    return
            if st.els is not None:
                for s in st.els:
                    self.run_stmt(s, sess, frame)
            return
        if k == 'loop':
            while True:
                try:
                    for s in st.body:
                        self.run_stmt(s, sess, frame)
                except _Iterate as e:
                    if st.label is None or e.label.lower() != st.label.lower():
                        raise
                except _Leave as e:
                    if st.label is None or e.label.lower() != st.label.lower():
                        raise
                    return
        if k == 'while' or k == 'repeat':
            f = self._plan(st, frame, lambda n, ctx: self.planner.xc.compile(n.cond, Scope(ctx)))
            env = Env(0, None, frame, sess)
            first = True
            while True:
                if k == 'while':
                    if not truth(f(env)):
                        return
                elif not first and truth(f(env)):
                    return
                first = False
                try:
                    for s in st.body:
                        self.run_stmt(s, sess, frame)
                except _Iterate as e:
                    if st.label is None or e.label.lower() != st.label.lower():
                        raise
                except _Leave as e:
                    if st.label is None or e.label.lower() != st.label.lower():
                        raise
                    return
        if k == 'leave':
            raise _Leave(st.label)
        if k == 'iterate':
            raise _Iterate(st.label)
        # ---- simple statements: conditions are offered to the active handlers
        try:
            if k == 'return':
                f = self._plan(st, frame, lambda n, ctx: self.planner.xc.compile(n.e, Scope(ctx)))
                v = f(Env(0, None, frame, sess))
                if v.__class__ is V.JsonDoc:
                    v = V.json_dumps(v.obj)
                raise _Return(v)
            if k == 'declare' or k == 'declare_cursor' or k == 'declare_handler':
                raise cond(1064, 'DECLARE must be at the start of a BEGIN ... END block')
            if k == 'open':
                return self._cursor_open(st, sess, frame)
            if k == 'fetch':
                return self._cursor_fetch(st, sess, frame)
            if k == 'close':
                c = frame.cursors.get(st.name.lower())
                if c is None or c[1] is None:
                    raise cond(1326, 'Cursor is not open')
                c[1] = None
                return
            if k == 'signal':
                return self._signal(st, sess, frame)
            return self.exec_stmt(st, sess, frame)
        except SqlCondition as c:
            if self._handle(c, sess, frame):
                return
            raise

    def _handle(self, c, sess, frame) -> bool:
        """Offer condition `c` to the handlers of `frame`.  True: handled by a CONTINUE handler (or ignorable
        warning / not-found without handler).  EXIT handlers raise _ExitBlock."""
        cls = c.sqlstate[:2]
        for block, handlers in reversed(frame.handlers):
            for h in handlers:
                for hc in h.conds:
                    kind = hc[0]
                    ok = (kind == 'notfound' and cls == '02') or \
                         (kind == 'sqlexception' and cls not in ('00', '01', '02')) or \
                         (kind == 'sqlwarning' and cls == '01') or \
                         (kind == 'sqlstate' and hc[1] == c.sqlstate) or \
                         (kind == 'errno' and hc[1] == c.code)
                    if ok:
                        self.run_stmt(h.stmt, sess, frame)
                        if h.action == 'continue':
                            return True
                        raise _ExitBlock(block)
        if cls in ('01', '02'):
            sess.warnings.append((c.code, c.message))
            return True
        return False

    def _run_block(self, st, sess, frame):
        saved = {}
        handlers = []
        declared = []
        body = st.body
        i = 0
        env = Env(0, None, frame, sess)
        frame.handlers.append((st, handlers))
        try:
            while i < len(body) and body[i].k in ('declare', 'declare_cursor', 'declare_handler'):
                d = body[i]
                i += 1
                if d.k == 'declare':
                    f = None
                    if d.default is not None:
                        f = self._plan(d, frame, lambda n, ctx: self.planner.xc.compile(n.default, Scope(ctx)))
                    for name in d.names:
                        ln = name.lower()
                        if ln in frame.vars and ln not in saved:
                            saved[ln] = (frame.vars[ln], frame.types.get(ln))
                        declared.append(ln)
                        frame.types[ln] = d.ty
                        v = f(env) if f is not None else None
                        frame.vars[ln] = V.coerce(v, d.ty, 'variable', name) if v is not None else None
                elif d.k == 'declare_cursor':
                    frame.cursors[d.name.lower()] = [d, None]
                else:
                    handlers.append(d)
            try:
                while i < len(body):
                    self.run_stmt(body[i], sess, frame)
                    i += 1
            except _ExitBlock as e:
                if e.block is not st:
                    raise
            except _Leave as e:
                if st.label is None or e.label.lower() != st.label.lower():
                    raise
        finally:
            frame.handlers.pop()
            for ln in declared:
                if ln in saved:
                    frame.vars[ln], frame.types[ln] = saved[ln]

    def _cursor_open(self, st, sess, frame):
        c = frame.cursors.get(st.name.lower())
        if c is None:
            raise cond(1324, f'Undefined CURSOR: {st.name}')
        if c[1] is not None:
            raise cond(1325, 'Cursor is already open')
        d = c[0]
        plan = self._plan(d.q, frame, lambda n, ctx: self.planner.plan_query(n, None, ctx))
        c[1] = iter(list(plan.run(Env(0, None, frame, sess))))

    def _cursor_fetch(self, st, sess, frame):
        c = frame.cursors.get(st.name.lower())
        if c is None:
            raise cond(1324, f'Undefined CURSOR: {st.name}')
        if c[1] is None:
            raise cond(1326, 'Cursor is not open')
        row = next(c[1], None)
        if row is None:
            raise cond(1329, 'No data - zero rows fetched, selected, or processed', '02000')
        if len(row) != len(st.targets):
            raise cond(1328, 'Incorrect number of FETCH variables')
        for name, v in zip(st.targets, row):
            self._set_var(frame, name, v)

    def _signal(self, st, sess, frame):
        fns = self._plan(st, frame, lambda n, ctx: (
            self.planner.xc.compile(n.msg, Scope(ctx)) if n.msg is not None else None,
            self.planner.xc.compile(n.errno, Scope(ctx)) if n.errno is not None else None))
        env = Env(0, None, frame, sess)
        msg = fns[0](env) if fns[0] is not None else 'Unhandled user-defined exception condition'
        errno = fns[1](env) if fns[1] is not None else None
        state = st.sqlstate
        if errno is None:
            errno = 1642 if state[:2] == '01' else (1643 if state[:2] == '02' else 1644)
        raise SqlCondition(int(errno), state, V.to_str(msg))


def _unjson(out):
    for v in out:
        if v.__class__ is V.JsonDoc:
            return [V.json_dumps(x.obj) if x.__class__ is V.JsonDoc else x for x in out]
    return out


def _touches_tables(node):
    k = node.k
    if k in ('insert', 'update', 'delete', 'call'):
        return True
    if k in ('spec', 'union'):
        for x in walk(node):
            if x.k == 'src' or (x.k == 'func'):
                return True
        return False
    return False
