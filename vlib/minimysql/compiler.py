"""Compile expression ASTs into Python closures  fn(env) -> value."""
from __future__ import annotations

import datetime
import re
from decimal import Decimal
from itertools import islice

from . import values as V
from .errors import NotSupported, cond
from .nodes import N, walk
from .parse_expr import AGGREGATES
from .values import arith, compare, truth


class Env:
    __slots__ = ('rows', 'parent', 'frame', 'sess', 'aggs', 'vrow', 'cache')

    def __init__(self, n, parent, frame, sess):
        self.rows = [None] * n
        self.parent = parent
        self.frame = frame
        self.sess = sess
        self.aggs = None
        self.vrow = None     # row proposed for insertion (VALUES(col) in ON DUPLICATE KEY UPDATE)
        self.cache = None


class Src:
    """Compile-time description of one FROM source."""
    __slots__ = ('alias', 'lalias', 'cols', 'lmap', 'cs', 'table', 'idx', 'dbl')

    def __init__(self, alias, cols, cs=None, table=None, idx=0, dbl=None):
        self.dbl = dbl if dbl is not None else (
            {c.name for c in table.cols if c.ty.base == 'double'} if table is not None else set())
        self.alias = alias
        self.lalias = alias.lower()
        self.cols = list(cols)
        self.lmap = {c.lower(): c for c in self.cols}
        self.cs = cs or {}
        self.table = table
        self.idx = idx


class Ctx:
    """Static context of a statement: which routine variables are visible, trigger NEW/OLD table."""
    __slots__ = ('engine', 'varnames', 'trigger_table', 'kind')

    def __init__(self, engine, varnames=frozenset(), trigger_table=None, kind='top'):
        self.engine = engine
        self.varnames = varnames
        self.trigger_table = trigger_table
        self.kind = kind


class Scope:
    __slots__ = ('ctx', 'sources', 'parent', 'ctes', 'using_cols', 'aliases', 'agg_map', 'group_cols', 'mode')

    def __init__(self, ctx, parent=None):
        self.ctx = ctx
        self.sources: list[Src] = []
        self.parent = parent
        self.ctes = {}
        self.using_cols = set()
        self.aliases = None      # lower alias -> compiled item fn (HAVING / ORDER BY expressions)
        self.agg_map = None      # id(node) -> index into env.aggs
        self.group_cols = ()
        self.mode = 'row'

    def find_cte(self, lname):
        s = self
        while s is not None:
            if lname in s.ctes:
                return s.ctes[lname]
            s = s.parent
        return None


_BUILTIN_KNOWN = {
    'DATE_FORMAT', 'STR_TO_DATE', 'DATE_ADD', 'DATE_SUB', 'DATEDIFF', 'TIMESTAMPDIFF', 'FROM_UNIXTIME', 'SUBSTRING',
    'SUBSTR', 'SUBSTRING_INDEX', 'REPLACE', 'TRIM', 'LTRIM', 'RTRIM', 'LPAD', 'RPAD', 'INSTR', 'LOCATE', 'LEFT',
    'RIGHT', 'REVERSE', 'REPEAT', 'MD5', 'SHA1', 'SHA2', 'UUID', 'HEX', 'UNHEX', 'CONCAT_WS', 'FIELD', 'FIND_IN_SET',
    'JSON_VALUE', 'JSON_SET', 'JSON_INSERT', 'JSON_REPLACE', 'JSON_REMOVE', 'JSON_KEYS', 'JSON_LENGTH', 'JSON_MERGE',
    'JSON_MERGE_PATCH', 'JSON_MERGE_PRESERVE', 'JSON_SEARCH', 'JSON_TYPE', 'JSON_VALID', 'JSON_TABLE', 'POW', 'POWER',
    'SQRT', 'EXP', 'LN', 'LOG', 'LOG2', 'LOG10', 'SIGN', 'TRUNCATE', 'CONV', 'BIT_COUNT', 'SLEEP', 'GET_LOCK',
    'RELEASE_LOCK', 'DATABASE', 'USER', 'VERSION', 'CONNECTION_ID', 'FOUND_ROWS', 'YEAR', 'MONTH', 'DAY', 'HOUR',
    'MINUTE', 'SECOND', 'CURDATE', 'CURTIME', 'SYSDATE', 'TIMESTAMP', 'TIME', 'ISNULL', 'STRCMP', 'ELT', 'CHAR',
    'ASCII', 'ORD', 'BIN', 'OCT', 'FORMAT', 'CRC32', 'INET_ATON', 'INET_NTOA', 'ANY_VALUE', 'GROUPING', 'AVG',
    'GROUP_CONCAT', 'BIT_OR', 'BIT_AND', 'STD', 'STDDEV', 'VARIANCE', 'RANK', 'DENSE_RANK', 'LAG', 'LEAD',
    'UTC_TIME', 'CONVERT_TZ', 'LAST_DAY', 'WEEK', 'DAYOFWEEK', 'TO_DAYS', 'FROM_DAYS', 'UNIX_TIMESTAMP_MS',
}


def _like_to_re(pat: str, esc: str, cs: bool):
    out = []
    i = 0
    while i < len(pat):
        c = pat[i]
        if c == esc and i + 1 < len(pat):
            out.append(re.escape(pat[i + 1]))
            i += 2
            continue
        if c == '%':
            out.append('.*')
        elif c == '_':
            out.append('.')
        else:
            out.append(re.escape(c))
        i += 1
    return re.compile(''.join(out), re.S if cs else re.S | re.I)


class ExprCompiler:
    def __init__(self, engine):
        self.engine = engine

    # ------------------------------------------------------------------ name resolution
    def resolve(self, scope: Scope, tname, cname):
        """-> ('col', depth, idx, canonical, cs) | ('var', lname) | ('new'|'old', canonical, cs)"""
        lc = cname.lower()
        ctx = scope.ctx
        if tname is not None:
            lt = tname.lower()
            s, d = scope, 0
            while s is not None:
                for src in s.sources:
                    if src.lalias == lt:
                        c = src.lmap.get(lc)
                        if c is None:
                            raise cond(1054, f"Unknown column '{tname}.{cname}' in 'field list'")
                        return ('col', d, src.idx, c, src.cs.get(c, False))
                s = s.parent
                d += 1
            if lt in ('new', 'old') and ctx.trigger_table is not None:
                col = ctx.trigger_table.colmap.get(lc)
                if col is None:
                    raise cond(1054, f"Unknown column '{cname}' in '{tname.upper()}'")
                return (lt, col.name, col.cs)
            raise cond(1054, f"Unknown column '{tname}.{cname}' in 'field list'")
        if lc in ctx.varnames:
            return ('var', lc)
        s, d = scope, 0
        while s is not None:
            hits = [src for src in s.sources if lc in src.lmap]
            if hits:
                if len(hits) > 1 and lc not in s.using_cols:
                    raise cond(1052, f"Column '{cname}' in field list is ambiguous")
                src = hits[0]
                c = src.lmap[lc]
                return ('col', d, src.idx, c, src.cs.get(c, False))
            s = s.parent
            d += 1
        raise cond(1054, f"Unknown column '{cname}' in 'field list'")

    def try_resolve(self, scope, node):
        try:
            return self.resolve(scope, node.t, node.name)
        except Exception:
            return None

    def static_cs(self, node, scope) -> bool:
        """Does comparing this expression use a case-sensitive collation?"""
        k = node.k
        if k == 'paren':
            return self.static_cs(node.e, scope)
        if k == 'binary':
            return True
        if k == 'collate':
            return node.cs
        if k == 'col':
            r = self.try_resolve(scope, node)
            if r is None or r[0] == 'var':
                return False
            return bool(r[-1])
        if k == 'func' and node.name in ('COALESCE', 'IFNULL', 'IF', 'MAX', 'MIN', 'LOWER', 'UPPER'):
            return any(self.static_cs(a, scope) for a in node.args if isinstance(a, N))
        return False

    _DBL_FUNCS = {'SUM', 'AVG', 'MAX', 'MIN', 'COALESCE', 'IFNULL', 'IF', 'GREATEST', 'LEAST', 'ABS', 'ROUND', 'FLOOR',
                  'CEIL', 'CEILING', 'NULLIF'}

    def static_double(self, node, scope) -> bool:
        """Static result-type inference, only as far as needed to return DOUBLE (python float) from
        COALESCE/IFNULL/IF/CASE over a DOUBLE expression when the chosen branch is an integer literal
        (e.g. COALESCE(SUM(`usage` * rate), 0) is 0.0, not 0, for zero rows)."""
        k = node.k
        if k == 'lit':
            return isinstance(node.v, float)
        if k in ('paren', 'neg'):
            return self.static_double(node.e, scope)
        if k == 'bin':
            return node.op in ('+', '-', '*', '/', '%') and (self.static_double(node.l, scope)
                                                             or self.static_double(node.r, scope))
        if k == 'col':
            r = self.try_resolve(scope, node)
            if r is None or r[0] == 'var':
                return False
            if r[0] == 'col':
                s, d = scope, r[1]
                while d:
                    s = s.parent
                    d -= 1
                return r[3] in s.sources[r[2]].dbl
            return scope.ctx.trigger_table.colmap[r[1].lower()].ty.base == 'double'
        if k == 'func':
            if node.name == 'RAND':
                return True
            if node.name in self._DBL_FUNCS:
                args = node.args[1:] if node.name == 'IF' else node.args
                return any(self.static_double(a, scope) for a in args)
            return False
        if k == 'case':
            return any(self.static_double(v, scope) for _c, v in node.whens) or \
                (node.els is not None and self.static_double(node.els, scope))
        if k == 'cast':
            return node.ty.base == 'double'
        if k == 'assign':
            return self.static_double(node.e, scope)
        return False

    @staticmethod
    def _as_double(f):
        def g(env):
            v = f(env)
            if v is not None and v.__class__ is not float and isinstance(v, (int, Decimal)):
                return float(v)
            return v
        return g

    def static_enum(self, node, scope) -> bool:
        """Is the expression a bare ENUM column?  (ENUMs order by member index in MySQL, which minimysql does
        not model: ordering comparisons on them are refused.)"""
        node = node
        while node.k == 'paren':
            node = node.e
        if node.k != 'col':
            return False
        r = self.try_resolve(scope, node)
        if r is None:
            return False
        if r[0] == 'col':
            s, d = scope, r[1]
            while d:
                s = s.parent
                d -= 1
            t = s.sources[r[2]].table
            return t is not None and t.colmap[r[3].lower()].ty.base == 'enum'
        if r[0] in ('new', 'old'):
            return scope.ctx.trigger_table.colmap[r[1].lower()].ty.base == 'enum'
        return False

    def local_sources(self, node, scope):
        """-> (set of local source indexes referenced, pure: bool).  pure=False when the expression contains
        subqueries, assignments, aggregates or non-deterministic functions, or cannot be resolved."""
        srcs = set()
        pure = True
        for x in walk(node):
            k = x.k
            if k == 'col':
                r = self.try_resolve(scope, x)
                if r is None:
                    return srcs, False
                if r[0] == 'col' and r[1] == 0:
                    srcs.add(r[2])
            elif k in ('subq', 'exists', 'assign', 'window', 'spec', 'union', 'values', 'default'):
                pure = False
            elif k == 'in' and x.sub is not None:
                pure = False
            elif k == 'func':
                if x.name in AGGREGATES or x.name in ('RAND', 'UUID', 'ROW_COUNT', 'LAST_INSERT_ID') or \
                        self.is_stored_function(x.name):
                    pure = False
            elif k == 'star':
                pure = False
        return srcs, pure

    def is_stored_function(self, name):
        return name.lower() in self.engine.functions

    # ------------------------------------------------------------------ expressions
    def compile(self, node, scope: Scope):
        m = getattr(self, 'c_' + node.k, None)
        if m is None:
            raise NotSupported(f'expression node {node.k}')
        return m(node, scope)

    def c_lit(self, node, scope):
        v = node.v
        return lambda env: v

    def c_paren(self, node, scope):
        return self.compile(node.e, scope)

    def c_param(self, node, scope):
        i = node.i
        return lambda env: env.sess.params[i]

    def c_uvar(self, node, scope):
        name = node.name
        return lambda env: env.sess.user_vars.get(name)

    def c_sysvar(self, node, scope):
        name = node.name.split('.')[-1]
        if name == 'autocommit':
            return lambda env: 1 if env.sess.autocommit else 0
        if name in ('tx_isolation', 'transaction_isolation'):
            return lambda env: 'REPEATABLE-READ'
        raise NotSupported(f'system variable @@{name}')

    def c_assign(self, node, scope):
        name = node.name
        f = self.compile(node.e, scope)

        def assign(env):
            v = f(env)
            env.sess.user_vars[name] = v
            return v
        return assign

    def c_col(self, node, scope):
        # select aliases in HAVING / ORDER BY expressions
        if scope.aliases is not None and node.t is None:
            ln = node.name.lower()
            if scope.mode == 'having':
                if ln not in scope.group_cols and ln in scope.aliases and ln not in scope.ctx.varnames:
                    return scope.aliases[ln]
        try:
            r = self.resolve(scope, node.t, node.name)
        except Exception as e:
            if scope.aliases is not None and node.t is None and node.name.lower() in scope.aliases \
                    and getattr(e, 'code', None) == 1054:
                return scope.aliases[node.name.lower()]
            raise
        kind = r[0]
        if kind == 'var':
            name = r[1]
            return lambda env: env.frame.vars[name]
        if kind == 'new':
            c = r[1]
            return lambda env: env.frame.new[c]
        if kind == 'old':
            c = r[1]
            return lambda env: env.frame.old[c]
        _, depth, idx, c, _cs = r
        if depth == 0:
            def col0(env):
                row = env.rows[idx]
                return None if row is None else row[c]
            return col0
        if depth == 1:
            def col1(env):
                row = env.parent.rows[idx]
                return None if row is None else row[c]
            return col1

        def coln(env):
            e = env
            for _ in range(depth):
                e = e.parent
            row = e.rows[idx]
            return None if row is None else row[c]
        return coln

    def c_values(self, node, scope):
        # VALUES(col) inside ON DUPLICATE KEY UPDATE
        name = node.col
        tbl = getattr(scope, 'sources', None)
        canon = None
        for s in scope.sources[:1]:
            canon = s.lmap.get(name.lower())
        if canon is None:
            raise cond(1054, f"Unknown column '{name}' in 'field list'")

        def f(env):
            e = env
            while e is not None and e.vrow is None:
                e = e.parent
            return None if e is None else e.vrow[canon]
        return f

    def c_not(self, node, scope):
        f = self.compile(node.e, scope)

        def not_(env):
            t = truth(f(env))
            return None if t is None else (0 if t else 1)
        return not_

    def c_and(self, node, scope):
        l, r = self.compile(node.l, scope), self.compile(node.r, scope)

        def and_(env):
            a = truth(l(env))
            if a is False:
                return 0
            b = truth(r(env))
            if b is False:
                return 0
            if a is None or b is None:
                return None
            return 1
        return and_

    def c_or(self, node, scope):
        l, r = self.compile(node.l, scope), self.compile(node.r, scope)

        def or_(env):
            a = truth(l(env))
            if a is True:
                return 1
            b = truth(r(env))
            if b is True:
                return 1
            if a is None or b is None:
                return None
            return 0
        return or_

    def c_xor(self, node, scope):
        l, r = self.compile(node.l, scope), self.compile(node.r, scope)

        def xor_(env):
            a, b = truth(l(env)), truth(r(env))
            if a is None or b is None:
                return None
            return 1 if a != b else 0
        return xor_

    def c_neg(self, node, scope):
        f = self.compile(node.e, scope)
        return lambda env: V.negate(f(env))

    def c_binary(self, node, scope):
        return self.compile(node.e, scope)

    def c_collate(self, node, scope):
        return self.compile(node.e, scope)

    def c_bin(self, node, scope):
        op = node.op
        l, r = self.compile(node.l, scope), self.compile(node.r, scope)
        if op == '+':
            def add(env):
                a, b = l(env), r(env)
                if type(a) is int and type(b) is int:
                    return a + b
                return arith('+', a, b)
            return add
        if op == '*':
            def mul(env):
                a, b = l(env), r(env)
                if type(a) is int and type(b) is int:
                    return a * b
                return arith('*', a, b)
            return mul
        if op == '-':
            def sub(env):
                a, b = l(env), r(env)
                if type(a) is int and type(b) is int:
                    return a - b
                return arith('-', a, b)
            return sub
        return lambda env: arith(op, l(env), r(env))

    def c_cmp(self, node, scope):
        op = node.op
        if node.l.k == 'row' or node.r.k == 'row':
            return self._row_cmp(node, scope)
        l, r = self.compile(node.l, scope), self.compile(node.r, scope)
        cs = self.static_cs(node.l, scope) or self.static_cs(node.r, scope)
        if op == '=':
            def eq(env):
                a, b = l(env), r(env)
                if a is None or b is None:
                    return None
                if type(a) is int and type(b) is int:
                    return 1 if a == b else 0
                return 1 if compare(a, b, cs) == 0 else 0
            return eq
        if op == '<=>':
            def nseq(env):
                a, b = l(env), r(env)
                if a is None or b is None:
                    return 1 if a is None and b is None else 0
                return 1 if compare(a, b, cs) == 0 else 0
            return nseq
        if op != '<>' and (self.static_enum(node.l, scope) or self.static_enum(node.r, scope)):
            raise NotSupported('ordering comparison on an ENUM column (MySQL compares ENUM member indexes)')
        test = {'<>': lambda c: c != 0, '<': lambda c: c < 0, '<=': lambda c: c <= 0, '>': lambda c: c > 0,
                '>=': lambda c: c >= 0}[op]

        def cmp_(env):
            c = compare(l(env), r(env), cs)
            return None if c is None else (1 if test(c) else 0)
        return cmp_

    def _row_cmp(self, node, scope):
        if node.op not in ('=', '<>') or node.l.k != 'row' or node.r.k != 'row' or len(node.l.items) != len(node.r.items):
            raise NotSupported('row comparison other than (a,b) = (c,d)')
        parts = [self.c_cmp(N('cmp', op='=', l=a, r=b), scope) for a, b in zip(node.l.items, node.r.items)]
        neg = node.op == '<>'

        def f(env):
            res = 1
            for p in parts:
                v = p(env)
                if v == 0:
                    res = 0
                    break
                if v is None:
                    res = None
            if neg and res is not None:
                return 0 if res else 1
            return res
        return f

    def c_is(self, node, scope):
        f = self.compile(node.e, scope)
        neg = node.neg
        what = node.what
        if what == 'NULL':
            if neg:
                return lambda env: 0 if f(env) is None else 1
            return lambda env: 1 if f(env) is None else 0
        want = {'TRUE': True, 'FALSE': False, 'UNKNOWN': None}[what]

        def is_(env):
            r = truth(f(env)) is want
            return (0 if r else 1) if neg else (1 if r else 0)
        return is_

    def c_between(self, node, scope):
        ge = self.c_cmp(N('cmp', op='>=', l=node.e, r=node.lo), scope)
        le = self.c_cmp(N('cmp', op='<=', l=node.e, r=node.hi), scope)
        neg = node.neg

        def between(env):
            a, b = ge(env), le(env)
            if a == 0 or b == 0:
                res = 0
            elif a is None or b is None:
                res = None
            else:
                res = 1
            if neg and res is not None:
                return 0 if res else 1
            return res
        return between

    def c_like(self, node, scope):
        f, p = self.compile(node.e, scope), self.compile(node.pat, scope)
        esc = self.compile(node.esc, scope) if node.esc is not None else None
        cs = self.static_cs(node.e, scope) or self.static_cs(node.pat, scope)
        neg = node.neg
        cache = {}

        def like(env):
            a, b = f(env), p(env)
            if a is None or b is None:
                return None
            e = '\\' if esc is None else (esc(env) or '\\')
            a, b = V.to_str(a), V.to_str(b)
            rx = cache.get((b, e))
            if rx is None:
                if len(cache) > 500:
                    cache.clear()
                src = b if cs else V.ci_key(b)
                rx = cache[(b, e)] = _like_to_re(src, e, cs)
            r = rx.fullmatch(a if cs else V.ci_key(a)) is not None
            return (0 if r else 1) if neg else (1 if r else 0)
        return like

    def c_case(self, node, scope):
        whens = []
        for c, v in node.whens:
            if node.operand is not None:
                cf = self.c_cmp(N('cmp', op='=', l=node.operand, r=c), scope)
            else:
                cf = self.compile(c, scope)
            whens.append((cf, self.compile(v, scope)))
        els = self.compile(node.els, scope) if node.els is not None else None

        def case(env):
            for cf, vf in whens:
                if truth(cf(env)):
                    return vf(env)
            return None if els is None else els(env)
        return self._as_double(case) if self.static_double(node, scope) else case

    def c_cast(self, node, scope):
        f = self.compile(node.e, scope)
        ty = node.ty
        if ty.base == 'int' and not ty.unsigned:
            def cast_int(env):
                v = f(env)
                if type(v) is int:
                    return v
                return V.cast_signed(v)
            return cast_int
        return lambda env: V.cast(f(env), ty)

    def c_row(self, node, scope):
        raise NotSupported('row constructor outside IN / comparison')

    def c_star(self, node, scope):
        raise cond(1064, "unexpected '*' in expression")

    def c_default(self, node, scope):
        raise NotSupported('DEFAULT in expression')

    def c_window(self, node, scope):
        if scope.agg_map is None or id(node) not in scope.agg_map:
            raise NotSupported('window function in this context')
        i = scope.agg_map[id(node)]
        return lambda env: env.aggs[i]

    # ---- subqueries
    def c_subq(self, node, scope):
        plan = self.engine.planner.plan_query(node.q, scope)
        if len(plan.colnames) != 1:
            raise cond(1241, 'Operand should contain 1 column(s)')

        def scalar(env):
            it = plan.run(env)
            rows = list(islice(it, 2))
            if len(rows) > 1:
                raise cond(1242, 'Subquery returns more than 1 row')
            return rows[0][0] if rows else None
        return scalar

    def c_exists(self, node, scope):
        plan = self.engine.planner.plan_query(node.q, scope)

        def exists(env):
            for _ in plan.run(env):
                return 1
            return 0
        return exists

    def c_in(self, node, scope):
        neg = node.neg
        lhs_row = node.e.k == 'row'
        lhs_nodes = node.e.items if lhs_row else [node.e]
        lhs = [self.compile(x, scope) for x in lhs_nodes]
        n = len(lhs)
        lcs = [self.static_cs(x, scope) for x in lhs_nodes]

        def finish(res):
            if neg and res is not None:
                return 0 if res else 1
            return res

        def match(lv, rv, css):
            res = 1
            for a, b, cs in zip(lv, rv, css):
                c = compare(a, b, cs)
                if c is None:
                    res = None
                elif c != 0:
                    return 0
            return res

        if node.sub is not None:
            plan = self.engine.planner.plan_query(node.sub, scope)
            if len(plan.colnames) != n:
                raise cond(1241, f'Operand should contain {n} column(s)')
            css = [a or b for a, b in zip(lcs, plan.col_cs)]

            def in_sub(env):
                lv = [f(env) for f in lhs]
                res = 0
                for row in plan.run(env):
                    m = match(lv, row, css)
                    if m == 1:
                        return finish(1)
                    if m is None:
                        res = None
                return finish(res)
            return in_sub
        if node.plist is not None:
            pi = node.plist.i
            if lhs_row:
                raise NotSupported('row IN parameter list')
            f0 = lhs[0]
            cs0 = lcs[0]

            def in_param(env):
                seq = env.sess.params[pi]
                if not isinstance(seq, (list, tuple, set, frozenset)):
                    raise cond(1064, 'IN parameter must be a sequence')
                a = f0(env)
                res = 0
                for b in seq:
                    c = compare(a, _param_value(b), cs0)
                    if c == 0:
                        return finish(1)
                    if c is None:
                        res = None
                return finish(res)
            return in_param
        items = []
        for it in node.items:
            if lhs_row:
                if it.k != 'row' or len(it.items) != n:
                    raise cond(1241, f'Operand should contain {n} column(s)')
                items.append(([self.compile(x, scope) for x in it.items],
                              [a or self.static_cs(x, scope) for a, x in zip(lcs, it.items)]))
            else:
                items.append(([self.compile(it, scope)], [lcs[0] or self.static_cs(it, scope)]))

        def in_list(env):
            lv = [f(env) for f in lhs]
            res = 0
            for fs, css in items:
                m = match(lv, [f(env) for f in fs], css)
                if m == 1:
                    return finish(1)
                if m is None:
                    res = None
            return finish(res)
        return in_list

    # ---- functions
    def c_func(self, node, scope):
        name = node.name
        if name in AGGREGATES:
            if scope.agg_map is not None and id(node) in scope.agg_map:
                i = scope.agg_map[id(node)]
                return lambda env: env.aggs[i]
            raise cond(1111, f'Invalid use of group function {name}')
        args = [self.compile(a, scope) for a in node.args]
        n = len(args)
        eng = self.engine
        if name in ('COALESCE',):
            def coalesce(env):
                for a in args:
                    v = a(env)
                    if v is not None:
                        return v
                return None
            return self._as_double(coalesce) if self.static_double(node, scope) else coalesce
        if name == 'IFNULL':
            self._argc(name, n, 2)
            a0, a1 = args

            def ifnull(env):
                v = a0(env)
                return v if v is not None else a1(env)
            return self._as_double(ifnull) if self.static_double(node, scope) else ifnull
        if name == 'IF':
            self._argc(name, n, 3)
            c, a, b = args
            if_ = lambda env: a(env) if truth(c(env)) else b(env)   # noqa: E731
            return self._as_double(if_) if self.static_double(node, scope) else if_
        if name == 'NULLIF':
            self._argc(name, n, 2)
            a0, a1 = args
            cs = self.static_cs(node.args[0], scope) or self.static_cs(node.args[1], scope)

            def nullif(env):
                x = a0(env)
                return None if compare(x, a1(env), cs) == 0 else x
            return nullif
        if name in ('GREATEST', 'LEAST'):
            if n < 2:
                raise cond(1582, f"Incorrect parameter count in the call to native function '{name}'")
            want = 1 if name == 'GREATEST' else -1
            cs = any(self.static_cs(a, scope) for a in node.args)

            def extreme(env):
                vals = [a(env) for a in args]
                for v in vals:
                    if v is None:
                        return None       # MySQL 8.0: GREATEST/LEAST return NULL if any argument is NULL
                if all(isinstance(v, (int, float, Decimal)) for v in vals):
                    return max(vals) if want == 1 else min(vals)
                if any(isinstance(v, (int, float, Decimal)) for v in vals):
                    vals = [V.to_number(v) for v in vals]
                    return max(vals) if want == 1 else min(vals)
                best = vals[0]
                for v in vals[1:]:
                    if compare(v, best, cs) == want:
                        best = v
                return best
            return extreme
        if name == 'FLOOR' or name in ('CEIL', 'CEILING'):
            self._argc(name, n, 1)
            a0 = args[0]
            import math
            fn = math.floor if name == 'FLOOR' else math.ceil

            def floor_(env):
                v = a0(env)
                if v is None:
                    return None
                v = V.to_number(v)
                if isinstance(v, int):
                    return v
                if isinstance(v, Decimal):
                    return int(v.to_integral_value(rounding='ROUND_FLOOR' if name == 'FLOOR' else 'ROUND_CEILING'))
                return float(fn(v))
            return floor_
        if name == 'ROUND':
            if n not in (1, 2):
                raise cond(1582, "Incorrect parameter count in the call to native function 'ROUND'")
            a0 = args[0]
            a1 = args[1] if n == 2 else (lambda env: 0)

            def round_(env):
                v, d = a0(env), a1(env)
                if v is None or d is None:
                    return None
                v = V.to_number(v)
                d = int(d)
                if isinstance(v, int):
                    if d >= 0:
                        return v
                    q = 10 ** (-d)
                    return V.round_half_away(Decimal(v) / q) * q
                if isinstance(v, Decimal):
                    r = v.quantize(Decimal(1).scaleb(-d), rounding='ROUND_HALF_UP')
                    return r if d > 0 else Decimal(int(r))
                return float(round(v, d)) if d > 0 else float(V.round_half_away(v * (10 ** d)) / (10 ** d)) if d < 0 \
                    else float(V.round_half_away(v))
            return round_
        if name == 'ABS':
            self._argc(name, n, 1)
            a0 = args[0]

            def abs_(env):
                v = a0(env)
                return None if v is None else abs(V.to_number(v))
            return abs_
        if name == 'MOD':
            self._argc(name, n, 2)
            return lambda env: arith('%', args[0](env), args[1](env))
        if name == 'RAND':
            if n:
                raise NotSupported('RAND(seed)')
            return lambda env: float(eng.rand_source())
        if name in ('UTC_DATE', 'CURRENT_DATE', 'CURDATE'):
            return lambda env: datetime.datetime.fromtimestamp(eng.clock(), datetime.timezone.utc).date()
        if name in ('NOW', 'CURRENT_TIMESTAMP', 'UTC_TIMESTAMP', 'LOCALTIME', 'LOCALTIMESTAMP', 'SYSDATE'):
            return lambda env: datetime.datetime.fromtimestamp(eng.clock(), datetime.timezone.utc).replace(
                tzinfo=None, microsecond=0)
        if name == 'UNIX_TIMESTAMP':
            if n == 0:
                return lambda env: int(eng.clock())
            raise NotSupported('UNIX_TIMESTAMP(arg)')
        if name == 'DATE':
            self._argc(name, n, 1)
            from .nodes import TypeSpec
            ty = TypeSpec('date')
            return lambda env: V.cast(args[0](env), ty)
        if name == 'ROW_COUNT':
            return lambda env: env.sess.row_count
        if name == 'LAST_INSERT_ID':
            if n:
                raise NotSupported('LAST_INSERT_ID(expr)')
            return lambda env: env.sess.last_insert_id
        if name == 'CONCAT':
            def concat(env):
                out = []
                for a in args:
                    v = a(env)
                    if v is None:
                        return None
                    out.append(V.to_str(v))
                return ''.join(out)
            return concat
        if name in ('LENGTH', 'OCTET_LENGTH'):
            self._argc(name, n, 1)

            def length(env):
                v = args[0](env)
                if v is None:
                    return None
                return len(v) if isinstance(v, bytes) else len(V.to_str(v).encode('utf-8'))
            return length
        if name in ('CHAR_LENGTH', 'CHARACTER_LENGTH'):
            self._argc(name, n, 1)
            return lambda env: (lambda v: None if v is None else len(V.to_str(v)))(args[0](env))
        if name in ('LOWER', 'LCASE', 'UPPER', 'UCASE'):
            self._argc(name, n, 1)
            up = name in ('UPPER', 'UCASE')

            def case_(env):
                v = args[0](env)
                if v is None:
                    return None
                s = V.to_str(v)
                return s.upper() if up else s.lower()
            return case_
        if name == 'JSON_OBJECT':
            if n % 2:
                raise cond(1582, "Incorrect parameter count in the call to native function 'JSON_OBJECT'")

            def json_object(env):
                d = {}
                for i in range(0, n, 2):
                    k = args[i](env)
                    if k is None:
                        raise cond(3158, 'JSON documents may not contain NULL member names.')
                    d[V.to_str(k)] = V.json_value_of(args[i + 1](env))
                return V.JsonDoc(d)
            return _json_out(json_object)
        if name == 'JSON_ARRAY':
            return _json_out(lambda env: V.JsonDoc([V.json_value_of(a(env)) for a in args]))
        if name == 'JSON_QUOTE':
            self._argc(name, n, 1)
            return lambda env: (lambda v: None if v is None else V.json_dumps(V.to_str(v)))(args[0](env))
        if name == 'JSON_UNQUOTE':
            self._argc(name, n, 1)

            def json_unquote(env):
                v = args[0](env)
                if v is None:
                    return None
                if isinstance(v, V.JsonDoc):
                    return v.obj if isinstance(v.obj, str) else V.json_dumps(v.obj)
                s = V.to_str(v)
                if len(s) >= 2 and s[0] == '"' and s[-1] == '"':
                    import json
                    try:
                        return json.loads(s)
                    except ValueError:
                        raise cond(3141, 'Invalid JSON text in argument 1 to function json_unquote')
                return s
            return json_unquote
        if name == 'JSON_EXTRACT':
            if n != 2:
                raise NotSupported('JSON_EXTRACT with several paths')

            def json_extract(env):
                d, p = args[0](env), args[1](env)
                if d is None or p is None:
                    return None
                r = V.json_path_get(V.json_parse(d), V.to_str(p))
                if r is V._MISSING:
                    return None
                return V.JsonDoc(r)
            return _json_out(json_extract)
        if name == 'JSON_CONTAINS':
            if n != 2:
                raise NotSupported('JSON_CONTAINS with path')

            def json_contains(env):
                t, c = args[0](env), args[1](env)
                if t is None or c is None:
                    return None
                return 1 if _json_contains(V.json_parse(t), V.json_parse(c)) else 0
            return json_contains
        # stored function?
        lname = name.lower()
        if lname in eng.functions or name not in _BUILTIN_KNOWN:
            def call(env):
                return eng.call_function(lname, [a(env) for a in args], env.sess)
            return call
        raise NotSupported(f'function {name}()')

    @staticmethod
    def _argc(name, n, want):
        if n != want:
            raise cond(1582, f"Incorrect parameter count in the call to native function '{name}'")


def _param_value(b):
    if isinstance(b, bool):
        return int(b)
    return b


def _json_out(f):
    """JSON-typed function results: keep JsonDoc internally (for nesting); the engine converts JsonDoc to text
    when the value leaves expression evaluation (see Engine.finish_value)."""
    return f


def _json_contains(target, cand):
    if isinstance(target, list):
        if isinstance(cand, list):
            return all(any(_json_contains(t, c) for t in target) for c in cand)
        return any(_json_contains(t, cand) for t in target)
    if isinstance(target, dict):
        if not isinstance(cand, dict):
            return False
        return all(k in target and _json_contains(target[k], v) for k, v in cand.items())
    if isinstance(cand, (list, dict)):
        return False
    if isinstance(target, bool) or isinstance(cand, bool):
        return target is cand
    if isinstance(target, (int, float)) and isinstance(cand, (int, float)):
        return target == cand
    return type(target) is type(cand) and target == cand
