"""Top-level parser: DDL, stored routines, triggers, compound statements."""
from __future__ import annotations

from .errors import NotSupported
from .nodes import N, TypeSpec
from .parse_expr import _collation_is_cs
from .parse_stmt import StmtParser

_INT_TYPES = {'INT': 4, 'INTEGER': 4, 'BIGINT': 8, 'SMALLINT': 2, 'TINYINT': 1, 'MEDIUMINT': 3}
_TEXT_TYPES = {'TEXT': 65535, 'MEDIUMTEXT': 16777215, 'LONGTEXT': 4294967295, 'TINYTEXT': 255}
_BLOB_TYPES = {'BLOB': 65535, 'MEDIUMBLOB': 16777215, 'LONGBLOB': 4294967295, 'TINYBLOB': 255}


class Parser(StmtParser):
    # ------------------------------------------------------------------ entry points
    def parse_statement(self):
        """One top-level statement (trailing ';' allowed)."""
        st = self._statement(top=True)
        while self.accept_op(';'):
            pass
        if self.cur.k != 'eof':
            self.fail('unexpected trailing input')
        if st.k in ('spec', 'union'):
            st.for_update = self.saw_for_update
            st.locking_read = getattr(self, 'saw_locking', False)
        return st

    def parse_script(self):
        """Several ';'-separated statements -> [(node, source_text)]."""
        out = []
        while True:
            while self.accept_op(';'):
                pass
            if self.cur.k == 'eof':
                return out
            start = self.cur.pos
            st = self._statement(top=True)
            end = self.toks[self.i - 1].end
            out.append((st, self.sql[start:end]))
            if self.cur.k != 'eof' and not self.at_op(';'):
                self.fail('unexpected trailing input')

    def _statement(self, top=False):
        st = self.parse_simple_statement()
        if st is not None:
            return st
        u = self.cur.u
        if u == 'CREATE':
            return self.parse_create()
        if u == 'DROP':
            return self.parse_drop()
        if u == 'ALTER':
            return self.parse_alter()
        if u == 'RENAME':
            return self.parse_rename()
        if u == 'TRUNCATE':
            self.adv()
            self.accept_kw('TABLE')
            return N('truncate', table=self.ident())
        if u == 'SHOW' or u == 'EXPLAIN' or u == 'DESCRIBE' or u == 'ANALYZE' or u == 'OPTIMIZE':
            raise NotSupported(u)
        if u == 'GRANT' or u == 'REVOKE' or u == 'FLUSH':
            raise NotSupported(u)
        self.fail('unknown statement')

    # ------------------------------------------------------------------ data types
    def parse_type(self):
        t = self.cur
        if t.k != 'id':
            self.fail('expected data type')
        u = t.u
        self.adv()
        ts = None
        if u in _INT_TYPES:
            size = _INT_TYPES[u]
            ln = None
            if self.accept_op('('):
                ln = self.adv().v
                self.expect_op(')')
            ts = TypeSpec('int', length=size)
            if u == 'TINYINT' and ln == 1:
                ts = TypeSpec('int', length=1)
        elif u in ('BOOLEAN', 'BOOL'):
            ts = TypeSpec('int', length=1)
        elif u in ('VARCHAR', 'CHAR', 'NVARCHAR', 'NCHAR'):
            ln = 1
            if self.accept_op('('):
                ln = self.adv().v
                self.expect_op(')')
            ts = TypeSpec('char', length=ln)
        elif u in _TEXT_TYPES:
            if self.accept_op('('):
                self.adv()
                self.expect_op(')')
            ts = TypeSpec('text', length=_TEXT_TYPES[u])
        elif u in _BLOB_TYPES:
            ts = TypeSpec('blob', length=_BLOB_TYPES[u])
        elif u in ('VARBINARY', 'BINARY'):
            ln = 1
            if self.accept_op('('):
                ln = self.adv().v
                self.expect_op(')')
            ts = TypeSpec('blob', length=ln)
        elif u in ('DOUBLE', 'FLOAT', 'REAL'):
            self.accept_kw('PRECISION')
            if self.accept_op('('):
                while not self.at_op(')'):
                    self.adv()
                self.expect_op(')')
            ts = TypeSpec('double')
        elif u in ('DECIMAL', 'DEC', 'NUMERIC', 'FIXED'):
            p, s = 10, 0
            if self.accept_op('('):
                p = self.adv().v
                if self.accept_op(','):
                    s = self.adv().v
                self.expect_op(')')
            ts = TypeSpec('decimal', length=p, scale=s)
        elif u == 'ENUM':
            self.expect_op('(')
            vals = [self.adv().v]
            while self.accept_op(','):
                vals.append(self.adv().v)
            self.expect_op(')')
            ts = TypeSpec('enum', enum=vals)
        elif u == 'SET':
            raise NotSupported('SET column type')
        elif u == 'DATE':
            ts = TypeSpec('date')
        elif u in ('DATETIME', 'TIMESTAMP'):
            if self.accept_op('('):
                self.adv()
                self.expect_op(')')
            ts = TypeSpec('datetime')
        elif u == 'TIME' or u == 'YEAR':
            raise NotSupported(f'{u} type')
        elif u == 'JSON':
            ts = TypeSpec('json')
        elif u == 'BIT':
            raise NotSupported('BIT type')
        else:
            self.fail(f'unknown data type {u}')
        while True:
            if self.accept_kw('UNSIGNED'):
                ts.unsigned = True
            elif self.accept_kw('SIGNED', 'ZEROFILL'):
                pass
            elif self.at_kw('CHARACTER') and self.peek_kw(1, 'SET'):
                self.adv()
                self.adv()
                cs = self.ident(allow_reserved=True)
                if cs.lower() == 'binary':
                    ts.cs = True
            elif self.at_kw('CHARSET'):
                self.adv()
                self.ident(allow_reserved=True)
            elif self.at_kw('COLLATE'):
                self.adv()
                ts.cs = _collation_is_cs(self.ident(allow_reserved=True))
            elif self.at_kw('BINARY'):
                self.adv()
                ts.cs = True
            else:
                return ts

    # ------------------------------------------------------------------ CREATE
    def parse_create(self):
        self.expect_kw('CREATE')
        if self.at_kw('OR'):
            raise NotSupported('CREATE OR REPLACE')
        if self.at_kw('DEFINER'):
            self.adv()
            self.expect_op('=')
            while not self.at_kw('PROCEDURE', 'FUNCTION', 'TRIGGER', 'VIEW', 'EVENT'):
                self.adv()
        if self.at_kw('TEMPORARY'):
            raise NotSupported('TEMPORARY tables')
        if self.at_kw('TABLE'):
            return self.parse_create_table()
        if self.at_kw('UNIQUE', 'INDEX', 'FULLTEXT', 'SPATIAL'):
            unique = bool(self.accept_kw('UNIQUE'))
            if self.at_kw('FULLTEXT', 'SPATIAL'):
                raise NotSupported(self.cur.u + ' index')
            self.expect_kw('INDEX')
            name = self.ident(allow_reserved=True)
            if self.at_kw('USING'):
                self.adv()
                self.adv()
            self.expect_kw('ON')
            table = self.ident()
            cols = self._index_cols()
            self._skip_index_options()
            return N('create_index', name=name, table=table, cols=cols, unique=unique)
        if self.at_kw('PROCEDURE'):
            return self.parse_create_routine('procedure')
        if self.at_kw('FUNCTION'):
            return self.parse_create_routine('function')
        if self.at_kw('TRIGGER'):
            return self.parse_create_trigger()
        if self.at_kw('DATABASE', 'SCHEMA', 'VIEW', 'EVENT', 'USER'):
            raise NotSupported('CREATE ' + self.cur.u)
        self.fail('unsupported CREATE')

    def _skip_index_options(self):
        while self.at_kw('USING', 'COMMENT', 'VISIBLE', 'INVISIBLE', 'ALGORITHM', 'LOCK', 'KEY_BLOCK_SIZE'):
            u = self.adv().u
            if u in ('ALGORITHM', 'LOCK', 'KEY_BLOCK_SIZE'):
                self.accept_op('=')
                self.adv()
            elif u in ('USING', 'COMMENT'):
                self.adv()

    def _index_cols(self):
        self.expect_op('(')
        cols = []
        while True:
            if self.at_op('('):
                raise NotSupported('functional index')
            c = self.ident(allow_reserved=True)
            if self.accept_op('('):
                self.adv()
                self.expect_op(')')
            self.accept_kw('ASC', 'DESC')
            cols.append(c)
            if not self.accept_op(','):
                break
        self.expect_op(')')
        return cols

    def parse_create_table(self):
        self.expect_kw('TABLE')
        ine = False
        if self.at_kw('IF'):
            self.adv()
            self.expect_kw('NOT')
            self.expect_kw('EXISTS')
            ine = True
        name = self.ident()
        if self.at_kw('LIKE', 'AS', 'SELECT'):
            raise NotSupported('CREATE TABLE LIKE/AS SELECT')
        self.expect_op('(')
        cols, constraints = [], []
        while True:
            self._table_element(cols, constraints)
            if self.accept_op(','):
                continue
            if self.at_op(')'):
                break
            if self.tolerant and (self.cur.k in ('id', 'qid')):
                self.slips.append(f'CREATE TABLE {name}: missing comma before {self.sql[self.cur.pos:self.cur.pos + 40]!r}')
                continue
            self.fail("expected ',' or ')' in CREATE TABLE")
        self.expect_op(')')
        # table options: ignored
        while self.cur.k != 'eof' and not self.at_op(';'):
            if self.at_kw('AS', 'SELECT', 'PARTITION'):
                raise NotSupported('CREATE TABLE ... ' + self.cur.u)
            self.adv()
        return N('create_table', name=name, if_not_exists=ine, cols=cols, constraints=constraints)

    def _table_element(self, cols, constraints):
        cname = None
        if self.at_kw('CONSTRAINT'):
            self.adv()
            if not self.at_kw('PRIMARY', 'UNIQUE', 'FOREIGN', 'CHECK'):
                cname = self.ident(allow_reserved=True)
        if self.at_kw('PRIMARY'):
            self.adv()
            self.expect_kw('KEY')
            constraints.append(N('pk', cols=self._index_cols()))
            self._skip_index_options()
            return
        if self.at_kw('UNIQUE'):
            self.adv()
            self.accept_kw('KEY', 'INDEX')
            iname = None
            if not self.at_op('('):
                iname = self.ident(allow_reserved=True)
            constraints.append(N('unique', name=iname or cname, cols=self._index_cols()))
            self._skip_index_options()
            return
        if self.at_kw('KEY', 'INDEX'):
            self.adv()
            iname = None
            if not self.at_op('('):
                iname = self.ident(allow_reserved=True)
            constraints.append(N('index', name=iname, cols=self._index_cols()))
            self._skip_index_options()
            return
        if self.at_kw('FULLTEXT', 'SPATIAL'):
            raise NotSupported(self.cur.u + ' index')
        if self.at_kw('FOREIGN'):
            constraints.append(self._foreign_key(cname))
            return
        if self.at_kw('CHECK'):
            raise NotSupported('CHECK constraint')
        cols.append(self._column_def(constraints))

    def _foreign_key(self, cname=None):
        self.expect_kw('FOREIGN')
        self.expect_kw('KEY')
        if not self.at_op('('):
            cname = self.ident(allow_reserved=True)
        fcols = self._index_cols()
        self.expect_kw('REFERENCES')
        rtable = self.ident()
        rcols = self._index_cols()
        on_delete = 'restrict'
        on_update = 'restrict'
        while self.at_kw('ON') and self.peek_kw(1, 'DELETE', 'UPDATE'):
            self.adv()
            which = self.adv().u
            if self.accept_kw('CASCADE'):
                act = 'cascade'
            elif self.accept_kw('RESTRICT'):
                act = 'restrict'
            elif self.at_kw('NO'):
                self.adv()
                self.expect_kw('ACTION')
                act = 'restrict'
            elif self.at_kw('SET'):
                raise NotSupported('ON DELETE SET NULL/DEFAULT')
            else:
                self.fail('bad referential action')
            if which == 'DELETE':
                on_delete = act
            else:
                on_update = act
        if on_update == 'cascade':
            raise NotSupported('ON UPDATE CASCADE')
        return N('fk', name=cname, cols=fcols, rtable=rtable, rcols=rcols, on_delete=on_delete)

    def _column_def(self, constraints):
        name = self.ident(allow_reserved=True)
        ty = self.parse_type()
        col = N('coldef', name=name, ty=ty, notnull=False, default=None, has_default=False, auto=False,
                on_update_now=False)
        while True:
            if self.at_kw('NOT') and self.peek_kw(1, 'NULL'):
                self.adv()
                self.adv()
                col.notnull = True
            elif self.accept_kw('NULL'):
                col.notnull = False
            elif self.accept_kw('DEFAULT'):
                col.has_default = True
                col.default = self._default_value()
            elif self.accept_kw('AUTO_INCREMENT'):
                col.auto = True
            elif self.at_kw('PRIMARY'):
                if self.tolerant and self.peek_kw(1, 'KEY') and self.peek(2).k == 'op' and self.peek(2).v == '(':
                    self.slips.append(f'column {name}: missing comma before table-level PRIMARY KEY')
                    return col
                self.adv()
                self.expect_kw('KEY')
                constraints.append(N('pk', cols=[name]))
            elif self.at_kw('UNIQUE'):
                self.adv()
                self.accept_kw('KEY')
                constraints.append(N('unique', name=name, cols=[name]))
            elif self.at_kw('KEY'):
                self.adv()
                constraints.append(N('pk', cols=[name]))
            elif self.accept_kw('COMMENT'):
                self.adv()
            elif self.at_kw('COLLATE'):
                self.adv()
                ty.cs = _collation_is_cs(self.ident(allow_reserved=True))
            elif self.at_kw('CHARACTER'):
                self.adv()
                self.expect_kw('SET')
                self.ident(allow_reserved=True)
            elif self.at_kw('ON') and self.peek_kw(1, 'UPDATE'):
                self.adv()
                self.adv()
                self.expect_kw('CURRENT_TIMESTAMP', 'NOW')
                if self.accept_op('('):
                    self.expect_op(')')
                col.on_update_now = True
            elif self.at_kw('GENERATED', 'AS'):
                raise NotSupported('GENERATED columns')
            elif self.at_kw('REFERENCES'):
                raise NotSupported('inline REFERENCES')
            elif self.at_kw('CHECK'):
                raise NotSupported('CHECK constraint')
            elif self.accept_kw('VISIBLE', 'INVISIBLE'):
                pass
            else:
                return col

    def _default_value(self):
        if self.at_kw('CURRENT_TIMESTAMP', 'NOW'):
            self.adv()
            if self.accept_op('('):
                self.expect_op(')')
            return N('func', name='CURRENT_TIMESTAMP', args=[], distinct=False, star=False)
        if self.at_op('('):
            self.adv()
            e = self.parse_expr()
            self.expect_op(')')
            return e
        return self.p_unary()

    # ------------------------------------------------------------------ DROP / RENAME / ALTER
    def parse_drop(self):
        self.expect_kw('DROP')
        what = self.adv().u
        if what not in ('TABLE', 'TRIGGER', 'PROCEDURE', 'FUNCTION', 'INDEX'):
            raise NotSupported('DROP ' + what)
        if what == 'INDEX':
            name = self.ident(allow_reserved=True)
            self.expect_kw('ON')
            table = self.ident()
            self._skip_index_options()
            return N('alter', table=table, actions=[N('drop_index', name=name)])
        if_exists = False
        if self.at_kw('IF'):
            self.adv()
            self.expect_kw('EXISTS')
            if_exists = True
        names = [self.ident(allow_reserved=True)]
        while self.accept_op(','):
            names.append(self.ident(allow_reserved=True))
        self.accept_kw('CASCADE', 'RESTRICT')
        return N('drop', what=what.lower(), names=names, if_exists=if_exists)

    def parse_rename(self):
        self.expect_kw('RENAME')
        self.expect_kw('TABLE')
        pairs = []
        while True:
            a = self.ident()
            self.expect_kw('TO')
            b = self.ident()
            pairs.append((a, b))
            if not self.accept_op(','):
                break
        return N('rename', pairs=pairs)

    def parse_alter(self):
        self.expect_kw('ALTER')
        if not self.at_kw('TABLE'):
            raise NotSupported('ALTER ' + str(self.cur.v))
        self.adv()
        table = self.ident()
        actions = []
        while True:
            a = self._alter_action()
            if a is not None:
                actions.append(a)
            if not self.accept_op(','):
                break
        return N('alter', table=table, actions=actions)

    def _alter_action(self):
        if self.at_kw('ALGORITHM', 'LOCK'):
            self.adv()
            self.accept_op('=')
            self.adv()
            return None
        if self.at_kw('ADD'):
            self.adv()
            cname = None
            if self.at_kw('CONSTRAINT'):
                self.adv()
                if not self.at_kw('PRIMARY', 'UNIQUE', 'FOREIGN', 'CHECK'):
                    cname = self.ident(allow_reserved=True)
            if self.at_kw('PRIMARY'):
                self.adv()
                self.expect_kw('KEY')
                return N('add_pk', cols=self._index_cols())
            if self.at_kw('UNIQUE'):
                self.adv()
                self.accept_kw('KEY', 'INDEX')
                iname = None if self.at_op('(') else self.ident(allow_reserved=True)
                a = N('add_unique', name=iname or cname, cols=self._index_cols())
                self._skip_index_options()
                return a
            if self.at_kw('INDEX', 'KEY'):
                self.adv()
                iname = None if self.at_op('(') else self.ident(allow_reserved=True)
                a = N('add_index', name=iname, cols=self._index_cols())
                self._skip_index_options()
                return a
            if self.at_kw('FOREIGN'):
                return N('add_fk', fk=self._foreign_key(cname))
            if self.at_kw('FULLTEXT', 'SPATIAL', 'CHECK', 'PARTITION'):
                raise NotSupported('ALTER TABLE ADD ' + self.cur.u)
            self.accept_kw('COLUMN')
            constraints = []
            if self.at_op('('):
                self.adv()
                cols = [self._column_def(constraints)]
                while self.accept_op(','):
                    cols.append(self._column_def(constraints))
                self.expect_op(')')
                return N('add_columns', cols=cols, constraints=constraints, after=None, first=False)
            col = self._column_def(constraints)
            after, first = None, False
            if self.accept_kw('AFTER'):
                after = self.ident(allow_reserved=True)
            elif self.accept_kw('FIRST'):
                first = True
            return N('add_columns', cols=[col], constraints=constraints, after=after, first=first)
        if self.at_kw('DROP'):
            self.adv()
            if self.at_kw('PRIMARY'):
                self.adv()
                self.expect_kw('KEY')
                return N('drop_pk')
            if self.at_kw('INDEX', 'KEY'):
                self.adv()
                return N('drop_index', name=self.ident(allow_reserved=True))
            if self.at_kw('FOREIGN'):
                self.adv()
                self.expect_kw('KEY')
                return N('drop_fk', name=self.ident(allow_reserved=True))
            if self.at_kw('CONSTRAINT', 'CHECK', 'PARTITION'):
                raise NotSupported('ALTER TABLE DROP ' + self.cur.u)
            self.accept_kw('COLUMN')
            return N('drop_column', name=self.ident(allow_reserved=True))
        if self.at_kw('MODIFY'):
            self.adv()
            self.accept_kw('COLUMN')
            constraints = []
            col = self._column_def(constraints)
            self._skip_position()
            return N('modify_column', old=col.name, col=col, constraints=constraints)
        if self.at_kw('CHANGE'):
            self.adv()
            self.accept_kw('COLUMN')
            old = self.ident(allow_reserved=True)
            constraints = []
            col = self._column_def(constraints)
            self._skip_position()
            return N('modify_column', old=old, col=col, constraints=constraints)
        if self.at_kw('RENAME'):
            self.adv()
            if self.at_kw('INDEX', 'KEY'):
                self.adv()
                a = self.ident(allow_reserved=True)
                self.expect_kw('TO')
                b = self.ident(allow_reserved=True)
                return N('rename_index', old=a, new=b)
            if self.at_kw('COLUMN'):
                self.adv()
                a = self.ident(allow_reserved=True)
                self.expect_kw('TO')
                b = self.ident(allow_reserved=True)
                return N('rename_column', old=a, new=b)
            self.accept_kw('TO', 'AS')
            return N('rename_table', new=self.ident())
        if self.at_kw('AUTO_INCREMENT'):
            self.adv()
            self.accept_op('=')
            return N('set_auto_increment', v=self.adv().v)
        if self.at_kw('ENGINE', 'COMMENT', 'ROW_FORMAT'):
            self.adv()
            self.accept_op('=')
            self.adv()
            return None
        raise NotSupported('ALTER TABLE action ' + str(self.cur.v))

    def _skip_position(self):
        if self.accept_kw('AFTER'):
            self.ident(allow_reserved=True)
        else:
            self.accept_kw('FIRST')

    # ------------------------------------------------------------------ routines
    def parse_create_routine(self, kind):
        self.adv()
        if self.at_kw('IF'):
            raise NotSupported('CREATE ... IF NOT EXISTS for routines')
        name = self.ident(allow_reserved=True)
        self.expect_op('(')
        params = []
        if not self.at_op(')'):
            while True:
                mode = 'IN'
                if kind == 'procedure' and self.at_kw('IN', 'OUT', 'INOUT') and self.peek().k in ('id', 'qid') \
                        and not (self.peek(2).k == 'op' and self.peek(2).v in (',', ')', '(')):
                    mode = self.adv().u
                pname = self.ident(allow_reserved=True)
                pty = self.parse_type()
                params.append((mode, pname, pty))
                if not self.accept_op(','):
                    break
        self.expect_op(')')
        returns = None
        if kind == 'function':
            self.expect_kw('RETURNS')
            returns = self.parse_type()
        # characteristics
        while True:
            if self.at_kw('NOT') and self.peek_kw(1, 'DETERMINISTIC'):
                self.adv()
                self.adv()
            elif self.accept_kw('DETERMINISTIC'):
                pass
            elif self.at_kw('CONTAINS'):
                self.adv()
                self.expect_kw('SQL')
            elif self.at_kw('NO'):
                self.adv()
                self.expect_kw('SQL')
            elif self.at_kw('READS', 'MODIFIES'):
                self.adv()
                self.expect_kw('SQL')
                self.expect_kw('DATA')
            elif self.at_kw('SQL') and self.peek_kw(1, 'SECURITY'):
                self.adv()
                self.adv()
                self.adv()
            elif self.at_kw('COMMENT'):
                self.adv()
                self.adv()
            elif self.at_kw('LANGUAGE'):
                self.adv()
                self.expect_kw('SQL')
            else:
                break
        body = self.parse_body_statement()
        return N('create_routine', kind=kind, name=name, params=params, returns=returns, body=body)

    def parse_create_trigger(self):
        self.expect_kw('TRIGGER')
        name = self.ident(allow_reserved=True)
        time = self.expect_kw('BEFORE', 'AFTER').u.lower()
        event = self.expect_kw('INSERT', 'UPDATE', 'DELETE').u.lower()
        self.expect_kw('ON')
        table = self.ident()
        self.expect_kw('FOR')
        self.expect_kw('EACH')
        self.expect_kw('ROW')
        if self.at_kw('FOLLOWS', 'PRECEDES'):
            raise NotSupported('trigger ordering clause')
        body = self.parse_body_statement()
        return N('create_trigger', name=name, time=time, event=event, table=table, body=body)

    def parse_body_statement(self):
        """One statement valid in a routine body (compound or simple)."""
        label = None
        t = self.cur
        if t.k in ('id', 'qid') and self.peek().k == 'op' and self.peek().v == ':':
            label = t.v
            self.adv()
            self.adv()
            t = self.cur
        u = t.u if t.k == 'id' else None
        if u == 'BEGIN':
            return self._block(label)
        if u == 'LOOP':
            self.adv()
            body = self._stmt_list(('END',))
            self.expect_kw('END')
            self.expect_kw('LOOP')
            self._opt_end_label(label)
            return N('loop', label=label, body=body)
        if u == 'WHILE':
            self.adv()
            c = self.parse_expr()
            self.expect_kw('DO')
            body = self._stmt_list(('END',))
            self.expect_kw('END')
            self.expect_kw('WHILE')
            self._opt_end_label(label)
            return N('while', label=label, cond=c, body=body)
        if u == 'REPEAT':
            self.adv()
            body = self._stmt_list(('UNTIL',))
            self.expect_kw('UNTIL')
            c = self.parse_expr()
            self.expect_kw('END')
            self.expect_kw('REPEAT')
            self._opt_end_label(label)
            return N('repeat', label=label, cond=c, body=body)
        if label is not None:
            self.fail('label must precede BEGIN, LOOP, WHILE or REPEAT')
        if u == 'IF':
            return self._if()
        if u == 'CASE':
            raise NotSupported('CASE statement')
        if u == 'DECLARE':
            return self._declare()
        if u == 'LEAVE':
            self.adv()
            return N('leave', label=self.ident(allow_reserved=True))
        if u == 'ITERATE':
            self.adv()
            return N('iterate', label=self.ident(allow_reserved=True))
        if u == 'OPEN':
            self.adv()
            return N('open', name=self.ident(allow_reserved=True))
        if u == 'CLOSE':
            self.adv()
            return N('close', name=self.ident(allow_reserved=True))
        if u == 'FETCH':
            self.adv()
            if self.accept_kw('NEXT'):
                self.expect_kw('FROM')
            else:
                self.accept_kw('FROM')
            name = self.ident(allow_reserved=True)
            self.expect_kw('INTO')
            targets = [self.ident(allow_reserved=True)]
            while self.accept_op(','):
                targets.append(self.ident(allow_reserved=True))
            return N('fetch', name=name, targets=targets)
        if u == 'RETURN':
            self.adv()
            return N('return', e=self.parse_expr())
        if u == 'SIGNAL':
            self.adv()
            self.expect_kw('SQLSTATE')
            self.accept_kw('VALUE')
            state = self.adv().v
            msg = None
            errno = None
            if self.accept_kw('SET'):
                while True:
                    item = self.adv().u
                    self.expect_op('=')
                    v = self.parse_expr()
                    if item == 'MESSAGE_TEXT':
                        msg = v
                    elif item == 'MYSQL_ERRNO':
                        errno = v
                    if not self.accept_op(','):
                        break
            return N('signal', sqlstate=state, msg=msg, errno=errno)
        if u == 'RESIGNAL' or u == 'GET':
            raise NotSupported(u)
        if u in ('PREPARE', 'EXECUTE', 'DEALLOCATE'):
            raise NotSupported('prepared statements')
        return self._statement()

    def _opt_end_label(self, label):
        if label is not None and self.cur.k in ('id', 'qid') and self.cur.v.lower() == label.lower():
            self.adv()

    def _stmt_list(self, terminators):
        out = []
        while not self.at_kw(*terminators):
            if self.cur.k == 'eof':
                self.fail('unexpected end of routine body')
            out.append(self.parse_body_statement())
            self.expect_op(';')
        return out

    def _block(self, label):
        self.expect_kw('BEGIN')
        if self.at_kw('NOT') and self.peek_kw(1, 'ATOMIC'):
            self.adv()
            self.adv()
        body = self._stmt_list(('END',))
        self.expect_kw('END')
        self._opt_end_label(label)
        return N('block', label=label, body=body)

    def _if(self):
        self.expect_kw('IF')
        branches = []
        c = self.parse_expr()
        self.expect_kw('THEN')
        body = self._stmt_list(('ELSEIF', 'ELSE', 'END'))
        branches.append((c, body))
        els = None
        while True:
            if self.accept_kw('ELSEIF'):
                c = self.parse_expr()
                self.expect_kw('THEN')
                branches.append((c, self._stmt_list(('ELSEIF', 'ELSE', 'END'))))
            elif self.accept_kw('ELSE'):
                els = self._stmt_list(('END',))
            else:
                break
        self.expect_kw('END')
        self.expect_kw('IF')
        return N('if', branches=branches, els=els)

    def _declare(self):
        self.expect_kw('DECLARE')
        if self.at_kw('CONTINUE', 'EXIT', 'UNDO') and self.peek_kw(1, 'HANDLER'):
            action = self.adv().u.lower()
            if action == 'undo':
                raise NotSupported('UNDO handler')
            self.adv()
            self.expect_kw('FOR')
            conds = []
            while True:
                if self.at_kw('NOT'):
                    self.adv()
                    self.expect_kw('FOUND')
                    conds.append(('notfound',))
                elif self.accept_kw('SQLEXCEPTION'):
                    conds.append(('sqlexception',))
                elif self.accept_kw('SQLWARNING'):
                    conds.append(('sqlwarning',))
                elif self.accept_kw('SQLSTATE'):
                    self.accept_kw('VALUE')
                    conds.append(('sqlstate', self.adv().v))
                elif self.cur.k == 'num':
                    conds.append(('errno', self.adv().v))
                else:
                    raise NotSupported('named conditions in handlers')
                if not self.accept_op(','):
                    break
            stmt = self.parse_body_statement()
            return N('declare_handler', action=action, conds=conds, stmt=stmt)
        names = [self.ident(allow_reserved=True)]
        if self.at_kw('CURSOR'):
            self.adv()
            self.expect_kw('FOR')
            q = self.parse_select()
            return N('declare_cursor', name=names[0], q=q)
        if self.at_kw('CONDITION'):
            raise NotSupported('DECLARE CONDITION')
        while self.accept_op(','):
            names.append(self.ident(allow_reserved=True))
        ty = self.parse_type()
        default = None
        if self.accept_kw('DEFAULT'):
            default = self.parse_expr()
        return N('declare', names=names, ty=ty, default=default)


_cache: dict = {}


def parse_one(sql: str, tolerant: bool = False):
    key = (sql, tolerant)
    r = _cache.get(key)
    if r is None:
        p = Parser(sql, tolerant=tolerant)
        st = p.parse_statement()
        r = (st, p.n_params, p.slips)
        if len(_cache) > 20000:
            _cache.clear()
        _cache[key] = r
    return r


def parse_many(sql: str, tolerant: bool = False):
    p = Parser(sql, tolerant=tolerant)
    out = p.parse_script()
    return out, p.slips
