"""SELECT / DML / transaction statement parser."""
from __future__ import annotations

from .errors import NotSupported
from .nodes import N
from .parse_expr import ExprParser, RESERVED


class StmtParser(ExprParser):
    # ------------------------------------------------------------------ SELECT
    def parse_select(self):
        """query expression: [WITH ...] body [ORDER BY] [LIMIT] [INTO] [locking]"""
        ctes = []
        if self.at_kw('WITH'):
            self.adv()
            if self.at_kw('RECURSIVE'):
                raise NotSupported('WITH RECURSIVE')
            while True:
                name = self.ident()
                cols = None
                if self.accept_op('('):
                    cols = [self.ident()]
                    while self.accept_op(','):
                        cols.append(self.ident())
                    self.expect_op(')')
                self.expect_kw('AS')
                self.expect_op('(')
                q = self.parse_select()
                self.expect_op(')')
                ctes.append((name, cols, q))
                if not self.accept_op(','):
                    break
        parts = [self._query_term()]
        alls = []
        while self.at_kw('UNION'):
            self.adv()
            if self.accept_kw('ALL'):
                alls.append(True)
            else:
                self.accept_kw('DISTINCT')
                alls.append(False)
            parts.append(self._query_term())
        if self.at_kw('INTERSECT', 'EXCEPT'):
            raise NotSupported(self.cur.u)
        if len(parts) == 1 and parts[0].k == 'spec' and not getattr(parts[0], 'parenthesized', False):
            q = parts[0]
        else:
            q = N('union', parts=parts, alls=alls, order=[], limit=None, offset=None, into=None)
        if self.at_kw('ORDER'):
            self.adv()
            self.expect_kw('BY')
            q.order = self.parse_order_list()
        if self.at_kw('LIMIT'):
            self.adv()
            a = self.parse_expr()
            if self.accept_op(','):
                q.offset = a
                q.limit = self.parse_expr()
            else:
                q.limit = a
                if self.accept_kw('OFFSET'):
                    q.offset = self.parse_expr()
        if self.at_kw('INTO'):
            q.into = self._into()
        self._locking()
        if self.at_kw('INTO'):
            q.into = self._into()
        q.ctes = ctes
        return q

    def _locking(self):
        while True:
            if self.at_kw('FOR') and self.peek_kw(1, 'UPDATE', 'SHARE'):
                self.saw_locking = True
                self.adv()
                if self.adv().u == 'UPDATE':
                    self.saw_for_update = True
                if self.accept_kw('OF'):
                    self.ident()
                    while self.accept_op(','):
                        self.ident()
                if self.accept_kw('NOWAIT'):
                    pass
                elif self.at_kw('SKIP'):
                    self.adv()
                    self.expect_kw('LOCKED')
            elif self.at_kw('LOCK') and self.peek_kw(1, 'IN'):
                self.saw_locking = True
                self.adv()
                self.adv()
                self.expect_kw('SHARE')
                self.expect_kw('MODE')
            else:
                return

    def _into(self):
        self.expect_kw('INTO')
        if self.at_kw('OUTFILE', 'DUMPFILE'):
            raise NotSupported('SELECT INTO OUTFILE')
        targets = []
        while True:
            t = self.cur
            if t.k == 'uvar':
                self.adv()
                targets.append(('u', t.v))
            else:
                targets.append(('v', self.ident()))
            if not self.accept_op(','):
                return targets

    def _query_term(self):
        if self.at_op('('):
            self.adv()
            q = self.parse_select()
            self.expect_op(')')
            if q.k == 'spec':
                q.parenthesized = True
            return q
        return self._query_spec()

    def _query_spec(self):
        start_tok = self.cur
        self.expect_kw('SELECT')
        distinct = False
        while True:
            if self.accept_kw('DISTINCT', 'DISTINCTROW'):
                distinct = True
            elif self.accept_kw('ALL', 'STRAIGHT_JOIN', 'SQL_NO_CACHE', 'SQL_CALC_FOUND_ROWS', 'HIGH_PRIORITY',
                                'SQL_SMALL_RESULT', 'SQL_BIG_RESULT', 'SQL_BUFFER_RESULT'):
                pass
            else:
                break
        items = []
        while True:
            s = self.cur.pos
            e = self.parse_expr()
            end = self.toks[self.i - 1].end
            alias = None
            if self.accept_kw('AS'):
                t = self.cur
                if t.k == 'str':
                    alias = self.adv().v
                else:
                    alias = self.ident(allow_reserved=True)
            elif self.at_ident():
                alias = self.ident()
            elif self.cur.k == 'str':
                alias = self.adv().v
            items.append(N('item', e=e, alias=alias, text=self.sql[s:end]))
            if not self.accept_op(','):
                break
        q = N('spec', distinct=distinct, items=items, from_=None, where=None, group=[], having=None, order=[],
              limit=None, offset=None, into=None, ctes=[], pos=start_tok.pos)
        if self.at_kw('INTO'):
            q.into = self._into()
        if self.accept_kw('FROM'):
            if self.at_kw('DUAL'):
                self.adv()
            else:
                q.from_ = self.parse_table_refs()
        if self.accept_kw('WHERE'):
            q.where = self.parse_expr()
        if self.at_kw('GROUP'):
            self.adv()
            self.expect_kw('BY')
            q.group = [self.parse_expr()]
            while self.accept_op(','):
                q.group.append(self.parse_expr())
            if self.at_kw('WITH'):
                raise NotSupported('WITH ROLLUP')
        if self.accept_kw('HAVING'):
            q.having = self.parse_expr()
        if self.at_kw('WINDOW'):
            raise NotSupported('WINDOW clause')
        return q

    # ------------------------------------------------------------------ table references
    def parse_table_refs(self):
        """comma separated list of join chains -> list of sources in join order.
        Each source: N('src', kind, name|q, alias, lateral, join, on, using)"""
        srcs = []
        first = True
        while True:
            chain = self._join_chain()
            if not first:
                chain[0].join = 'cross'
            srcs.extend(chain)
            first = False
            if not self.accept_op(','):
                return srcs

    def _join_chain(self):
        srcs = [self._table_factor()]
        srcs[0].join = 'first'
        while True:
            kind = None
            if self.at_kw('JOIN'):
                self.adv()
                kind = 'inner'
            elif self.at_kw('INNER', 'CROSS'):
                self.adv()
                self.expect_kw('JOIN')
                kind = 'inner'
            elif self.at_kw('STRAIGHT_JOIN'):
                self.adv()
                kind = 'inner'
            elif self.at_kw('LEFT'):
                self.adv()
                self.accept_kw('OUTER')
                self.expect_kw('JOIN')
                kind = 'left'
            elif self.at_kw('RIGHT'):
                raise NotSupported('RIGHT JOIN')
            elif self.at_kw('NATURAL'):
                raise NotSupported('NATURAL JOIN')
            else:
                return srcs
            s = self._table_factor()
            s.join = kind
            if self.at_kw('ON') and not self.peek_kw(1, 'DUPLICATE'):
                self.adv()
                s.on = self.parse_expr()
            elif self.at_kw('USING'):
                self.adv()
                self.expect_op('(')
                s.using = [self.ident()]
                while self.accept_op(','):
                    s.using.append(self.ident())
                self.expect_op(')')
            elif kind == 'left':
                self.fail('LEFT JOIN requires ON or USING')
            srcs.append(s)

    def _table_factor(self):
        lateral = bool(self.accept_kw('LATERAL'))
        if self.at_op('('):
            # derived table or parenthesised join
            j = self.i
            while self.toks[j].k == 'op' and self.toks[j].v == '(':
                j += 1
            t = self.toks[j]
            if not (t.k == 'id' and t.u in ('SELECT', 'WITH')):
                raise NotSupported('parenthesised join')
            self.adv()
            q = self.parse_select()
            self.expect_op(')')
            self.accept_kw('AS')
            alias = self.ident()
            colnames = None
            if self.at_op('(') :
                self.adv()
                colnames = [self.ident()]
                while self.accept_op(','):
                    colnames.append(self.ident())
                self.expect_op(')')
            return N('src', kind='derived', q=q, name=None, alias=alias, lateral=lateral, join=None, on=None,
                     using=None, colnames=colnames)
        if lateral:
            self.fail('LATERAL requires a derived table')
        name = self.ident()
        if self.at_op('.'):
            self.adv()
            name = self.ident(allow_reserved=True)  # db.table
        alias = None
        if self.accept_kw('AS'):
            alias = self.ident()
        elif self.at_ident() and not self.at_kw('PARTITION'):
            alias = self.ident()
        while self.at_kw('USE', 'FORCE', 'IGNORE') and self.peek_kw(1, 'INDEX', 'KEY'):
            self.adv()
            self.adv()
            if self.accept_kw('FOR'):
                if self.accept_kw('JOIN'):
                    pass
                else:
                    self.expect_kw('ORDER', 'GROUP')
                    self.expect_kw('BY')
            self.expect_op('(')
            while not self.at_op(')'):
                self.adv()
            self.expect_op(')')
        return N('src', kind='table', q=None, name=name, alias=alias, lateral=False, join=None, on=None, using=None,
                 colnames=None)

    # ------------------------------------------------------------------ INSERT
    def parse_insert(self):
        self.expect_kw('INSERT')
        ignore = False
        while True:
            if self.accept_kw('IGNORE'):
                ignore = True
            elif self.accept_kw('LOW_PRIORITY', 'HIGH_PRIORITY', 'DELAYED'):
                pass
            else:
                break
        self.accept_kw('INTO')
        table = self.ident()
        cols = None
        if self.at_op('(') and not self.peek_kw(1, 'SELECT', 'WITH'):
            self.adv()
            cols = []
            if not self.at_op(')'):
                cols.append(self.ident(allow_reserved=True))
                while self.accept_op(','):
                    cols.append(self.ident(allow_reserved=True))
            self.expect_op(')')
        node = N('insert', table=table, cols=cols, rows=None, select=None, odku=None, ignore=ignore, row_alias=None,
                 col_aliases=None)
        if self.at_kw('VALUES', 'VALUE'):
            self.adv()
            rows = []
            while True:
                self.accept_kw('ROW')
                self.expect_op('(')
                row = []
                if not self.at_op(')'):
                    row.append(self.parse_expr())
                    while self.accept_op(','):
                        row.append(self.parse_expr())
                self.expect_op(')')
                rows.append(row)
                if not self.accept_op(','):
                    break
            node.rows = rows
            if self.at_kw('AS'):
                self.adv()
                node.row_alias = self.ident()
                if self.accept_op('('):
                    node.col_aliases = [self.ident()]
                    while self.accept_op(','):
                        node.col_aliases.append(self.ident())
                    self.expect_op(')')
        elif self.at_kw('SET'):
            self.adv()
            cols, row = [], []
            while True:
                c = self.p_colref()
                self.expect_op('=')
                cols.append(c.name)
                row.append(self.parse_expr())
                if not self.accept_op(','):
                    break
            node.cols = cols
            node.rows = [row]
        elif self.at_kw('SELECT', 'WITH') or self.at_op('('):
            node.select = self.parse_select()
        else:
            self.fail('expected VALUES, SET or SELECT')
        if self.at_kw('ON'):
            self.adv()
            self.expect_kw('DUPLICATE')
            self.expect_kw('KEY')
            self.expect_kw('UPDATE')
            node.odku = self._assignments()
        return node

    def _assignments(self):
        out = []
        while True:
            c = self.p_colref()
            if c.k != 'col':
                self.fail('expected column')
            if not self.accept_op('='):
                self.expect_op(':=')
            out.append((c, self.parse_expr()))
            if not self.accept_op(','):
                return out

    # ------------------------------------------------------------------ UPDATE / DELETE
    def parse_update(self):
        self.expect_kw('UPDATE')
        self.accept_kw('LOW_PRIORITY')
        if self.accept_kw('IGNORE'):
            raise NotSupported('UPDATE IGNORE')
        srcs = self.parse_table_refs()
        self.expect_kw('SET')
        sets = self._assignments()
        node = N('update', srcs=srcs, sets=sets, where=None, order=[], limit=None)
        if self.accept_kw('WHERE'):
            node.where = self.parse_expr()
        if self.at_kw('ORDER'):
            self.adv()
            self.expect_kw('BY')
            node.order = self.parse_order_list()
        if self.accept_kw('LIMIT'):
            node.limit = self.parse_expr()
        return node

    def parse_delete(self):
        self.expect_kw('DELETE')
        self.accept_kw('LOW_PRIORITY')
        self.accept_kw('QUICK')
        if self.accept_kw('IGNORE'):
            raise NotSupported('DELETE IGNORE')
        targets = None
        if not self.at_kw('FROM'):
            targets = [self._delete_target()]
            while self.accept_op(','):
                targets.append(self._delete_target())
        self.expect_kw('FROM')
        srcs = self.parse_table_refs()
        if self.at_kw('USING'):
            raise NotSupported('DELETE ... USING')
        node = N('delete', targets=targets, srcs=srcs, where=None, order=[], limit=None)
        if self.accept_kw('WHERE'):
            node.where = self.parse_expr()
        if self.at_kw('ORDER'):
            self.adv()
            self.expect_kw('BY')
            node.order = self.parse_order_list()
        if self.accept_kw('LIMIT'):
            node.limit = self.parse_expr()
        return node

    def _delete_target(self):
        name = self.ident()
        if self.accept_op('.'):
            self.expect_op('*')
        return name

    # ------------------------------------------------------------------ CALL / SET / transactions
    def parse_call(self):
        self.expect_kw('CALL')
        name = self.ident(allow_reserved=True)
        if self.accept_op('.'):
            name = self.ident(allow_reserved=True)
        args = []
        if self.accept_op('('):
            if not self.at_op(')'):
                args.append(self.parse_expr())
                while self.accept_op(','):
                    args.append(self.parse_expr())
            self.expect_op(')')
        return N('call', name=name, args=args)

    def parse_set(self):
        self.expect_kw('SET')
        if self.at_kw('NAMES', 'CHARACTER', 'CHARSET'):
            while self.cur.k != 'eof' and not self.at_op(';'):
                self.adv()
            return N('noop', what='SET NAMES')
        if self.at_kw('TRANSACTION') or (self.at_kw('SESSION', 'GLOBAL') and self.peek_kw(1, 'TRANSACTION')):
            while self.cur.k != 'eof' and not self.at_op(';'):
                self.adv()
            return N('noop', what='SET TRANSACTION')
        assigns = []
        while True:
            t = self.cur
            if t.k == 'uvar':
                self.adv()
                target = ('u', t.v)
            elif t.k == 'sysvar':
                self.adv()
                target = ('s', t.v.split('.')[-1])
            elif self.at_kw('SESSION', 'GLOBAL', 'LOCAL', 'PERSIST') and self.peek().k in ('id', 'qid'):
                self.adv()
                target = ('s', self.ident(allow_reserved=True).lower())
            else:
                c = self.p_colref()
                if c.t is not None:
                    target = ('n', c.t, c.name)   # NEW.col
                else:
                    target = ('v', c.name)
            if not self.accept_op('='):
                self.expect_op(':=')
            if target[0] == 's' and self.cur.k == 'id' and self.cur.u in ('ON', 'OFF', 'DEFAULT'):
                e = N('lit', v=1 if self.adv().u == 'ON' else 0)
            else:
                e = self.parse_expr()
            assigns.append((target, e))
            if not self.accept_op(','):
                break
        return N('set', assigns=assigns)

    def parse_simple_statement(self):
        """Statements valid both at top level and inside routine bodies."""
        t = self.cur
        if t.k == 'op' and t.v == '(':
            return self.parse_select()
        if t.k != 'id':
            self.fail('expected statement')
        u = t.u
        if u in ('SELECT', 'WITH'):
            return self.parse_select()
        if u == 'INSERT':
            return self.parse_insert()
        if u == 'REPLACE':
            raise NotSupported('REPLACE')
        if u == 'UPDATE':
            return self.parse_update()
        if u == 'DELETE':
            return self.parse_delete()
        if u == 'CALL':
            return self.parse_call()
        if u == 'SET':
            return self.parse_set()
        if u == 'START':
            self.adv()
            self.expect_kw('TRANSACTION')
            ro = False
            while True:
                if self.at_kw('READ'):
                    self.adv()
                    if self.accept_kw('ONLY'):
                        ro = True
                    else:
                        self.expect_kw('WRITE')
                elif self.at_kw('WITH'):
                    self.adv()
                    self.expect_kw('CONSISTENT')
                    self.expect_kw('SNAPSHOT')
                elif not self.accept_op(','):
                    break
            return N('begin', read_only=ro)
        if u == 'BEGIN' and (self.peek().k == 'eof' or (self.peek().k == 'op' and self.peek().v == ';')
                             or self.peek_kw(1, 'WORK')):
            self.adv()
            self.accept_kw('WORK')
            return N('begin', read_only=False)
        if u == 'COMMIT':
            self.adv()
            self.accept_kw('WORK')
            return N('commit')
        if u == 'ROLLBACK':
            self.adv()
            self.accept_kw('WORK')
            if self.at_kw('TO'):
                raise NotSupported('ROLLBACK TO SAVEPOINT')
            return N('rollback')
        if u in ('SAVEPOINT', 'RELEASE'):
            raise NotSupported(u)
        if u in ('LOCK', 'UNLOCK') and self.peek_kw(1, 'TABLES', 'TABLE'):
            raise NotSupported('LOCK TABLES')
        if u == 'USE':
            self.adv()
            self.ident()
            return N('noop', what='USE')
        return None
