"""Load the Hail Batch schema into an Engine: table DDL from estimated-current.sql (+ newer ALTERs), stored
routines / triggers from the ordered migration chain in build.yaml (last definition wins)."""
from __future__ import annotations

import os
import re

from .engine import Engine
from .errors import NotSupported, SqlCondition
from .lexer import split_script
from .parser import Parser, parse_many

_COMMENT_RE = re.compile(r"(#[^\n]*|-- [^\n]*|/\*.*?\*/)", re.S)
_ROUTINE_RE = re.compile(r'\b(CREATE|DROP)\s+(?:DEFINER\s*=\s*\S+\s+)?(PROCEDURE|FUNCTION|TRIGGER)\s+(IF\s+EXISTS\s+)?`?(\w+)`?',
                         re.I)

_report: dict = {}


def migration_scripts(repo='/repo', database='batch'):
    """Ordered script file names of the createDatabase2 step for `database` in build.yaml."""
    txt = open(os.path.join(repo, 'build.yaml')).read()
    for block in re.split(r'\n  - kind: ', txt):
        if block.startswith('createDatabase2') and re.search(r'^\s*databaseName:\s*' + re.escape(database) + r'\s*$',
                                                              block, re.M):
            return re.findall(r'script:\s*/io/sql/(\S+)', block)
    raise RuntimeError(f'no createDatabase2 step for database {database!r} in build.yaml')


def _strip_comments(s):
    return _COMMENT_RE.sub(' ', s)


def scan_chain(repo='/repo', sqldir='batch/sql', database='batch'):
    """-> (routines, events) where routines maps (KIND, lower name) -> (script, source text) for the surviving
    definitions and events is the ordered log of CREATE/DROP seen."""
    live: dict = {}
    events = []
    table_of_trigger = {}
    skipped_py = []
    for script in migration_scripts(repo, database):
        path = os.path.join(repo, sqldir, script)
        if not script.endswith('.sql'):
            skipped_py.append(script)
            continue
        text = open(path).read()
        for chunk in split_script(text):
            clean = _strip_comments(chunk)
            ms = list(_ROUTINE_RE.finditer(clean))
            # table drops / renames matter for triggers
            for m in re.finditer(r'\bDROP\s+TABLE\s+(IF\s+EXISTS\s+)?`?(\w+)`?', clean, re.I):
                t = m.group(2).lower()
                for key in [k for k in live if k[0] == 'TRIGGER' and table_of_trigger.get(k) == t]:
                    del live[key]
                    events.append((script, 'DROP(table dropped)', key))
            for m in re.finditer(r'\bRENAME\s+TABLE\s+(.*)', clean, re.I | re.S):
                for a, b in re.findall(r'`?(\w+)`?\s+TO\s+`?(\w+)`?', m.group(1), re.I):
                    for key, t in list(table_of_trigger.items()):
                        if t == a.lower():
                            table_of_trigger[key] = b.lower()
            for i, m in enumerate(ms):
                kind, name = m.group(2).upper(), m.group(4).lower()
                key = (kind, name)
                if m.group(1).upper() == 'DROP':
                    if key in live:
                        del live[key]
                    events.append((script, 'DROP', key))
                else:
                    src = clean[m.start():].strip().rstrip(';').strip()
                    live[key] = (script, src)
                    events.append((script, 'CREATE', key))
                    if kind == 'TRIGGER':
                        mt = re.search(r'\bON\s+`?(\w+)`?', clean[m.end():], re.I)
                        table_of_trigger[key] = mt.group(1).lower() if mt else None
                    break  # a CREATE routine body extends to the end of the chunk
    _report['skipped_python_migrations'] = skipped_py
    return live, events


_DDL_START = re.compile(r'^\s*(CREATE\s+(UNIQUE\s+)?(TABLE|INDEX)|ALTER\s+TABLE|DROP\s+TABLE|DROP\s+INDEX|RENAME\s+TABLE)\b', re.I)


def replay_chain_ddl(repo='/repo', sqldir='batch/sql', database='batch'):
    """Best-effort replay of every table-DDL statement of the .sql migration chain into a scratch engine.
    -> (engine, problems)."""
    eng = Engine()
    sess = eng.connect()
    problems = []
    for script in migration_scripts(repo, database):
        if not script.endswith('.sql'):
            continue
        text = open(os.path.join(repo, sqldir, script)).read()
        for chunk in split_script(text):
            clean = _strip_comments(chunk)
            if not _DDL_START.match(clean):
                continue
            try:
                stmts, _slips = parse_many(chunk, tolerant=True)
                for node, _src in stmts:
                    if node.k in ('create_table', 'create_index', 'alter', 'drop', 'rename'):
                        if node.k == 'drop' and node.what != 'table':
                            continue
                        eng.exec_stmt(node, sess, None)
            except (SqlCondition, NotSupported) as e:
                problems.append((script, clean.strip().split('\n')[0][:100], f'{type(e).__name__}: {e}'))
    return eng, problems


def _table_signature(t):
    return {
        'columns': [(c.name, c.ty.base, c.ty.length if c.ty.base in ('char', 'int') else None,
                     tuple(c.ty.enum) if c.ty.enum else None, bool(c.notnull), bool(c.cs)) for c in t.cols],
        'pk': t.pk,
        'uniques': sorted(cs for _n, cs in t.uniques),
        'fks': sorted((f.cols, f.rtable.lower(), tuple(x.lower() for x in f.rcols), f.on_delete) for f in t.fks),
    }


def load_batch_schema(engine: Engine, repo='/repo', sqldir='batch/sql', database='batch'):
    """Populate `engine` with tables, routines and triggers.  Returns a report dict (also kept for diff_report())."""
    rep = _report
    rep.clear()
    sess = engine.connect()
    est_path = os.path.join(repo, sqldir, 'estimated-current.sql')
    est_routines = {}
    slips_all = []
    skipped_dml = 0
    for chunk in split_script(open(est_path).read()):
        clean = _strip_comments(chunk).strip()
        if not clean:
            continue
        head = clean.split(None, 1)[0].upper()
        if head in ('INSERT', 'UPDATE', 'DELETE'):
            skipped_dml += 1
            continue
        if _ROUTINE_RE.search(clean) and not _DDL_START.match(clean):
            for m in _ROUTINE_RE.finditer(clean):
                if m.group(1).upper() == 'CREATE':
                    est_routines[(m.group(2).upper(), m.group(4).lower())] = clean[m.start():].strip()
                    break
            continue
        stmts, slips = parse_many(chunk, tolerant=True)
        slips_all.extend(slips)
        for node, _src in stmts:
            engine.exec_stmt(node, sess, None)
    rep['estimated_current_syntax_slips'] = slips_all
    rep['estimated_current_skipped_dml'] = skipped_dml

    # ---- ALTERs of migrations that estimated-current.sql does not reflect yet
    scripts = migration_scripts(repo, database)
    applied = []
    start = next((i for i, s in enumerate(scripts) if s.startswith('116-')), len(scripts))
    for script in scripts[start + 1:]:
        if not script.endswith('.sql'):
            continue
        for chunk in split_script(open(os.path.join(repo, sqldir, script)).read()):
            clean = _strip_comments(chunk)
            if not _DDL_START.match(clean):
                continue
            stmts, _ = parse_many(chunk, tolerant=True)
            for node, src in stmts:
                try:
                    engine.exec_stmt(node, sess, None)
                    applied.append((script, src.strip()[:120]))
                except SqlCondition as e:
                    if e.code in (1060, 1061, 1050):
                        continue  # already reflected
                    raise
    rep['applied_newer_ddl'] = applied

    # ---- cross-check against a replay of the whole DDL chain; adopt table renames the chain performed
    fixes = []
    try:
        chain_eng, problems = replay_chain_ddl(repo, sqldir, database)
        rep['chain_replay_problems'] = problems
        est_tables = set(engine.tables)
        chain_tables = set(chain_eng.tables)
        only_est = sorted(est_tables - chain_tables)
        only_chain = sorted(chain_tables - est_tables)
        for a in list(only_est):
            for b in list(only_chain):
                ta, tb = engine.tables[a], chain_eng.tables[b]
                if [c.name for c in ta.cols] == [c.name for c in tb.cols]:
                    old_name = ta.name
                    engine.ddl_rename([(old_name, tb.name)])
                    fixes.append(f'table `{old_name}` of estimated-current.sql renamed to `{tb.name}` '
                                 f'(the migration chain renames it; the Python code uses `{tb.name}`)')
                    only_est.remove(a)
                    only_chain.remove(b)
                    break
        diffs = []
        from .storage import Column
        for l in sorted(set(engine.tables) & chain_tables):
            te, tc = engine.tables[l], chain_eng.tables[l]
            # columns that only the chain knows (estimated-current.sql forgot them) are adopted
            for c in tc.cols:
                if c.name.lower() not in te.colmap:
                    te.add_column(Column(c.name, c.ty, c.notnull, c.default, c.has_default, c.auto, c.on_update_now))
                    for r in te.rows.values():
                        r[c.name] = c.default if c.has_default else None
                    fixes.append(f'column `{te.name}`.`{c.name}` added: present in the migration chain but '
                                 f'missing from estimated-current.sql')
            engine.schema_changed()
            sa, sb = _table_signature(te), _table_signature(tc)
            for k in sa:
                if sa[k] != sb[k]:
                    if k == 'columns':
                        da = [c for c in sa[k] if c not in sb[k]]
                        db = [c for c in sb[k] if c not in sa[k]]
                        if not da and not db:
                            diffs.append((l, 'column order', f'{[c[0] for c in sa[k]]} vs chain {[c[0] for c in sb[k]]}'))
                        else:
                            diffs.append((l, k, f'estimated-current only: {da}; chain only: {db}'))
                    else:
                        da = [x for x in sa[k] if x not in sb[k]] if isinstance(sa[k], list) else sa[k]
                        db = [x for x in sb[k] if x not in sa[k]] if isinstance(sb[k], list) else sb[k]
                        diffs.append((l, k, f'estimated-current only: {da}; chain only: {db}'))
        rep['tables_only_in_estimated_current'] = only_est
        rep['tables_only_in_chain'] = only_chain
        rep['table_differences_vs_chain'] = diffs
    except Exception as e:  # the cross-check must never prevent loading
        rep['chain_replay_error'] = f'{type(e).__name__}: {e}'
    rep['fixes'] = fixes

    # ---- routines and triggers: the chain wins
    live, events = scan_chain(repo, sqldir, database)
    loaded = []
    for (kind, name), (script, src) in sorted(live.items(), key=lambda kv: (kv[0][0] == 'TRIGGER', kv[0])):
        p = Parser(src)
        node = p._statement()
        if kind == 'TRIGGER':
            if node.table.lower() not in engine.tables:
                rep.setdefault('triggers_on_missing_tables', []).append((name, node.table, script))
                continue
            engine.ddl_create_trigger(node, source=src)
        else:
            engine.ddl_create_routine(node, source=src)
        loaded.append((kind, name, script))
    rep['loaded_routines'] = loaded
    stale = []

    def norm(s):
        return re.sub(r'\s+', ' ', _strip_comments(s)).strip().rstrip(';').strip().lower()
    for key, (script, src) in live.items():
        if key not in est_routines:
            stale.append((key, f'missing from estimated-current.sql (defined by {script})'))
        elif norm(est_routines[key]) != norm(src):
            stale.append((key, f'estimated-current.sql differs from the chain definition in {script}'))
    for key in est_routines:
        if key not in live:
            stale.append((key, 'defined in estimated-current.sql but dropped / never created by the chain'))
    rep['stale_routines'] = stale
    engine.close_session(sess)
    return rep


def diff_report() -> str:
    """Human readable report of how the loaded schema differs from estimated-current.sql."""
    r = _report
    if not r:
        return 'load_batch_schema() has not been called'
    out = []
    out.append(f"routines/triggers loaded from the chain: {len(r.get('loaded_routines', []))}")
    for kind, name, script in r.get('loaded_routines', []):
        out.append(f'  {kind:9s} {name:40s} <- {script}')
    out.append('estimated-current.sql syntax slips tolerated:')
    for s in r.get('estimated_current_syntax_slips', []):
        out.append(f'  {s}')
    out.append(f"estimated-current.sql data statements skipped: {r.get('estimated_current_skipped_dml')}")
    out.append('DDL applied from migrations newer than estimated-current.sql:')
    for s, t in r.get('applied_newer_ddl', []):
        out.append(f'  {s}: {t}')
    out.append('fixes adopted from the chain:')
    for f in r.get('fixes', []):
        out.append(f'  {f}')
    out.append('routines where estimated-current.sql is stale:')
    for key, why in r.get('stale_routines', []):
        out.append(f'  {key[0]} {key[1]}: {why}')
    out.append(f"tables only in estimated-current.sql: {r.get('tables_only_in_estimated_current')}")
    out.append(f"tables only in the replayed chain: {r.get('tables_only_in_chain')}")
    out.append('table differences (estimated-current vs replayed .sql chain; .py migrations are not replayed):')
    for l, k, d in r.get('table_differences_vs_chain', []):
        out.append(f'  {l}.{k}: {d}')
    out.append('chain replay problems:')
    for p in r.get('chain_replay_problems', []):
        out.append(f'  {p}')
    if 'chain_replay_error' in r:
        out.append(f"chain replay error: {r['chain_replay_error']}")
    out.append(f"python migrations skipped: {len(r.get('skipped_python_migrations', []))}")
    return '\n'.join(out)


def seed_minimal(engine: Engine, *, instance_id='testinstance', n_tokens=4, internal_token='internal-token',
                 frozen=0, feature_flags=None, regions=('us-central1', 'us-east1'), resources=None,
                 pools=('standard', 'highmem'), job_private='job-private', cloud='gcp',
                 billing_projects=None, worker_cores=16):
    """Insert the rows every Batch service needs.

    billing_projects: {project_name: [user, ...]} (default {'test': ['test', 'test-dev'], 'ci': ['ci']})
    resources: {resource_name: rate} (resource_id is auto-assigned, deduped_resource_id = resource_id)"""
    s = engine.connect()
    try:
        s.execute('INSERT INTO globals (instance_id, internal_token, n_tokens, frozen) VALUES (%s, %s, %s, %s)',
                  (instance_id, internal_token, n_tokens, frozen))
        ff = {'compact_billing_tables': 0, 'oms_agent': 0, 'dockerhub_proxy': 0}
        ff.update(feature_flags or {})
        ffcols = [c for c in ff if c.lower() in engine.get_table('feature_flags').colmap]
        s.execute(f"INSERT INTO feature_flags ({', '.join(ffcols)}) VALUES ({', '.join(['%s'] * len(ffcols))})",
                  tuple(ff[c] for c in ffcols))
        if 'events_mark' in engine.tables:
            s.execute('INSERT INTO events_mark (mark) VALUES (NULL)')
        elif 'gevents_mark' in engine.tables:
            s.execute('INSERT INTO gevents_mark (mark) VALUES (NULL)')
        for r in regions:
            s.execute('INSERT INTO regions (region) VALUES (%s)', (r,))
        if resources is None:
            resources = {
                'compute/n1-preemptible/1': 6.6e-09, 'memory/n1-preemptible/1': 8.8e-10,
                'boot-disk/pd-ssd/1': 6.5e-11, 'ip-fee/1024/1': 1.1e-09, 'service-fee/1': 2.8e-09,
                'compute/n1-nonpreemptible/1': 3.2e-08, 'memory/n1-nonpreemptible/1': 4.2e-09,
            }
        for name, rate in resources.items():
            s.execute('INSERT INTO resources (resource, rate) VALUES (%s, %s)', (name, rate))
        s.execute('UPDATE resources SET deduped_resource_id = resource_id WHERE deduped_resource_id IS NULL')
        ic_cols = {c.lower() for c in engine.get_table('inst_colls').colnames}
        pool_cols = {c.lower() for c in engine.get_table('pools').colnames}

        def ins(table, cols, values):
            s.execute(f"INSERT INTO {table} ({', '.join('`' + c + '`' for c in cols)}) "
                      f"VALUES ({', '.join(['%s'] * len(cols))})", tuple(values))
        for name in list(pools) + ([job_private] if job_private else []):
            is_pool = name != job_private
            row = {'name': name, 'is_pool': int(is_pool), 'boot_disk_size_gb': 10, 'max_instances': 10,
                   'max_live_instances': 8, 'cloud': cloud, 'max_new_instances_per_autoscaler_loop': 10,
                   'autoscaler_loop_period_secs': 15, 'worker_max_idle_time_secs': 30}
            row = {k: v for k, v in row.items() if k in ic_cols}
            ins('inst_colls', list(row), list(row.values()))
            if is_pool:
                prow = {'name': name, 'worker_type': name, 'worker_cores': worker_cores,
                        'worker_local_ssd_data_disk': 1, 'worker_external_ssd_data_disk_size_gb': 0,
                        'enable_standing_worker': 0, 'standing_worker_cores': 4, 'preemptible': 1,
                        'standing_worker_max_idle_time_secs': 7200, 'job_queue_scheduling_window_secs': 150,
                        'min_instances': 0, 'label': ''}
                prow = {k: v for k, v in prow.items() if k in pool_cols}
                ins('pools', list(prow), list(prow.values()))
        if billing_projects is None:
            billing_projects = {'test': ['test', 'test-dev'], 'ci': ['ci']}
        for bp, users in billing_projects.items():
            s.execute('INSERT INTO billing_projects (name, name_cs) VALUES (%s, %s)', (bp, bp))
            for u in users:
                s.execute('INSERT INTO billing_project_users (billing_project, `user`, user_cs) VALUES (%s, %s, %s)',
                          (bp, u, u))
    finally:
        engine.close_session(s)


def new_batch_engine(repo='/repo', seed=True, **seed_kw) -> Engine:
    """Convenience: Engine with the Batch schema (loaded once per process, then forked) and minimal seed rows."""
    global _template
    if _template is None or _template[0] != repo:
        e = Engine()
        load_batch_schema(e, repo)
        _template = (repo, e)
    e = _template[1].fork()
    if seed:
        seed_minimal(e, **seed_kw)
    return e


_template = None
