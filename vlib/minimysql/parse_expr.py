"""Recursive-descent expression parser (MySQL operator precedence)."""
from __future__ import annotations

from .errors import NotSupported, cond
from .lexer import tokenize
from .nodes import N, TypeSpec

RESERVED = {
    'SELECT', 'FROM', 'WHERE', 'GROUP', 'HAVING', 'ORDER', 'LIMIT', 'UNION', 'ON', 'JOIN', 'INNER', 'LEFT', 'RIGHT',
    'CROSS', 'STRAIGHT_JOIN', 'NATURAL', 'USING', 'SET', 'VALUES', 'INTO', 'FOR', 'LOCK', 'AS', 'AND', 'OR', 'XOR',
    'NOT', 'IS', 'IN', 'LIKE', 'BETWEEN', 'THEN', 'ELSE', 'END', 'WHEN', 'CASE', 'DIV', 'MOD', 'ASC', 'DESC', 'USE',
    'FORCE', 'IGNORE', 'WINDOW', 'DO', 'IF', 'ELSEIF', 'LOOP', 'WHILE', 'UNTIL', 'REPEAT', 'LATERAL', 'OUTER',
    'INSERT', 'UPDATE', 'DELETE', 'CALL', 'CREATE', 'DROP', 'ALTER', 'EXISTS', 'NULL', 'TRUE', 'FALSE', 'DISTINCT',
    'ALL', 'BY', 'KEY', 'PRIMARY', 'UNIQUE', 'FOREIGN', 'REFERENCES', 'DEFAULT', 'WITH', 'OVER', 'PARTITION',
    'REGEXP', 'RLIKE', 'ESCAPE', 'COLLATE', 'INTERVAL', 'OFFSET', 'DUPLICATE', 'RETURN', 'LEAVE', 'ITERATE',
    'DECLARE', 'FETCH', 'OPEN', 'CLOSE', 'SIGNAL', 'EXCEPT', 'INTERSECT', 'OF', 'TO',
}

AGGREGATES = {'SUM', 'COUNT', 'MAX', 'MIN', 'AVG', 'JSON_OBJECTAGG', 'JSON_ARRAYAGG', 'GROUP_CONCAT', 'BIT_OR', 'BIT_AND'}

_NOARG_FUNCS = {'CURRENT_TIMESTAMP', 'CURRENT_DATE', 'UTC_TIMESTAMP', 'LOCALTIME', 'LOCALTIMESTAMP', 'CURRENT_USER',
                'UTC_DATE'}


class ExprParser:
    def __init__(self, sql: str, tolerant: bool = False):
        self.sql = sql
        self.toks = tokenize(sql)
        self.i = 0
        self.tolerant = tolerant
        self.slips: list[str] = []
        self.n_params = 0
        self.saw_for_update = False

    # ---- token helpers
    @property
    def cur(self):
        return self.toks[self.i]

    def peek(self, k=1):
        j = self.i + k
        return self.toks[j] if j < len(self.toks) else self.toks[-1]

    def adv(self):
        t = self.toks[self.i]
        if t.k != 'eof':
            self.i += 1
        return t

    def at_kw(self, *kws):
        t = self.toks[self.i]
        return t.k == 'id' and t.u in kws

    def peek_kw(self, k, *kws):
        t = self.peek(k)
        return t.k == 'id' and t.u in kws

    def at_op(self, *ops):
        t = self.toks[self.i]
        return t.k == 'op' and t.v in ops

    def accept_kw(self, *kws):
        if self.at_kw(*kws):
            return self.adv()
        return None

    def accept_op(self, *ops):
        if self.at_op(*ops):
            return self.adv()
        return None

    def expect_kw(self, *kws):
        if not self.at_kw(*kws):
            self.fail(f"expected {' or '.join(kws)}")
        return self.adv()

    def expect_op(self, op):
        if not self.at_op(op):
            self.fail(f'expected {op!r}')
        return self.adv()

    def fail(self, msg):
        t = self.cur
        near = self.sql[t.pos:t.pos + 60]
        raise cond(1064, f"You have an error in your SQL syntax; {msg} near '{near}' (offset {t.pos})")

    def ident(self, allow_reserved=False):
        t = self.cur
        if t.k == 'qid':
            self.adv()
            return t.v
        if t.k == 'id' and (allow_reserved or t.u not in RESERVED):
            self.adv()
            return t.v
        self.fail('expected identifier')

    def at_ident(self):
        t = self.cur
        return t.k == 'qid' or (t.k == 'id' and t.u not in RESERVED)

    # ---- expressions
    def parse_expr(self):
        t = self.cur
        if t.k == 'uvar' and self.peek().k == 'op' and self.peek().v == ':=':
            self.adv()
            self.adv()
            return N('assign', name=t.v, e=self.parse_expr())
        return self.p_or()

    def p_or(self):
        e = self.p_xor()
        while self.at_kw('OR') or self.at_op('||'):
            self.adv()
            e = N('or', l=e, r=self.p_xor())
        return e

    def p_xor(self):
        e = self.p_and()
        while self.at_kw('XOR'):
            self.adv()
            e = N('xor', l=e, r=self.p_and())
        return e

    def p_and(self):
        e = self.p_not()
        while self.at_kw('AND') or self.at_op('&&'):
            self.adv()
            e = N('and', l=e, r=self.p_not())
        return e

    def p_not(self):
        if self.at_kw('NOT'):
            self.adv()
            return N('not', e=self.p_not())
        return self.p_pred()

    _CMP = ('=', '<=>', '<>', '!=', '<', '<=', '>', '>=')

    def p_pred(self):
        e = self.p_bitor()
        while True:
            t = self.cur
            if t.k == 'op' and t.v in self._CMP:
                self.adv()
                if self.at_kw('ANY', 'ALL', 'SOME'):
                    raise NotSupported('quantified comparison (ANY/ALL/SOME)')
                r = self.p_bitor()
                e = N('cmp', op='<>' if t.v == '!=' else t.v, l=e, r=r)
                continue
            if t.k != 'id':
                return e
            u = t.u
            if u == 'IS':
                self.adv()
                neg = bool(self.accept_kw('NOT'))
                w = self.expect_kw('NULL', 'TRUE', 'FALSE', 'UNKNOWN').u
                e = N('is', e=e, what=w, neg=neg)
                continue
            neg = False
            if u == 'NOT' and self.peek_kw(1, 'IN', 'BETWEEN', 'LIKE', 'REGEXP', 'RLIKE'):
                self.adv()
                neg = True
                u = self.cur.u
            if u == 'IN':
                self.adv()
                if self.cur.k == 'param':
                    p = self.adv()
                    self.n_params = max(self.n_params, p.v + 1)
                    e = N('in', e=e, items=None, sub=None, plist=N('param', i=p.v), neg=neg)
                    continue
                self.expect_op('(')
                if self.at_kw('SELECT', 'WITH'):
                    sub = self.parse_select()
                    self.expect_op(')')
                    e = N('in', e=e, items=None, sub=sub, plist=None, neg=neg)
                else:
                    items = [self.parse_expr()]
                    while self.accept_op(','):
                        items.append(self.parse_expr())
                    self.expect_op(')')
                    e = N('in', e=e, items=items, sub=None, plist=None, neg=neg)
                continue
            if u == 'BETWEEN':
                self.adv()
                lo = self.p_bitor()
                self.expect_kw('AND')
                hi = self.p_bitor()
                e = N('between', e=e, lo=lo, hi=hi, neg=neg)
                continue
            if u == 'LIKE':
                self.adv()
                pat = self.p_bitor()
                esc = None
                if self.accept_kw('ESCAPE'):
                    esc = self.p_bitor()
                e = N('like', e=e, pat=pat, esc=esc, neg=neg)
                continue
            if u in ('REGEXP', 'RLIKE'):
                raise NotSupported('REGEXP')
            if u in ('SOUNDS', 'MEMBER'):
                raise NotSupported(u)
            return e

    def _binloop(self, sub, ops, kws=()):
        e = sub()
        while True:
            t = self.cur
            if t.k == 'op' and t.v in ops:
                self.adv()
                e = N('bin', op=t.v, l=e, r=sub())
            elif kws and t.k == 'id' and t.u in kws:
                self.adv()
                e = N('bin', op=t.u, l=e, r=sub())
            else:
                return e

    def p_bitor(self):
        return self._binloop(self.p_bitand, ('|',))

    def p_bitand(self):
        return self._binloop(self.p_shift, ('&',))

    def p_shift(self):
        return self._binloop(self.p_add, ('<<', '>>'))

    def p_add(self):
        e = self.p_mul()
        while True:
            t = self.cur
            if t.k == 'op' and t.v in ('+', '-'):
                if self.peek_kw(1, 'INTERVAL'):
                    raise NotSupported('INTERVAL arithmetic')
                self.adv()
                e = N('bin', op=t.v, l=e, r=self.p_mul())
            else:
                return e

    def p_mul(self):
        e = self.p_bitxor()
        while True:
            t = self.cur
            if t.k == 'op' and t.v in ('*', '/', '%'):
                self.adv()
                e = N('bin', op=t.v, l=e, r=self.p_bitxor())
            elif t.k == 'id' and t.u in ('DIV', 'MOD'):
                self.adv()
                e = N('bin', op='%' if t.u == 'MOD' else 'DIV', l=e, r=self.p_bitxor())
            else:
                return e

    def p_bitxor(self):
        return self._binloop(self.p_unary, ('^',))

    def p_unary(self):
        t = self.cur
        if t.k == 'op':
            if t.v == '-':
                self.adv()
                e = self.p_unary()
                if e.k == 'lit' and isinstance(e.v, (int, float)) and not isinstance(e.v, bool):
                    return N('lit', v=-e.v)
                return N('neg', e=e)
            if t.v == '+':
                self.adv()
                return self.p_unary()
            if t.v == '!':
                self.adv()
                return N('not', e=self.p_unary())
            if t.v == '~':
                raise NotSupported('bitwise ~')
        if t.k == 'id' and t.u == 'BINARY' and not (self.peek().k == 'op' and self.peek().v == '('):
            self.adv()
            return N('binary', e=self.p_unary())
        e = self.p_primary()
        while True:
            if self.at_kw('COLLATE'):
                self.adv()
                name = self.ident(allow_reserved=True)
                e = N('collate', e=e, cs=_collation_is_cs(name))
            elif self.at_op('->', '->>'):
                op = self.adv().v
                if self.cur.k != 'str':
                    self.fail('expected JSON path string')
                path = N('lit', v=self.adv().v)
                e = N('func', name='JSON_EXTRACT', args=[e, path], distinct=False, star=False)
                if op == '->>':
                    e = N('func', name='JSON_UNQUOTE', args=[e], distinct=False, star=False)
            else:
                return e

    def p_primary(self):
        t = self.cur
        k = t.k
        if k == 'num':
            self.adv()
            return N('lit', v=t.v)
        if k == 'str':
            self.adv()
            v = t.v
            while self.cur.k == 'str':  # adjacent literals concatenate
                v += self.adv().v
            return N('lit', v=v)
        if k == 'param':
            self.adv()
            self.n_params = max(self.n_params, t.v + 1)
            return N('param', i=t.v)
        if k == 'uvar':
            self.adv()
            return N('uvar', name=t.v)
        if k == 'sysvar':
            self.adv()
            return N('sysvar', name=t.v)
        if k == 'op':
            if t.v == '(':
                self.adv()
                if self.at_kw('SELECT', 'WITH'):
                    sub = self.parse_select()
                    self.expect_op(')')
                    return N('subq', q=sub)
                e = self.parse_expr()
                if self.at_op(','):
                    items = [e]
                    while self.accept_op(','):
                        items.append(self.parse_expr())
                    self.expect_op(')')
                    return N('row', items=items)
                self.expect_op(')')
                return N('paren', e=e)
            if t.v == '*':
                self.adv()
                return N('star', t=None)
            self.fail('unexpected operator')
        if k == 'qid':
            return self.p_colref()
        if k != 'id':
            self.fail('unexpected token')
        u = t.u
        nxt = self.peek()
        is_call = nxt.k == 'op' and nxt.v == '('
        if u == 'NULL':
            self.adv()
            return N('lit', v=None)
        if u == 'TRUE':
            self.adv()
            return N('lit', v=1)
        if u == 'FALSE':
            self.adv()
            return N('lit', v=0)
        if u == 'CASE':
            return self.p_case()
        if u == 'EXISTS' and is_call:
            self.adv()
            self.adv()
            sub = self.parse_select()
            self.expect_op(')')
            return N('exists', q=sub)
        if u == 'NOT':
            self.adv()
            return N('not', e=self.p_unary())
        if u == 'CAST' and is_call:
            self.adv()
            self.adv()
            e = self.parse_expr()
            self.expect_kw('AS')
            ty = self.parse_cast_type()
            self.expect_op(')')
            return N('cast', e=e, ty=ty)
        if u == 'CONVERT' and is_call:
            raise NotSupported('CONVERT()')
        if u == 'INTERVAL':
            raise NotSupported('INTERVAL')
        if u in ('DATE', 'TIME', 'TIMESTAMP') and nxt.k == 'str':
            raise NotSupported('typed date literal')
        if u == 'VALUES' and is_call:
            self.adv()
            self.adv()
            c = self.p_colref()
            self.expect_op(')')
            return N('values', col=c.name)
        if u == 'DEFAULT':
            self.adv()
            return N('default')
        if u in _NOARG_FUNCS and not is_call:
            self.adv()
            return N('func', name=u, args=[], distinct=False, star=False)
        if is_call and u not in ('IF', 'LEFT', 'RIGHT', 'REPEAT', 'MOD', 'VALUES', 'INSERT', 'REPLACE') and u in RESERVED:
            self.fail('unexpected keyword')
        if is_call:
            return self.p_call()
        if u in RESERVED:
            self.fail('unexpected keyword')
        return self.p_colref()

    def p_colref(self):
        a = self.ident()
        if self.at_op('.'):
            self.adv()
            if self.at_op('*'):
                self.adv()
                return N('star', t=a)
            b = self.ident(allow_reserved=True)
            if self.at_op('.'):
                self.adv()
                if self.at_op('*'):
                    self.adv()
                    return N('star', t=b)
                c = self.ident(allow_reserved=True)
                return N('col', t=b, name=c)  # db.table.col -> ignore db
            return N('col', t=a, name=b)
        return N('col', t=None, name=a)

    def p_case(self):
        self.expect_kw('CASE')
        operand = None
        if not self.at_kw('WHEN'):
            operand = self.parse_expr()
        whens = []
        while self.accept_kw('WHEN'):
            c = self.parse_expr()
            self.expect_kw('THEN')
            whens.append((c, self.parse_expr()))
        els = None
        if self.accept_kw('ELSE'):
            els = self.parse_expr()
        self.expect_kw('END')
        return N('case', operand=operand, whens=whens, els=els)

    def p_call(self):
        name = self.adv()
        u = name.u
        self.expect_op('(')
        distinct = False
        star = False
        args = []
        if u in AGGREGATES and self.accept_kw('DISTINCT'):
            distinct = True
        if self.at_op('*') and u == 'COUNT':
            self.adv()
            star = True
        elif not self.at_op(')'):
            args.append(self.parse_expr())
            while self.accept_op(','):
                args.append(self.parse_expr())
        if u == 'GROUP_CONCAT' and self.at_kw('ORDER', 'SEPARATOR'):
            raise NotSupported('GROUP_CONCAT ORDER BY/SEPARATOR')
        self.expect_op(')')
        node = N('func', name=u, args=args, distinct=distinct, star=star)
        if self.at_kw('OVER'):
            self.adv()
            if not self.at_op('('):
                raise NotSupported('named windows')
            self.adv()
            part = []
            order = []
            if self.accept_kw('PARTITION'):
                self.expect_kw('BY')
                part.append(self.parse_expr())
                while self.accept_op(','):
                    part.append(self.parse_expr())
            if self.accept_kw('ORDER'):
                self.expect_kw('BY')
                order = self.parse_order_list()
            if not self.at_op(')'):
                raise NotSupported('window frame clause')
            self.adv()
            if u != 'ROW_NUMBER':
                raise NotSupported(f'window function {u}')
            return N('window', name=u, args=args, part=part, order=order)
        return node

    def parse_order_list(self):
        out = []
        while True:
            e = self.parse_expr()
            desc = False
            if self.accept_kw('ASC'):
                pass
            elif self.accept_kw('DESC'):
                desc = True
            out.append((e, desc))
            if not self.accept_op(','):
                return out

    def parse_cast_type(self):
        t = self.cur
        if t.k != 'id':
            self.fail('expected type')
        u = t.u
        self.adv()
        if u == 'SIGNED':
            self.accept_kw('INTEGER', 'INT')
            return TypeSpec('int')
        if u == 'UNSIGNED':
            self.accept_kw('INTEGER', 'INT')
            return TypeSpec('int', unsigned=True)
        if u in ('CHAR', 'NCHAR'):
            ln = None
            if self.accept_op('('):
                ln = self.adv().v
                self.expect_op(')')
            return TypeSpec('char', length=ln)
        if u == 'BINARY':
            if self.accept_op('('):
                self.adv()
                self.expect_op(')')
            return TypeSpec('blob')
        if u == 'DATE':
            return TypeSpec('date')
        if u == 'DATETIME':
            return TypeSpec('datetime')
        if u == 'JSON':
            return TypeSpec('json')
        if u in ('DECIMAL', 'DEC'):
            p, s = 10, 0
            if self.accept_op('('):
                p = self.adv().v
                if self.accept_op(','):
                    s = self.adv().v
                self.expect_op(')')
            return TypeSpec('decimal', length=p, scale=s)
        if u in ('DOUBLE', 'FLOAT', 'REAL'):
            return TypeSpec('double')
        raise NotSupported(f'CAST AS {u}')

    # provided by subclass
    def parse_select(self):  # pragma: no cover
        raise NotImplementedError


def _collation_is_cs(name: str) -> bool:
    n = name.lower()
    return n.endswith('_bin') or n.endswith('_cs') or n == 'binary'
