"""Tables, rows, hash indexes."""
from __future__ import annotations

import datetime
from decimal import Decimal

from .errors import cond
from .values import ci_key, parse_date, str_to_number


class Row(dict):
    __slots__ = ('rid', 'sk')


class Column:
    __slots__ = ('name', 'ty', 'notnull', 'default', 'has_default', 'auto', 'on_update_now', 'cs', 'strlike')

    def __init__(self, name, ty, notnull=False, default=None, has_default=False, auto=False, on_update_now=False):
        self.name = name
        self.ty = ty
        self.notnull = notnull
        self.default = default        # python value, or the marker NOW
        self.has_default = has_default
        self.auto = auto
        self.on_update_now = on_update_now
        self.cs = bool(ty.cs)
        self.strlike = ty.base in ('char', 'text', 'enum')


NOW = object()
NOKEY = object()   # lookup value cannot be used with a hash index (fallback to scan)
NEVER = object()   # lookup value can never match (NULL)


class FK:
    __slots__ = ('name', 'cols', 'rtable', 'rcols', 'on_delete')

    def __init__(self, name, cols, rtable, rcols, on_delete):
        self.name = name
        self.cols = tuple(cols)
        self.rtable = rtable
        self.rcols = tuple(rcols)
        self.on_delete = on_delete


def _keyfn(col: Column):
    if col.strlike and not col.cs:
        return lambda v: None if v is None else ci_key(v)
    return None


def lookup_norm(col: Column, v):
    """Normalise a lookup value for equality against `col` so that hash lookup returns a superset of `col = v`."""
    if v is None:
        return NEVER
    base = col.ty.base
    if base == 'int' or base == 'double' or base == 'decimal':
        if isinstance(v, (int, float, Decimal)):
            return v
        if isinstance(v, str):
            return str_to_number(v)
        return NOKEY
    if col.strlike or base == 'json':
        if type(v) is str:
            return v if col.cs else ci_key(v)
        return NOKEY
    if base == 'date':
        if isinstance(v, datetime.datetime):
            return NOKEY
        if isinstance(v, datetime.date):
            return v
        if isinstance(v, str):
            d = parse_date(v)
            return d if d is not None else NOKEY
        return NOKEY
    return NOKEY


class HashIndex:
    __slots__ = ('cols', 'kfs', 'map', 'single')

    def __init__(self, table, cols):
        self.cols = tuple(cols)
        self.kfs = tuple(_keyfn(table.colmap[c.lower()]) for c in cols)
        self.single = len(cols) == 1
        self.map: dict = {}
        for r in table.rows.values():
            self.add(r)

    def key_of(self, row):
        if self.single:
            v = row[self.cols[0]]
            kf = self.kfs[0]
            return kf(v) if kf is not None and v is not None else v
        out = []
        for c, kf in zip(self.cols, self.kfs):
            v = row[c]
            if kf is not None and v is not None:
                v = kf(v)
            out.append(v)
        return tuple(out)

    def add(self, row):
        k = self.key_of(row)
        b = self.map.get(k)
        if b is None:
            self.map[k] = {row.rid: row}
        else:
            b[row.rid] = row

    def remove(self, row, key=None):
        k = self.key_of(row) if key is None else key
        b = self.map.get(k)
        if b is not None:
            b.pop(row.rid, None)
            if not b:
                del self.map[k]


class Table:
    def __init__(self, name):
        self.name = name
        self.cols: list[Column] = []
        self.colmap: dict[str, Column] = {}
        self.colnames: list[str] = []
        self.pk: tuple | None = None
        self.uniques: list[tuple] = []        # (name, cols tuple)
        self.index_defs: list[tuple] = []     # (name, cols tuple) plain KEY/INDEX declarations
        self.fks: list[FK] = []
        self.rows: dict[int, Row] = {}
        self.next_rid = 1
        self.auto_col: str | None = None
        self.auto_next = 1
        self.hidx: dict[tuple, HashIndex] = {}
        self._sorted = None
        self._pk_kfs = ()
        self.children: list = []              # [(child Table, FK)] maintained by the engine
        self._prefixes = None

    # ---- schema
    def add_column(self, col: Column, pos=None):
        if col.name.lower() in self.colmap:
            raise cond(1060, f"Duplicate column name '{col.name}'")
        if pos is None:
            self.cols.append(col)
        else:
            self.cols.insert(pos, col)
        self.colmap[col.name.lower()] = col
        self.colnames = [c.name for c in self.cols]
        if col.auto:
            self.auto_col = col.name
        self._schema_changed()

    def canon(self, name: str) -> str:
        c = self.colmap.get(name.lower())
        if c is None:
            raise cond(1054, f"Unknown column '{name}' in '{self.name}'")
        return c.name

    def set_pk(self, cols):
        self.pk = tuple(self.canon(c) for c in cols) if cols else None
        if self.pk:
            for c in self.pk:
                self.colmap[c.lower()].notnull = True
        self._schema_changed()

    def _schema_changed(self):
        self.hidx = {}
        self._sorted = None
        self._prefixes = None
        self._pk_kfs = tuple(_keyfn(self.colmap[c.lower()]) for c in self.pk) if self.pk else ()
        for r in self.rows.values():
            r.sk = None

    def candidate_prefixes(self):
        """All prefixes of declared indexes (PK, unique, plain, FK columns), longest first."""
        if self._prefixes is None:
            seen = set()
            out = []
            defs = []
            if self.pk:
                defs.append(self.pk)
            defs.extend(c for _, c in self.uniques)
            defs.extend(c for _, c in self.index_defs)
            defs.extend(fk.cols for fk in self.fks)
            for cols in defs:
                for n in range(len(cols), 0, -1):
                    p = tuple(cols[:n])
                    if p not in seen:
                        seen.add(p)
                        out.append(p)
            out.sort(key=lambda p: -len(p))
            self._prefixes = out
        return self._prefixes

    def unique_keys(self):
        out = []
        if self.pk:
            out.append(('PRIMARY', self.pk))
        out.extend(self.uniques)
        return out

    def index_on(self, cols) -> HashIndex:
        cols = tuple(cols)
        h = self.hidx.get(cols)
        if h is None:
            h = self.hidx[cols] = HashIndex(self, cols)
        return h

    # ---- ordering
    def sort_key(self, row):
        sk = row.sk
        if sk is None:
            if self.pk:
                out = []
                for c, kf in zip(self.pk, self._pk_kfs):
                    v = row[c]
                    out.append(kf(v) if kf is not None and v is not None else v)
                sk = tuple(out)
            else:
                sk = (row.rid,)
            row.sk = sk
        return sk

    def scan(self):
        s = self._sorted
        if s is None:
            if self.pk:
                s = sorted(self.rows.values(), key=self.sort_key)
            else:
                s = list(self.rows.values())
            self._sorted = s
        return s

    def lookup(self, cols, key):
        """rows whose index key on `cols` equals `key` (already normalised), in PK order."""
        h = self.hidx.get(cols)
        if h is None:
            h = self.hidx[cols] = HashIndex(self, cols)
        b = h.map.get(key)
        if not b:
            return ()
        if len(b) == 1:
            return tuple(b.values())
        return sorted(b.values(), key=self.sort_key)

    # ---- raw row operations (no logging, no constraint checks)
    def raw_insert(self, row: Row):
        if getattr(row, 'rid', None) is None:
            row.rid = self.next_rid
            self.next_rid += 1
        row.sk = None
        self.rows[row.rid] = row
        for h in self.hidx.values():
            h.add(row)
        self._sorted = None

    def raw_delete(self, row: Row):
        if self.rows.pop(row.rid, None) is None:
            return
        for h in self.hidx.values():
            h.remove(row)
        self._sorted = None

    def raw_update(self, row: Row, changes: dict):
        touched = [h for h in self.hidx.values() if any(c in changes for c in h.cols)]
        oldkeys = [h.key_of(row) for h in touched]
        row.update(changes)
        for h, k in zip(touched, oldkeys):
            h.remove(row, k)
            h.add(row)
        if self.pk and any(c in changes for c in self.pk):
            row.sk = None
            self._sorted = None

    def new_row(self, values: dict) -> Row:
        r = Row(values)
        r.rid = None
        r.sk = None
        return r
