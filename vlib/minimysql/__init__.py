"""minimysql - an in-memory interpreter for the MySQL 8 dialect subset used by the Hail Batch service."""
from .engine import Engine, Session, Result, ResultSet  # noqa: F401
from .errors import NotSupported  # noqa: F401
from . import driver, errors  # noqa: F401

__all__ = ['Engine', 'Session', 'NotSupported', 'driver', 'errors']
