"""minimysql - an in-memory interpreter for the MySQL 8 dialect subset used by the Hail Batch service.

Quick start::

    from vlib.minimysql import Engine, schema, driver
    eng = schema.new_batch_engine()            # Batch tables + routines/triggers from the migration chain + seed rows
    driver.install(); driver.set_engine(eng)   # fake `pymysql` / `aiomysql` modules now talk to `eng`
    s = eng.connect(); s.query('SELECT * FROM globals')     # direct synchronous access for harnesses

Knobs on Engine: ``rand_source`` (RAND()), ``clock`` (UTC_DATE/NOW/UNIX_TIMESTAMP), ``on_transaction_start`` (async hook
awaited before a session starts a transaction), ``fault_hook(session, phase, sql)``,
``insert_select_same_table_buffered`` and ``multi_update_on_the_fly`` (documented MySQL execution-strategy corners),
``fork()`` (cheap copy of schema+data).

Anything outside the implemented subset raises ``minimysql.NotSupported``.
Self-test: ``cd /verif && PYTHONPATH=/verif /venv/bin/python -m vlib.minimysql.selftest``.
"""
from .engine import Engine, Session, Result, ResultSet, dict_rows  # noqa: F401
from .errors import NotSupported  # noqa: F401
from . import driver, errors  # noqa: F401

__all__ = ['Engine', 'Session', 'NotSupported', 'driver', 'errors', 'dict_rows']
